TOK_NOTE = ("Trusted base: the analyser's model of the Python subset used by StreamTokenizer and its own integer "
            "Gauss/Fourier-Motzkin core (no external solver); frames opaque, validator an arbitrary deterministic oracle; "
            "Python list/int semantics. Not a runtime check: nothing of auditok is imported or executed.")
ENGINES = [
    dict(name='E4-provenance', path='sa/symex.py sa/pat.py sa/facts.py sa/roles.py', serves_properties=['C05', 'C06', 'C07', 'C09', 'C11', 'C13', 'C15', 'C16', 'C17', 'C18', 'C19'],
         kind_free_text='program model (classes, MRO, imports, alias families) + path-sensitive symbolic evaluator producing provenance terms, effects and guards; AC pattern matching with audio-parameter roles'),
    dict(name='E8-path formulas', path='sa/semantic.py sa/termeval.py', serves_properties=['C07', 'C11', 'C13', 'C16'],
         kind_free_text='per-path obligations "path condition => expression = specified function" decided by evaluating the extracted condition and terms (never auditok code) on finite grids of small inputs; helpers, property getters/setters and conditional expressions inlined first; unevaluable terms give INCONCLUSIVE'),
    dict(name='E9-typestate', path='sa/typestate.py sa/fuse.py', serves_properties=['C19', 'C12'],
         kind_free_text='finite abstract interpretation of the recorder class (fields over a small domain of lists/bytes/sources/method pointers), reachable abstract states explored to a fixpoint under read/rewind/data; loop fusion of helper generators'),
    dict(name='E5-nullness', path='sa/nullness.py', serves_properties=['C10', 'C18'], kind_free_text='nullness of read() results with interprocedural dereference/return summaries'),
    dict(name='E6-effects', path='sa/effects.py', serves_properties=['C17', 'C19', 'C20'], kind_free_text='transitive write-effect analysis over resolved callees'),
    dict(name='E3-fd traces', path='sa/props/c12.py sa/props/c13.py sa/props/c14.py (on sa/symex.py)', serves_properties=['C12', 'C13', 'C14'], kind_free_text='path enumeration of worker loops and hooks with messages abstracted to NONE/STOP/DATA; trace predicates over ordered effects'),
    dict(name='E7-cli tables', path='sa/props/c15.py', serves_properties=['C15'], kind_free_text='argparse / make_kwargs / consumer / documentation table extraction and comparison'),
    dict(name='E3-tokenizer', path='sa/absint.py sa/tokenizer.py sa/linear.py sa/tokrun.py', serves_properties=['C01', 'C02', 'C03', 'C04', 'C08', 'C20'],
         kind_free_text='AST-driven abstract interpreter of StreamTokenizer + Houdini invariant inference over unit-typed linear templates; entailment by own Gaussian/Fourier-Motzkin elimination'),
]
CHECKS = [
    dict(id='C01', engine='E3-tokenizer', level='proof', design_ref='DESIGN.md 3.3, 4.1',
         technique='static analysis: abstract interpretation of the tokenizer source with inferred inductive linear invariants (Houdini + Fourier-Motzkin), symbolic parameters',
         text='Proof over all streams x all accepted parameter tuples x 4 modes that token indices are truthful, ordered and non-overlapping: every DELIVER/APPEND obligation is an entailment from an inferred inductive invariant of the loop.',
         note=TOK_NOTE),
    dict(id='C02', engine='E3-tokenizer', level='proof', design_ref='DESIGN.md 3.3.3, 4.2, B.1',
         technique='static analysis: abstract interpretation + inductive invariants for the length bounds; symbolic evaluation of the constructor and region comparison by mutual entailment; the exception that leaves a rejecting path (incl. a message template asking for more arguments than it is given); no identity comparison of a parameter with an integer constant',
         text='Proof of the length bounds (<= max_length; short only as ghost-adjacent remainder in non-strict mode) for all streams/parameters, and equality of the constructor accept region with the spec region.',
         note=TOK_NOTE),
    dict(id='C03', engine='E3-tokenizer', level='proof', design_ref='DESIGN.md 3.3.4, 4.3',
         technique='static analysis: abstract interpretation with a ghost silence-run counter and inferred inductive invariants; no decision reads a construction-time copy of a public bound',
         text='Proof of the silence-run bound (ghost counter continuing across cuts), has-valid, starts-valid and ends-valid (drop mode) obligations for all streams/parameters/modes.',
         note=TOK_NOTE),
    dict(id='C04', engine='E3-tokenizer', level='proof', design_ref='DESIGN.md 3.3.5, 4.4',
         technique='static analysis: per-step agreement of the interpreted code with a reference step function over the ghost state, under inferred inductive invariants (init_min<=1)',
         text='Proof that, for init_min <= 1, every step of the automaton produces the events of the reference greedy-segmentation step (frame kept, token start/end, open length, continuation) in every reachable abstract state.',
         note=TOK_NOTE + ' The 20-line reference step is the operational reading of C04 (by inspection; printed in the evidence).'),
]
STRUCT_NOTE = ("Decides structural necessary conditions from the current source (path-sensitive provenance terms, nullness, roles, guards); "
               "the behavioural equality itself is a runtime value that is NOT computed -- see the 'explanation' field of the evidence for exactly which clauses are decided. "
               "Trusted: the analyser's path/term evaluator (sa/symex.py) and Python/library semantics. Nothing of auditok is imported or executed.")
CHECKS += [
    dict(id='C05', engine='E4-provenance', level='other', design_ref='DESIGN.md 3.4, 4.5',
         technique='static analysis: path-sensitive provenance terms of split() and AudioRegion construction, audio-parameter role rule over all call sites; an early empty answer of split() decided by taking an input that holds an event through the path conditions',
         text='Decides the wiring of split() on every returning path (data = join of token frames, start = start index x effective window, parameters from the tokenized source, lazy generator, argument roles). Byte equality is the composition C01 o C10 (argued).',
         note=STRUCT_NOTE),
    dict(id='C06', engine='E4-provenance', level='other', design_ref='DESIGN.md 4.6, B.2',
         technique='static analysis: provenance of the three duration->window conversions (rounding function, sign of tolerance, window source) and guard-table extraction of split() by path enumeration; formula identity of the durations the readers report (block_dur / hop_dur = size / rate)',
         text='Decides rounding direction and tolerance sign at the conversion sites, the window source, and that split() raises ValueError exactly for the documented guards. Float numerics are not decided.',
         note=STRUCT_NOTE),
    dict(id='C08', engine='E3-tokenizer + E4', level='other', design_ref='DESIGN.md 4.8',
         technique='static analysis: abstract interpretation events (one read per iteration, same-iteration hand-over, single end-of-stream, latency bound as entailment) plus structural laziness rules on tokenize()/split() and a one-inner-read-per-call rule over the reader wrappers under split(); no memoised constructor of a stateful class (two live generators never share one automaton)',
         text='Proves one read per iteration, hand-over in the deciding iteration, the latency bound max(K,0)+1 and single end-of-stream read for all states; decides that tokenize modes are thin wrappers and split() is lazy.',
         note=TOK_NOTE),
    dict(id='C10', engine='E5-nullness + E4', level='other', design_ref='DESIGN.md 3.5, 4.10',
         technique='static analysis: nullness dataflow of read() results over the reader stack, provenance of block/hop/limiter formulas, wrapper nesting on all configuration paths, guard extraction; one inner read per read() call (never in a loop); reported durations as formulas; buffered-open rule for files read as audio; the limiter charges its budget after the inner read has returned (effect order on every path)',
         text='Decides that no read() result is dereferenced unguarded in the reader stack, the framing formulas (int(block_dur*rate), hop bytes, min(budget, size), round(max_read*rate)), wrapper nesting and rejections. Concatenation equality is not computed.',
         note=STRUCT_NOTE),
    dict(id='C20', engine='E3-tokenizer + E6-effects', level='other', design_ref='DESIGN.md 4.20',
         technique='static analysis: taint of per-run tokenizer state from an arbitrary previous state in the abstract interpreter; effect analysis (purity of validators, no module-level mutable state, fresh objects per split, no memoised constructor of a stateful class, the finalisation of the token generator writes no tokenizer state, close->rewind)',
         text='Proves that no decision or delivered value of the tokenizer reads state left by an earlier run (all C01-C04 obligations hold from an arbitrary start), and decides purity / freshness / rewind facts structurally.',
         note=TOK_NOTE),
 ]
CHECKS += [
    dict(id='C07', engine='E4-provenance', level='other', design_ref='DESIGN.md 4.7',
         technique='static analysis: provenance terms of the energy decision normalised by rewrite rules (log/sqrt/clip), dtype table and reshape checks, selector dispatch by path enumeration; the accepted index region and the selected row are decided by evaluating the extracted path conditions and index term on a finite grid',
         text='Decides the formula shape (>=, 10*log10(mean square, last axis), -200 dB floor), the decoding table, the de-interleave, max-aggregation for None/any, and the selector guard region [-channels, channels). numpy numerics are not decided.',
         note=STRUCT_NOTE),
    dict(id='C09', engine='E4-provenance', level='other', design_ref='DESIGN.md 4.9, B.3',
         technique='static analysis: census of every alias-key read (long-name-wins idiom), source-factory dispatch by path enumeration, limiter formulas, role rule; the format-guessing helper evaluated path-wise on a grid of file names and explicit formats against its documented behaviour',
         text='Decides that every short alias is read only as fallback of its long name, that split() normalises what it hands down, the container dispatch (stdin/bytes/file x raw/wav x lazy/eager) and the max_read limiter formulas. Equality of region lists across containers is not computed.',
         note=STRUCT_NOTE),
    dict(id='C11', engine='E4-provenance', level='other', design_ref='DESIGN.md 4.11',
         technique='static analysis: sibling agreement of all read() implementations resolved through the MRO (open-check first, never empty bytes, whole-sample request); buffer source decided operation by operation as Hoare triples over its extracted paths (helpers, property getters/setters inlined), discharged by evaluating path conditions, results and field updates as formulas on finite grids (field stores forwarded to later loads on a path; rewind on open and closed sources); open/close typestate of every source with super() and hooks followed; buffered-open rule; role rule; every field read() writes is re-initialised by open / close / rewind; a rejected position assignment leaves the cursor unchanged (stores of the raising paths)',
         text='Decides per-operation facts for all 5 concrete sources (open test first -> AudioIOError, None-or-non-empty results, size*width*channels requests, cursor arithmetic, position setter/guards, rewind/close). History equivalence as a whole is argued from these facts.',
         note=STRUCT_NOTE),
    dict(id='C16', engine='E4-provenance', level='other', design_ref='DESIGN.md 4.16',
         technique='static analysis: path enumeration of the three slicing functions with helpers inlined; per path, the extracted bound terms are evaluated as formulas on finite grids (bounds None/negative/out of range, 1-2 byte samples, 1-2 channels; fractional seconds at 8 Hz-44.1 kHz) and compared with Python slice semantics on whole samples; type guards by selecting the path an invalid index takes; __len__ evaluated through its inlined paths incl. float-edge (samples, rate) pairs; time-view bounds that depend on the region length compared as the samples they select on regions of several lengths (sub-sample negative instants included); integer bounds beyond the float range are on the grid and a test that raises at a valid point is a decided raise',
         text='Decides that both byte bounds are sample index x bytes-per-sample with only behaviour-preserving normalisations, the TypeError guards, len, and the int/round conversions of the time views. The float claim "within one sample period" is not decided.',
         note=STRUCT_NOTE),
    dict(id='C17', engine='E4-provenance + E6-effects', level='other', design_ref='DESIGN.md 4.17',
         technique='static analysis: operator provenance terms, exhaustiveness of the compatibility check over {rate,width,channels}, frozen-dataclass and who-may-setattr census, write-effect analysis of all operators; the checked iterable of join decided on every path of its generator / iterator class',
         text='Decides byte-level provenance of + * join make_silence, the parameter check coverage and placement, equality fields, immutability (frozen, no operand writes), and contiguity/length shape of division pieces. Piece-count arithmetic is not decided.',
         note=STRUCT_NOTE),
    dict(id='C18', engine='E4-provenance + E5-nullness', level='other', design_ref='DESIGN.md 4.18',
         technique='static analysis: role agreement of wave writer/reader, to_file dispatch, save() placeholder provenance and exists_ok test-before-write on every path, skip/max_read conversion formulas and read order, nullness of the loaded data; format-guessing helper on a grid',
         text='Decides writer/reader role agreement, format dispatch, placeholder sources, overwrite refusal before writing, round(skip*rate)/round(max_read*rate) and that no None reaches AudioRegion. Round-trip equality as a value is not computed.',
         note=STRUCT_NOTE),
 ]
WORK_NOTE = ("Decides protocol facts of the worker design from the source (message abstracted to NONE/STOP/DATA, path enumeration, effect order); the step from the facts to the property is an argument "
             "relying on queue.Queue (unbounded FIFO, thread-safe, put never blocks) and Thread.join semantics. Interleavings and crash points are NOT enumerated.")
CHECKS += [
    dict(id='C12', engine='E3-fd traces', level='other', design_ref='DESIGN.md 4.12, B.6',
         technique='static analysis: finite-domain path enumeration of the worker loops (message in {NONE, STOP, DATA}), inbox discipline census, call-order rules, class-table exhaustiveness; kind of the stop-marker value; provenance of the keywords handed to split(); numbering of detections; the detections view; no truth-value filter on the forwarded options; no re-use of formatted text as a format template in an observer handler; the worker keeps the very list of observers it was given',
         text='Decides the ten protocol facts F1-F10 (unbounded own inbox, timeout on every blocking get, loop cases, notify-all once per detection then STOP, stop=send then join, no self-join, every worker has the hook). Schedules are not explored.',
         note=WORK_NOTE),
    dict(id='C19', engine='E9-typestate + E4-provenance + E6-effects', level='other', design_ref='DESIGN.md 4.19, 10.5e',
         technique='static analysis: typestate of the recorder class by finite abstract interpretation (reachable abstract states under read/rewind/data explored to a fixpoint, clauses checked on every state); provenance of the recorder cache/rewind paths, reset-completeness of wrapper state (fields written on the read path vs re-initialised by rewind), attribute-hiding guards',
         text='Decides cache-once, the first/later rewind paths, data-before-rewind guard, reset-completeness and inward propagation of rewind in every wrapper, and that non-recording readers hide data/rewind. Replay equality over histories is argued, not computed.',
         note=STRUCT_NOTE),
 ]
CHECKS += [
    dict(id='C13', engine='E3-fd traces', level='other', design_ref='DESIGN.md 4.13, B.6',
         technique='static analysis: finite-domain path enumeration of saver.read / writer hooks / drain loops (message in {DATA, STOP, Empty}), effect-order rules, provenance of the separator and file-name placeholders, role rule; stop-marker kind; format-guessing helper on a grid',
         text='Decides forward-once-before-return, cache-once, flush = join(cache) + empty, drain -> flush -> close, joiner first/later event typestate, separator = make_silence(...).data, region saver placeholders. File contents under schedules are argued from these facts.',
         note=WORK_NOTE),
    dict(id='C14', engine='E3-fd traces + E3-tokenizer', level='other', design_ref='DESIGN.md 4.14',
         technique='static analysis: path enumeration of the stop poll and TokenizerWorker.read (poll dominates read, no read after stop), call-order rules for stop_all / close, CLI handler structure; end-of-stream flush via the C04 obligations',
         text='Decides that a stop turns the next read into end-of-stream without pulling a block, that stop_all stops the tokenizer before observers and reader, saver shutdown order, and the CLI handler wiring; the flush semantics are the proved C04 obligations. Crash points are not enumerated.',
         note=WORK_NOTE),
    dict(id='C15', engine='E7-cli tables', level='other', design_ref='DESIGN.md 3.7, 4.15, B.4, B.5',
         technique='static analysis: extraction of the argparse table, the make_kwargs key map (all paths) and the consumers\' keyword reads; comparison with the spec table, the documented defaults (doc/command_line_usage.rst) and API defaults; formatter divmod-chain provenance',
         text='Decides the flag -> dest -> keyword -> consumer chain with types and defaults for 22 options, -q/-j wiring and exit codes, PrintWorker placeholders, and the time-formatter table. End-to-end stdout is not computed.',
         note=STRUCT_NOTE),
]
_PENDING = 'check not built yet in this session (planned in DESIGN.md section 4); not claimed until its checker exists'
_DONE = {c['id'] for c in CHECKS}
NOT_APPLICABLE = [dict(property_id='C%02d' % i, reason=_PENDING) for i in range(5, 21) if 'C%02d' % i not in _DONE]
NOTES = ('Technique family: static analysis only. Every check parses /repo/auditok/*.py on every run; nothing of auditok is imported or executed. '
         'Exit 0 pass / 1 VIOLATION / 2 ANALYSIS-ERROR or INCONCLUSIVE (never a silent pass). known_findings.json holds five fixed: entries (D1-D5).')
