TOK_NOTE = ("Trusted base: the analyser's model of the Python subset used by StreamTokenizer and its own integer "
            "Gauss/Fourier-Motzkin core (no external solver); frames opaque, validator an arbitrary deterministic oracle; "
            "Python list/int semantics. Not a runtime check: nothing of auditok is imported or executed.")
ENGINES = [
    dict(name='E3-tokenizer', path='sa/absint.py sa/tokenizer.py sa/linear.py sa/tokrun.py', serves_properties=['C01', 'C02', 'C03', 'C04', 'C08', 'C20'],
         kind_free_text='AST-driven abstract interpreter of StreamTokenizer + Houdini invariant inference over unit-typed linear templates; entailment by own Gaussian/Fourier-Motzkin elimination'),
]
CHECKS = [
    dict(id='C01', engine='E3-tokenizer', level='proof', design_ref='DESIGN.md 3.3, 4.1',
         technique='static analysis: abstract interpretation of the tokenizer source with inferred inductive linear invariants (Houdini + Fourier-Motzkin), symbolic parameters',
         text='Proof over all streams x all accepted parameter tuples x 4 modes that token indices are truthful, ordered and non-overlapping: every DELIVER/APPEND obligation is an entailment from an inferred inductive invariant of the loop.',
         note=TOK_NOTE),
    dict(id='C02', engine='E3-tokenizer', level='proof', design_ref='DESIGN.md 3.3.3, 4.2, B.1',
         technique='static analysis: abstract interpretation + inductive invariants for the length bounds; symbolic evaluation of the constructor and region comparison by mutual entailment',
         text='Proof of the length bounds (<= max_length; short only as ghost-adjacent remainder in non-strict mode) for all streams/parameters, and equality of the constructor accept region with the spec region.',
         note=TOK_NOTE),
    dict(id='C03', engine='E3-tokenizer', level='proof', design_ref='DESIGN.md 3.3.4, 4.3',
         technique='static analysis: abstract interpretation with a ghost silence-run counter and inferred inductive invariants',
         text='Proof of the silence-run bound (ghost counter continuing across cuts), has-valid, starts-valid and ends-valid (drop mode) obligations for all streams/parameters/modes.',
         note=TOK_NOTE),
    dict(id='C04', engine='E3-tokenizer', level='proof', design_ref='DESIGN.md 3.3.5, 4.4',
         technique='static analysis: per-step agreement of the interpreted code with a reference step function over the ghost state, under inferred inductive invariants (init_min<=1)',
         text='Proof that, for init_min <= 1, every step of the automaton produces the events of the reference greedy-segmentation step (frame kept, token start/end, open length, continuation) in every reachable abstract state.',
         note=TOK_NOTE + ' The 20-line reference step is the operational reading of C04 (by inspection; printed in the evidence).'),
]
_PENDING = 'check not built yet in this session (planned in DESIGN.md section 4); not claimed until its checker exists'
NOT_APPLICABLE = [dict(property_id='C%02d' % i, reason=_PENDING) for i in range(5, 21)]
NOTES = ('Technique family: static analysis only. Every check parses /repo/auditok/*.py on every run; nothing of auditok is imported or executed. '
         'Exit 0 pass / 1 VIOLATION / 2 ANALYSIS-ERROR or INCONCLUSIVE (never a silent pass). known_findings.json holds five fixed: entries (D1-D5).')
