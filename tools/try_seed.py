#!/usr/bin/env python3
"""Validate a seeded change produced by a sub-agent and score the checks against it.

usage: tools/try_seed.py <worktree dir> <variant letter> [--props C01,C02,...] [--keep <seed id>] [--breaks C02]
  1. confirms on a scratch git worktree of /repo: the diff applies, the test suite still gives 579 passed,
     the demo FAILS with the change and PASSES without it;
  2. applies the diff to /repo itself (git -C /repo apply), runs the registered quick checks, undoes it
     (git -C /repo checkout -- .) and prints which properties raise VIOLATION;
  3. with --keep, stores patch.diff / demo.py / meta.json under /verif/seeded/<seed id>/.
"""
import argparse, json, os, shutil, subprocess, sys, tempfile, time

VERIF = os.path.dirname(os.path.dirname(os.path.abspath(__file__)))
PY = '/venv/bin/python'


def sh(cmd, cwd=None, env=None, timeout=1800):
    p = subprocess.run(cmd, shell=True, cwd=cwd, env=env, stdout=subprocess.PIPE, stderr=subprocess.STDOUT, timeout=timeout)
    return p.returncode, p.stdout.decode(errors='replace')


def main():
    ap = argparse.ArgumentParser()
    ap.add_argument('dir')
    ap.add_argument('variant')
    ap.add_argument('--props', default=None)
    ap.add_argument('--keep', default=None)
    ap.add_argument('--breaks', default=None)
    ap.add_argument('--needs', default='')
    ap.add_argument('--skip-confirm', action='store_true')
    ap.add_argument('--history', default='detected by the checks as they were when the change arrived')
    a = ap.parse_args()
    diff = os.path.join(a.dir, 'variant%s.diff' % a.variant)
    demo = os.path.join(a.dir, 'demo%s.py' % a.variant)
    assert os.path.exists(diff) and os.path.exists(demo), (diff, demo)
    res = dict(diff=diff, demo=demo)
    if not a.skip_confirm:
        wt = tempfile.mkdtemp(prefix='seedwt.', dir='/var/tmp')
        os.rmdir(wt)
        rc, out = sh('git -C /repo worktree add -q --detach %s HEAD' % wt)
        assert rc == 0, out
        try:
            shutil.copy(demo, os.path.join(wt, 'demo.py'))
            # demos written by the agents hard-code their own worktree path on sys.path sometimes: neutralise
            src = open(os.path.join(wt, 'demo.py')).read().replace(os.path.abspath(a.dir), wt)
            open(os.path.join(wt, 'demo.py'), 'w').write(src)
            env = dict(os.environ, PYTHONPATH=wt)
            rc0, out0 = sh('%s demo.py' % PY, cwd=wt, env=env, timeout=600)
            res['demo_clean_exit'] = rc0
            rc, out = sh('git apply %s' % diff, cwd=wt)
            assert rc == 0, 'diff does not apply: ' + out
            rc1, out1 = sh('%s demo.py' % PY, cwd=wt, env=env, timeout=600)
            res['demo_changed_exit'] = rc1
            res['demo_changed_tail'] = out1.strip().splitlines()[-3:]
            rc, out = sh('%s -m pytest -q -p no:cacheprovider --timeout=900 --continue-on-collection-errors tests 2>&1 | tail -1' % PY, cwd=wt, env=env, timeout=1800)
            res['tests'] = out.strip()
            res['confirmed'] = (rc0 == 0 and rc1 != 0 and '579 passed' in out and '36 failed' in out)
        finally:
            sh('git -C /repo worktree remove --force %s' % wt)
        print('confirm:', json.dumps({k: res[k] for k in ('demo_clean_exit', 'demo_changed_exit', 'tests', 'confirmed')}))
    # run the checks against /repo with the change applied
    m = json.load(open(os.path.join(VERIF, 'MANIFEST.json')))
    props = [c['property_id'] for c in m['checks']]
    if a.props:
        props = [p for p in a.props.split(',')]
    rc, out = sh('git -C /repo status --porcelain')
    assert out.strip() == '', '/repo is not clean: ' + out
    rc, out = sh('git -C /repo apply %s' % diff)
    assert rc == 0, out
    fired = {}
    try:
        for p in props:
            env = dict(os.environ, VERIF_REPLAY_DIR='/var/tmp/verif-replay', VERIF_NO_EVIDENCE='1')
            rc, out = sh('./check %s --tier quick' % p, cwd=VERIF, env=env)
            lines = [l for l in out.splitlines() if l.startswith('auditok/') or l.startswith('loop head')][:3]
            if rc == 1 and 'VIOLATION property=' not in out:
                rc = 2
            fired[p] = dict(exit=rc, first=[l[:260] for l in lines])
    finally:
        sh('git -C /repo checkout -- .')
    res['checks'] = fired
    hit = [p for p, r in fired.items() if r['exit'] == 1]
    inc = [p for p, r in fired.items() if r['exit'] == 2]
    print('VIOLATION from:', hit, ' INCONCLUSIVE from:', inc)
    for p in hit[:4]:
        for l in fired[p]['first'][:2]:
            print('   ', p, l)
    if a.keep:
        d = os.path.join(VERIF, 'seeded', a.keep)
        os.makedirs(d, exist_ok=True)
        shutil.copy(diff, os.path.join(d, 'patch.diff'))
        src = open(demo).read().replace(os.path.abspath(a.dir), '/repo')
        open(os.path.join(d, 'demo.py'), 'w').write(src)
        notes = ''
        np_ = os.path.join(a.dir, 'NOTES.md')
        if os.path.exists(np_):
            notes = open(np_).read()
        meta = dict(id=a.keep, breaks=a.breaks, origin='independent sub-agent given only the property text and a scratch worktree', variant=a.variant,
                    needs_to_manifest=a.needs, confirmed=res.get('confirmed'), tests_with_change=res.get('tests'), demo_exit_clean=res.get('demo_clean_exit'),
                    demo_exit_changed=res.get('demo_changed_exit'),
                    what_was_run=['scratch worktree: git apply patch.diff; pytest (579 passed / 36 pre-existing failures); python demo.py fails; without the patch demo.py passes',
                                  'git -C /repo apply patch.diff; ./check <id> --tier quick for every registered check; git -C /repo checkout -- .'],
                    detected_by=hit, inconclusive=inc, history=a.history, first_reports={p: fired[p]['first'][:1] for p in hit}, agent_notes=notes)
        json.dump(meta, open(os.path.join(d, 'meta.json'), 'w'), indent=1)
        print('kept as', d)


if __name__ == '__main__':
    main()
