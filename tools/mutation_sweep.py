#!/usr/bin/env python3
"""Automatic mutation sweep used to look for GAPS in the checks (a development aid, not a registered check).

For every mutant of auditok/*.py produced by a small set of AST operators:
  1. the test suite is run on a scratch copy; only mutants that keep the 579 baseline tests green are interesting
     (that is the class of changes the properties are about);
  2. every registered check is run on the mutant (--repo scratch); the survivors that NO check reports are written to
     the output file for manual review: each is either an equivalent mutant or a gap in the rules.

usage: tools/mutation_sweep.py --files core.py,util.py --max 400 --jobs 16 --out /var/tmp/sweep.json [--seed 1]
"""
import argparse
import ast
import copy
import json
import os
import random
import shutil
import subprocess
import sys
import tempfile
from concurrent.futures import ThreadPoolExecutor

VERIF = os.path.dirname(os.path.dirname(os.path.abspath(__file__)))
REPO = '/repo'
PY = '/venv/bin/python'

CMP = {ast.Lt: [ast.LtE, ast.Gt], ast.LtE: [ast.Lt, ast.GtE], ast.Gt: [ast.GtE, ast.Lt], ast.GtE: [ast.Gt, ast.LtE], ast.Eq: [ast.NotEq], ast.NotEq: [ast.Eq],
       ast.Is: [ast.IsNot], ast.IsNot: [ast.Is], ast.In: [ast.NotIn], ast.NotIn: [ast.In]}
BIN = {ast.Add: [ast.Sub], ast.Sub: [ast.Add], ast.Mult: [ast.FloorDiv], ast.FloorDiv: [ast.Mult, ast.Div], ast.Div: [ast.FloorDiv, ast.Mult], ast.Mod: [ast.FloorDiv]}
NAMESWAP = {'int': ['round'], 'round': ['int'], 'floor': ['ceil'], 'ceil': ['floor'], 'min': ['max'], 'max': ['min']}


def mutants_of(src_bytes, fname):
    """mutants as (description, line, new source bytes): only the mutated node's own text is replaced, the rest of the file
    is byte-identical (line numbers stay valid, diffs are one hunk)"""
    tree = ast.parse(src_bytes)
    lines = src_bytes.split(b'\n')
    starts = [0]
    for ln in lines:
        starts.append(starts[-1] + len(ln) + 1)

    def span(n):
        return starts[n.lineno - 1] + n.col_offset, starts[n.end_lineno - 1] + n.end_col_offset

    res = []

    def emit(desc, node, new_text, expr=True):
        a, b = span(node)
        txt = ('(' + new_text + ')') if expr else new_text
        res.append(dict(file=fname, line=node.lineno, desc=desc, src=src_bytes[:a] + txt.encode() + src_bytes[b:]))

    def variant(n, fn):
        n2 = copy.deepcopy(n)
        fn(n2)
        return ast.unparse(n2)
    in_docstring = set()
    for n in ast.walk(tree):
        if isinstance(n, (ast.FunctionDef, ast.ClassDef, ast.Module)) and n.body and isinstance(n.body[0], ast.Expr) and isinstance(n.body[0].value, ast.Constant):
            in_docstring.add(id(n.body[0]))
    for n in ast.walk(tree):
        if isinstance(n, ast.Compare):
            for j, op in enumerate(n.ops):
                for alt in CMP.get(type(op), []):
                    emit('cmp %s->%s' % (type(op).__name__, alt.__name__), n, variant(n, lambda m, j=j, alt=alt: m.ops.__setitem__(j, alt())))
        elif isinstance(n, ast.BinOp) and type(n.op) in BIN and not (isinstance(n.op, ast.Mod) and isinstance(n.left, ast.Constant) and isinstance(n.left.value, str)):
            for alt in BIN[type(n.op)]:
                emit('binop %s->%s' % (type(n.op).__name__, alt.__name__), n, variant(n, lambda m, alt=alt: setattr(m, 'op', alt())))
        elif isinstance(n, ast.BoolOp):
            alt = ast.Or if isinstance(n.op, ast.And) else ast.And
            emit('boolop %s->%s' % (type(n.op).__name__, alt.__name__), n, variant(n, lambda m, alt=alt: setattr(m, 'op', alt())))
        elif isinstance(n, ast.UnaryOp) and isinstance(n.op, ast.Not):
            emit('drop not', n, ast.unparse(n.operand))
        elif isinstance(n, ast.UnaryOp) and isinstance(n.op, ast.USub) and not isinstance(n.operand, ast.Constant):
            emit('drop unary minus', n, ast.unparse(n.operand))
        elif isinstance(n, ast.Constant) and isinstance(n.value, bool):
            emit('bool const flip', n, repr(not n.value))
        elif isinstance(n, ast.Constant) and isinstance(n.value, int) and not isinstance(n.value, bool) and -3 <= n.value <= 4000000:
            for alt in sorted({n.value + 1, n.value - 1}):
                emit('int const %d->%d' % (n.value, alt), n, repr(alt))
        elif isinstance(n, ast.Call) and isinstance(n.func, (ast.Name, ast.Attribute)):
            nm = n.func.id if isinstance(n.func, ast.Name) else n.func.attr
            for alt in NAMESWAP.get(nm, []):
                def ren(m, alt=alt):
                    if isinstance(m.func, ast.Name):
                        m.func.id = alt
                    else:
                        m.func.attr = alt
                emit('call %s->%s' % (nm, alt), n, variant(n, ren))
            if len(n.args) >= 2 and not any(isinstance(a, ast.Starred) for a in n.args):
                def sw(m):
                    m.args[0], m.args[1] = m.args[1], m.args[0]
                emit('swap args 0,1 of %s' % nm, n, variant(n, sw))
        elif isinstance(n, (ast.Assign, ast.AugAssign, ast.Expr)) and id(n) not in in_docstring and not (isinstance(n, ast.Expr) and isinstance(n.value, ast.Constant)):
            emit('delete stmt %s' % ast.unparse(n)[:50].replace('\n', ' '), n, 'pass', expr=False)
        elif isinstance(n, ast.Return) and n.value is not None and not (isinstance(n.value, ast.Constant) and n.value.value is None):
            emit('return None instead of %s' % ast.unparse(n.value)[:40].replace('\n', ' '), n.value, 'None')
        elif isinstance(n, (ast.Break, ast.Continue)):
            emit('%s -> pass' % type(n).__name__, n, 'pass', expr=False)
        elif isinstance(n, ast.If) and not n.orelse and len(n.body) == 1 and isinstance(n.body[0], (ast.Raise,)):
            emit('drop guard: if %s: raise' % ast.unparse(n.test)[:50].replace('\n', ' '), n, 'pass', expr=False)
    if os.environ.get('SWEEP_OPS2'):
        res = []            # second operator set only
        SIB = [('sr', 'sw', 'ch'), ('sampling_rate', 'sample_width', 'channels'), ('_sampling_rate', '_sample_width', '_channels')]
        PAIRS = [('start', 'end'), ('onset', 'offset'), ('min_length', 'max_length'), ('min_dur', 'max_dur'), ('skip', 'max_read'), ('block_dur', 'hop_dur'), ('block_size', 'hop_size'),
                 ('start_sample', 'stop_sample'), ('start_s', 'stop_s'), ('start_ms', 'stop_ms'), ('_start_frame', '_current_frame'), ('first', 'last')]
        for n in ast.walk(tree):
            if isinstance(n, ast.If):
                emit('negate if-test %s' % ast.unparse(n.test)[:40].replace('\n', ' '), n.test, 'not (%s)' % ast.unparse(n.test))
                if n.orelse and not (len(n.orelse) == 1 and isinstance(n.orelse[0], ast.If)):
                    a, _ = span(n.orelse[0])
                    _, b = span(n.orelse[-1])
                    res.append(dict(file=fname, line=n.orelse[0].lineno, desc='empty else-branch of if %s' % ast.unparse(n.test)[:40].replace('\n', ' '), src=src_bytes[:a] + b'pass' + src_bytes[b:]))
            if isinstance(n, ast.Attribute):
                for fam in SIB:
                    if n.attr in fam:
                        for alt in fam:
                            if alt != n.attr:
                                emit('attribute %s->%s' % (n.attr, alt), n, ast.unparse(n.value) + '.' + alt)
            if isinstance(n, ast.Name) and isinstance(n.ctx, ast.Load):
                for fam in SIB:
                    if n.id in fam:
                        for alt in fam:
                            if alt != n.id:
                                emit('name %s->%s' % (n.id, alt), n, alt)
                for a_, b_ in PAIRS:
                    if n.id in (a_, b_):
                        emit('name %s->%s' % (n.id, b_ if n.id == a_ else a_), n, b_ if n.id == a_ else a_)
            if isinstance(n, ast.Attribute) and isinstance(n.ctx, ast.Load):
                for a_, b_ in PAIRS:
                    if n.attr in (a_, b_):
                        emit('attribute %s->%s' % (n.attr, b_ if n.attr == a_ else a_), n, ast.unparse(n.value) + '.' + (b_ if n.attr == a_ else a_))
            if isinstance(n, ast.Subscript) and isinstance(n.slice, ast.Slice) and isinstance(n.ctx, ast.Load):
                sl = n.slice
                if sl.lower is not None:
                    emit('slice drops lower bound', n, '%s[:%s]' % (ast.unparse(n.value), ast.unparse(sl.upper) if sl.upper is not None else ''))
                if sl.upper is not None:
                    emit('slice drops upper bound', n, '%s[%s:]' % (ast.unparse(n.value), ast.unparse(sl.lower) if sl.lower is not None else ''))
            if isinstance(n, ast.Compare) and len(n.ops) == 1 and isinstance(n.comparators[0], ast.Constant) and n.comparators[0].value is None:
                if isinstance(n.ops[0], ast.Is):
                    emit('is None -> falsy', n, 'not %s' % ast.unparse(n.left))
                elif isinstance(n.ops[0], ast.IsNot):
                    emit('is not None -> truthy', n, 'bool(%s)' % ast.unparse(n.left))
            for fld in ('body', 'orelse', 'finalbody'):
                blk = getattr(n, fld, None)
                if isinstance(blk, list) and len(blk) >= 2 and all(isinstance(x, ast.stmt) for x in blk):
                    for i_ in range(len(blk) - 1):
                        x, y = blk[i_], blk[i_ + 1]
                        if isinstance(x, (ast.Assign, ast.AugAssign, ast.Expr)) and isinstance(y, (ast.Assign, ast.AugAssign, ast.Expr)) and id(x) not in in_docstring and x.col_offset == y.col_offset:
                            ax, bx = span(x)
                            ay, by = span(y)
                            res.append(dict(file=fname, line=x.lineno, desc='swap statements %s <-> %s' % (ast.unparse(x)[:30].replace('\n', ' '), ast.unparse(y)[:30].replace('\n', ' ')),
                                            src=src_bytes[:ax] + src_bytes[ay:by] + src_bytes[bx:ay] + src_bytes[ax:bx] + src_bytes[by:]))
    excl = os.environ.get('SWEEP_EXCLUDE')
    if excl:
        import re as _re
        rx = _re.compile(excl)
        spans = [(x.lineno, x.end_lineno, x.name) for x in ast.walk(tree) if isinstance(x, (ast.FunctionDef, ast.ClassDef))]
        def excluded(line):
            return any(a <= line <= b and rx.search(nm) for a, b, nm in spans)
        res = [m for m in res if not excluded(m['line'])]
    ok = []
    for m in res:
        try:
            ast.parse(m['src'])
            ok.append(m)
        except SyntaxError:
            pass
    return ok


def run_one(m, checks, tmproot):
    tmp = tempfile.mkdtemp(prefix='mut.', dir=tmproot)
    try:
        shutil.copytree(os.path.join(REPO, 'auditok'), os.path.join(tmp, 'auditok'))
        shutil.copytree(os.path.join(REPO, 'tests'), os.path.join(tmp, 'tests'))
        os.makedirs(os.path.join(tmp, 'doc'), exist_ok=True)
        shutil.copy(os.path.join(REPO, 'doc', 'command_line_usage.rst'), os.path.join(tmp, 'doc'))
        with open(os.path.join(tmp, 'auditok', m['file']), 'wb') as fp:
            fp.write(m['src'])
        env = dict(os.environ, PYTHONPATH=tmp, PYTHONDONTWRITEBYTECODE='1')
        try:
            pr = subprocess.run([PY, '-m', 'pytest', '-q', '-p', 'no:cacheprovider', '--timeout=20', '--maxfail=37', 'tests'],
                                cwd=tmp, env=env, stdout=subprocess.PIPE, stderr=subprocess.STDOUT, timeout=300)
            tail = pr.stdout.decode(errors='replace').strip().splitlines()[-1:] or ['']
        except subprocess.TimeoutExpired:
            return dict(file=m['file'], line=m['line'], desc=m['desc'], tests='timeout', survived=False)
        survived = tail[0].startswith('36 failed, 579 passed')
        res = dict(file=m['file'], line=m['line'], desc=m['desc'], tests=tail[0][:80], survived=survived)
        if not survived:
            return res
        fired = []
        inconclusive = []
        for c in checks:
            pr = subprocess.run([os.path.join(VERIF, 'check'), c, '--repo', tmp], stdout=subprocess.PIPE, stderr=subprocess.STDOUT,
                                env=dict(os.environ, VERIF_REPLAY_DIR=os.path.join(tmp, 'replay')))
            if pr.returncode == 1 and b'VIOLATION property=' in pr.stdout:
                fired.append(c)
            elif pr.returncode != 0:
                inconclusive.append(c)
        res.update(fired=fired, inconclusive=inconclusive)
        if not fired:
            # keep a small diff for review
            d = subprocess.run(['diff', '-u', os.path.join(REPO, 'auditok', m['file']), os.path.join(tmp, 'auditok', m['file'])], stdout=subprocess.PIPE).stdout.decode(errors='replace')
            res['diff'] = '\n'.join(l for l in d.splitlines()[2:] if l.startswith(('+', '-')))[:1500]
        return res
    finally:
        shutil.rmtree(tmp, ignore_errors=True)


def main():
    ap = argparse.ArgumentParser()
    ap.add_argument('--files', default='core.py,util.py,io.py,workers.py,cmdline_util.py,signal.py')
    ap.add_argument('--max', type=int, default=300)
    ap.add_argument('--jobs', type=int, default=14)
    ap.add_argument('--seed', type=int, default=1)
    ap.add_argument('--out', default='/var/tmp/sweep.json')
    ap.add_argument('--lines', default=None, help='restrict to line range a-b of the (single) file')
    a = ap.parse_args()
    checks = ['C%02d' % i for i in range(1, 21)]
    ms = []
    for f in a.files.split(','):
        src = open(os.path.join(REPO, 'auditok', f), 'rb').read()
        ms += mutants_of(src, f)
    if a.lines:
        lo, hi = map(int, a.lines.split('-'))
        ms = [m for m in ms if lo <= m['line'] <= hi]
    rnd = random.Random(a.seed)
    rnd.shuffle(ms)
    ms = ms[:a.max]
    # the baseline tail with the same deselection (must be all-pass)
    print('%d mutants' % len(ms), flush=True)
    tmproot = tempfile.mkdtemp(prefix='sweep.', dir='/var/tmp')
    try:
        with ThreadPoolExecutor(max_workers=a.jobs) as ex:
            res = list(ex.map(lambda m: run_one(m, checks, tmproot), ms))
    finally:
        shutil.rmtree(tmproot, ignore_errors=True)
    surv = [r for r in res if r.get('survived')]
    undet = [r for r in surv if not r.get('fired')]
    print('mutants %d, survived the tests %d, reported by a check %d, NOT reported %d (of which inconclusive %d)' % (
        len(res), len(surv), len(surv) - len(undet), len(undet), sum(1 for r in undet if r.get('inconclusive'))))
    with open(a.out, 'w') as fp:
        json.dump(dict(total=len(res), survived=len(surv), undetected=undet, detected=[dict(file=r['file'], line=r['line'], desc=r['desc'], fired=r['fired']) for r in surv if r.get('fired')]), fp, indent=1)


if __name__ == '__main__':
    main()
