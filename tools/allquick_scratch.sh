#!/bin/bash
# run every quick check against a scratch copy (default /var/tmp/clean) without touching the evidence files
cd /verif
R=${3:-/var/tmp/clean}
for j in $(seq ${1:-1} ${2:-20}); do i=$(printf "%02d" $j); out=$(VERIF_NO_EVIDENCE=1 /venv/bin/python -B -m sa.main C$i --repo $R 2>&1); rc=$?; echo "C$i exit=$rc $(echo "$out" | tail -1)"; if [ $rc -ne 0 ]; then echo "$out" | grep -E "INCONCLUSIVE|VIOLATION|ANALYSIS|Error|^auditok" | head -5; fi; done
