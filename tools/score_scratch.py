import sys, os, json
sys.path.insert(0, '/verif')
from sa.selftest import run_variant
from sa.common import DEFAULT_REPO
ALL = ['C%02d' % i for i in range(1, 21)]
d = sys.argv[1]
for v in ('A', 'B'):
    p = os.path.join(d, 'variant%s.diff' % v)
    if not os.path.exists(p):
        print(d, v, 'missing'); continue
    r = run_variant(dict(id=os.path.basename(d) + v, kind='fires', props=ALL, edits=[], patch=p, what=''), DEFAULT_REPO)
    if r['status'] == 'STALE':
        print(d, v, 'STALE', r.get('detail')); continue
    ex1 = [k for k, dd in r['detail'].items() if dd['exit'] == 1]
    ex2 = {k: dd['tail'][:1] for k, dd in r['detail'].items() if dd['exit'] == 2}
    first = {k: r['detail'][k]['tail'][:1] for k in ex1}
    print(os.path.basename(d), v, 'VIOLATION from', ex1, '| exit2:', list(ex2))
    for k in ex1: print('     ', k, str(first[k])[:260])
    for k in ex2: print('      (inconclusive)', k, str(ex2[k])[:260])
