#!/usr/bin/env python3
"""Re-score kept seeded changes against the current checks on scratch copies (never touches /repo) and refresh
detected_by / inconclusive / first_reports in their meta.json.  usage: tools/rescore_seeds.py <id-prefix> [--jobs N]"""
import json, os, sys
sys.path.insert(0, os.path.dirname(os.path.dirname(os.path.abspath(__file__))))
from concurrent.futures import ThreadPoolExecutor
from sa.selftest import run_variant
from sa.common import DEFAULT_REPO, VERIF

ALL = ['C%02d' % i for i in range(1, 21)]


def main():
    pref = sys.argv[1]
    jobs = int(sys.argv[sys.argv.index('--jobs') + 1]) if '--jobs' in sys.argv else 6
    root = os.path.join(VERIF, 'seeded')
    ids = [d for d in sorted(os.listdir(root)) if d.startswith(pref)]
    vs = [dict(id=d, kind='fires', props=ALL, edits=[], patch=os.path.join(root, d, 'patch.diff'), what='') for d in ids]
    with ThreadPoolExecutor(max_workers=jobs) as ex:
        res = list(ex.map(lambda v: run_variant(v, DEFAULT_REPO), vs))
    for d, r in zip(ids, res):
        if r['status'] == 'STALE':
            print(d, 'STALE', r.get('detail'))
            continue
        hit = [p for p, dd in r['detail'].items() if dd['exit'] == 1]
        inc = [p for p, dd in r['detail'].items() if dd['exit'] == 2]
        mp = os.path.join(root, d, 'meta.json')
        m = json.load(open(mp))
        m['detected_by'], m['inconclusive'] = hit, inc
        m['first_reports'] = {p: [l for l in r['detail'][p]['tail'] if not l.startswith(('VIOLATION', 'INFO'))][:1] for p in hit}
        json.dump(m, open(mp, 'w'), indent=1)
        print(d, 'VIOLATION from', hit, '| inconclusive', inc)


if __name__ == '__main__':
    main()
