#!/usr/bin/env python3
"""Run every registered check against behaviour-preserving refactorings (refactor<k>.diff in a directory): a check that
exits 1 on one of them raised a FALSE ALARM; exit 2 (inconclusive) is tolerated but listed.
usage: tools/try_refactor.py <dir> [--keep]   (with --keep the diffs are copied to /verif/refactorings/<name>-<k>.diff and enter the matrix)"""
import glob, json, os, shutil, sys
sys.path.insert(0, os.path.dirname(os.path.dirname(os.path.abspath(__file__))))
from concurrent.futures import ThreadPoolExecutor
from sa.selftest import run_variant
from sa.common import DEFAULT_REPO

ALL = ['C%02d' % i for i in range(1, 21)]


def main():
    d = sys.argv[1]
    keep = '--keep' in sys.argv
    diffs = sorted(glob.glob(os.path.join(d, 'refactor*.diff')))
    vs = [dict(id=os.path.basename(d.rstrip('/')) + ':' + os.path.basename(p)[:-5], kind='silent', props=ALL, edits=[], patch=p, what='') for p in diffs]
    with ThreadPoolExecutor(max_workers=4) as ex:
        res = list(ex.map(lambda v: run_variant(v, DEFAULT_REPO), vs))
    for v, r in zip(vs, res):
        if r['status'] == 'STALE':
            print(r['id'], 'STALE', r.get('detail'))
            continue
        ex1 = {p: dd['tail'][:2] for p, dd in r['detail'].items() if dd['exit'] == 1}
        ex2 = {p: dd['tail'][:1] for p, dd in r['detail'].items() if dd['exit'] == 2}
        print(r['id'], 'FALSE-ALARM' if ex1 else ('inconclusive' if ex2 else 'silent'), json.dumps(ex1)[:900] if ex1 else '', ('| exit2: ' + json.dumps(ex2)[:400]) if ex2 else '')
        if keep and not ex1:
            os.makedirs('/verif/refactorings', exist_ok=True)
            shutil.copy(v['patch'], '/verif/refactorings/%s.diff' % r['id'].replace(':', '-'))


if __name__ == '__main__':
    main()
