#!/usr/bin/env python3
"""regenerates MANIFEST.json from the table below (keeps it valid while checks are being added)"""
import json, os, sys
HERE = os.path.dirname(os.path.dirname(os.path.abspath(__file__)))
sys.path.insert(0, HERE)
from tools.manifest_table import CHECKS, NOT_APPLICABLE, ENGINES, NOTES

def main():
    checks = []
    for c in CHECKS:
        pid = c['id']
        checks.append(dict(
            property_id=pid,
            quick_cmd='./check %s --tier quick' % pid,
            thorough_cmd='./check %s --tier thorough' % pid,
            evidence_file='/verif/evidence/%s.json' % pid,
            replay_cmd_template='./check %s --explain {path}' % pid,
            engine=c['engine'],
            level_claimed=dict(category=c['level'], text=c['text'], design_ref=c['design_ref']),
            level_note=c['note'],
            technique=c['technique'],
        ))
    m = dict(
        version=1,
        setup_cmd='./check --help >/dev/null 2>&1; /venv/bin/python -B -c "import ast, sys; sys.path.insert(0, \'/verif\'); import sa.main" || python3 -B -c "import sys; sys.path.insert(0, \'/verif\'); import sa.main"',
        hooks=dict(guard='AUDITOK_VERIF', enable='none needed: static analysis parses /repo/auditok/*.py, no instrumentation exists',
                   baseline_off_cmd='cd /repo && /venv/bin/python -m pytest -ra -q -p no:cacheprovider --timeout=900 --continue-on-collection-errors',
                   source_commits=[], add_only=True),
        engines=ENGINES,
        checks=checks,
        notes=NOTES,
        not_applicable=NOT_APPLICABLE,
    )
    with open(os.path.join(HERE, 'MANIFEST.json'), 'w') as fp:
        json.dump(m, fp, indent=1)
    try:
        import jsonschema
        jsonschema.validate(m, json.load(open('/root/.vp/MANIFEST.schema.json')))
        print('MANIFEST.json valid: %d checks, %d not_applicable' % (len(checks), len(NOT_APPLICABLE)))
    except ImportError:
        print('MANIFEST.json written (jsonschema not importable here)')

if __name__ == '__main__':
    main()
