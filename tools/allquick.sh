#!/bin/bash
# run every quick check against /repo and print one line per property with the exit code
cd /verif
for j in $(seq ${1:-1} ${2:-20}); do i=$(printf "%02d" $j); out=$(./check C$i 2>&1); rc=$?; echo "C$i exit=$rc $(echo "$out" | tail -1)"; if [ $rc -ne 0 ]; then echo "$out" | grep -E "INCONCLUSIVE|VIOLATION|ANALYSIS" | head -5; fi; done
