#!/usr/bin/env python3
"""rewrites the seeded-changes table of DESIGN.md (between the markers) from /verif/seeded/*/meta.json"""
import json, os, re
HERE = os.path.dirname(os.path.dirname(os.path.abspath(__file__)))
rows = []
missed = 0
for d in sorted(os.listdir(os.path.join(HERE, 'seeded'))):
    m = json.load(open(os.path.join(HERE, 'seeded', d, 'meta.json')))
    h = m.get('history') or ''
    tag = 'as built'
    if 'MISSED' in h or h.startswith('not reported at arrival'):
        tag = '**missed at first**: ' + h.split(';', 1)[-1].strip()[:150]
        missed += 1
    elif 'INCONCLUSIVE' in h or 'first version' in h:
        tag = 'refined after it arrived'
    elif 'not by the' in h:
        tag = h[:120]
    rows.append('| `%s` | %s | %s | %s | %s |' % (d, m.get('breaks'), (m.get('needs_to_manifest', '') or '')[:130].replace('|', '/'), ', '.join(m.get('detected_by') or []) or 'none', tag.replace('|', '/')))
table = '| change | breaks | needs, to manifest | reported by | note |\n|---|---|---|---|---|\n' + '\n'.join(rows)
p = os.path.join(HERE, 'DESIGN.md')
s = open(p).read()
a, b = '<!-- SEEDS-BEGIN -->', '<!-- SEEDS-END -->'
if a in s:
    s = s[:s.index(a) + len(a)] + '\n' + table + '\n' + s[s.index(b):]
else:
    # first time: replace the old table
    i = s.index('| change | breaks | needs, to manifest | reported by | note |')
    j = s.index('\n\nWhat the misses taught')
    s = s[:i] + a + '\n' + table + '\n' + b + s[j:]
open(p, 'w').write(s)
print('%d seeded changes, %d missed at first' % (len(rows), missed))
