"""E3 -- syntax-directed abstract interpreter for the tokenizer class (DESIGN 3.3, Appendix A).

Interprets methods of ONE class over abstract values:
  ('lin', expr)      integer, linear expression over symbols (sa.linear)
  ('bool', b)        concrete boolean
  ('sbool', name)    unknown boolean, split on demand (the choice is remembered in Path.sb)
  ('none',)          None
  ('frame', tag)     the frame read in this iteration ('cur') -- opaque payload
  ('list', id)       heap list with abstract {len, P0, V1, taint}
  ('tuple', [v..])   tuple / literal list of values
  ('validator',)     the validity oracle (or an attribute of it)
  ('source',)        the data source parameter
  ('method', name)   bound method of the analysed class
  ('opaque', text)   anything else (never decides a branch: a branch on it marks the path imprecise)

A Path carries the constraint set, locals, fields, heap, ghost variables and the ordered
event list.  Every evaluation returns a *list* of (path, value) because any expression may
split the path (conditions in value position, min/max, truthiness of a list ...).
"""
import ast
import itertools

from .linear import (C, V, add, scale, le, lt, ge, gt, eq, neg, feasible, entails, is_const,
                     cval, variables)


def hoist_walrus(fn):
    """`if (x := e) ...:` and `while (x := e) ...:` with the assignment expression evaluated unconditionally at the start of the test
    become `x = e` followed by the test on x (for `while`: `while True: x = e; if not test: break; ...`): same evaluation order,
    and the interpreter sees the read / the call as a statement of its own.  Returns a rewritten copy (or fn itself)."""
    import copy

    def first_walrus(test):
        # the NamedExpr reached first by left-to-right evaluation without passing a short-circuit or conditional
        n = test
        while True:
            if isinstance(n, ast.NamedExpr) and isinstance(n.target, ast.Name):
                return n
            if isinstance(n, ast.Compare):
                n = n.left
            elif isinstance(n, ast.UnaryOp):
                n = n.operand
            elif isinstance(n, ast.BoolOp):
                n = n.values[0]
            else:
                return None
    if not any(isinstance(x, ast.NamedExpr) for x in ast.walk(fn)):
        return fn

    class R(ast.NodeTransformer):
        def visit_FunctionDef(self, n):
            if n is not root:
                return n
            return self.generic_visit(n)

        def _split(self, node):
            w = first_walrus(node.test)
            if w is None or any(isinstance(x, ast.NamedExpr) for x in ast.walk(w.value)):
                return None
            assign = ast.copy_location(ast.Assign(targets=[ast.Name(id=w.target.id, ctx=ast.Store())], value=w.value), node)

            class Sub(ast.NodeTransformer):
                def visit_NamedExpr(self, m):
                    if m is w:
                        return ast.copy_location(ast.Name(id=w.target.id, ctx=ast.Load()), m)
                    return self.generic_visit(m)
            new_test = Sub().visit(node.test)
            return assign, new_test

        def visit_If(self, n):
            n = self.generic_visit(n)
            r = self._split(n)
            if r is None:
                return n
            assign, test = r
            n2 = ast.copy_location(ast.If(test=test, body=n.body, orelse=n.orelse), n)
            return [assign, n2]

        def visit_While(self, n):
            n = self.generic_visit(n)
            if n.orelse:
                return n
            r = self._split(n)
            if r is None:
                return n
            assign, test = r
            guard = ast.copy_location(ast.If(test=ast.UnaryOp(op=ast.Not(), operand=test), body=[ast.copy_location(ast.Break(), n)], orelse=[]), n)
            return ast.copy_location(ast.While(test=ast.Constant(value=True), body=[assign, guard] + n.body, orelse=[]), n)
    root = copy.deepcopy(fn)
    out = R().visit(root)
    ast.fix_missing_locations(out)
    return out


class Unsupported(Exception):
    """construct outside the modelled subset on a relevant path -> INCONCLUSIVE (exit 2)"""


LIN = lambda e: ('lin', e)
NONE = ('none',)
MAX_DEPTH = 8
MAX_LEAVES = 4000


class Path:
    __slots__ = ('cons', 'locs', 'flds', 'heap', 'events', 'conds', 'gh', 'imprecise', 'valid', 'inp',
                 'sb', 'known', 'tainted', 'nid', 'depth', 'reads', 'appended', 'fld_written')

    def __init__(s):
        s.cons = []
        s.locs = {}
        s.flds = {}
        s.heap = {}
        s.events = []
        s.conds = []
        s.gh = {}
        s.imprecise = None
        s.valid = None
        s.inp = None
        s.sb = {}
        s.known = {}
        s.tainted = frozenset()
        s.nid = [1000]
        s.depth = 0
        s.reads = 0
        s.appended = 0
        s.fld_written = frozenset()

    def clone(s):
        p = Path()
        p.cons = list(s.cons)
        p.locs = dict(s.locs)
        p.flds = dict(s.flds)
        p.heap = {k: dict(v) for k, v in s.heap.items()}
        p.events = list(s.events)
        p.conds = list(s.conds)
        p.gh = dict(s.gh)
        p.imprecise = s.imprecise
        p.valid = s.valid
        p.inp = s.inp
        p.sb = dict(s.sb)
        p.known = dict(s.known)
        p.tainted = s.tainted
        p.nid = s.nid
        p.depth = s.depth
        p.reads = s.reads
        p.appended = s.appended
        p.fld_written = s.fld_written
        return p

    def newlist(s, length, P0=None, V1=True, taint=False):
        s.nid[0] += 1
        i = s.nid[0]
        s.heap[i] = dict(len=length, P0=P0, V1=V1, taint=taint)
        return ('list', i)

    def assume(s, cs):
        for c in cs:
            s.cons.append(c)
            e, op = c
            if op == '==':
                vs = variables(e)
                if len(vs) == 1 and abs(e[vs[0]]) == 1:
                    s.known[vs[0]] = -cval(e) * e[vs[0]]

    def mark_imprecise(s, why):
        if s.imprecise is None:
            s.imprecise = why


def _name_of_exc(node):
    if node is None:
        return '?'
    if isinstance(node, ast.Call):
        node = node.func
    if isinstance(node, ast.Name):
        return node.id
    if isinstance(node, ast.Attribute):
        return node.attr
    return ast.unparse(node)


class Interp:
    def __init__(s, cls, filename='?', model=None, mod='core'):
        s.cls = cls
        s.filename = filename
        s.model = model                 # whole-package model (sa/symex.Model): base classes, module constants, helper functions
        s.mod = getattr(cls, '_home', mod)
        s.cur_mod = s.mod               # module of the code being interpreted (changes while a moved helper is inlined)
        chain = [(s.mod, cls)]
        if model is not None:
            try:
                chain = list(model.mro(s.mod, cls))
            except ValueError:
                chain = [(s.mod, cls)]
        s.mro_classes = [c for _m, c in chain]
        s.methods, s.method_home = {}, {}
        for m_, c in reversed(chain):            # a private base class / mixin contributes the methods the class does not override
            for n in c.body:
                if isinstance(n, ast.FunctionDef):
                    s.methods[n.name] = hoist_walrus(n)
                    s.method_home[n.name] = m_
        s.consts = {}
        s.class_tables = {}
        for m_, c in reversed(chain):
            for n in c.body:
                if isinstance(n, ast.Assign) and len(n.targets) == 1 and isinstance(n.targets[0], ast.Name):
                    try:
                        if isinstance(n.value, (ast.Tuple, ast.List)):
                            s.class_tables[n.targets[0].id] = [s.fold(e, m_, c) for e in n.value.elts]
                        else:
                            s.consts[n.targets[0].id] = s.fold(n.value, m_, c)
                    except ValueError:
                        pass
        s.fresh = itertools.count()
        s.nleaves = 0
        s.frame_list_field = None     # set by the driver once roles are known

    # ------------------------------------------------------------------ constants and names of the package
    def enum_members(s, cnode):
        """member name -> int value of an Enum / IntEnum / IntFlag class of the package with literal int members (else None)"""
        if not any((isinstance(b, ast.Name) and b.id in ('Enum', 'IntEnum', 'IntFlag', 'Flag')) or (isinstance(b, ast.Attribute) and b.attr in ('Enum', 'IntEnum', 'IntFlag', 'Flag')) for b in cnode.bases):
            return None
        out = {}
        symbolic = []
        for n in cnode.body:
            if isinstance(n, ast.Assign) and len(n.targets) == 1 and isinstance(n.targets[0], ast.Name):
                if isinstance(n.value, ast.Constant) and isinstance(n.value.value, int) and not isinstance(n.value.value, bool):
                    out[n.targets[0].id] = n.value.value
                elif (isinstance(n.value, ast.Call) and not n.value.args and ((isinstance(n.value.func, ast.Name) and n.value.func.id == 'auto') or (isinstance(n.value.func, ast.Attribute) and n.value.func.attr == 'auto'))) \
                        or (isinstance(n.value, ast.Constant) and isinstance(n.value.value, str)):
                    symbolic.append(n.targets[0].id)          # auto() / a label: only the identity of the member matters
                else:
                    return None
        if symbolic:
            if out or any((isinstance(b, ast.Name) and b.id in ('str', 'int', 'IntEnum', 'IntFlag', 'StrEnum')) for b in cnode.bases):
                return None                    # mixed, or members that are also values of another type: not modelled
            out = {nm: 1000 + i for i, nm in enumerate(symbolic)}      # distinct tokens; members are only ever compared with each other
        vals = list(out.values())
        return out if out and len(set(vals)) == len(vals) else None

    def glob(s, mod, name, depth=0):
        """what a free name means in module `mod` of the package: ('int', v) | ('table', [v..]) | ('enum', {member: v}) |
        ('func', mod, node) | ('module', mod) | None (not a package-level thing the interpreter models)"""
        if s.model is None or mod not in s.model.mods or depth > 4:
            return None
        d = s.model.mods[mod]
        if name in d['imports'] and d['imports'][name][0] == 'mod' and d['imports'][name][1] in s.model.mods:
            return ('module', d['imports'][name][1])
        g = s.model.resolve_global(mod, name)
        lk = s.model.lookup(g)
        if not lk:
            return None
        if lk[0] == 'func':
            return ('func', g[1], lk[1])
        if lk[0] == 'class':
            em = s.enum_members(lk[1])
            return ('enum', em) if em else ('pkgclass', g[1], lk[1])
        if lk[0] == 'const' and not s.model.reassigned(g[1], g[2]):
            v = lk[1]
            try:
                if isinstance(v, (ast.Tuple, ast.List)):
                    return ('table', [s.fold(e, g[1], None, depth + 1) for e in v.elts])
                return ('int', s.fold(v, g[1], None, depth + 1))
            except ValueError:
                if isinstance(v, ast.Name):
                    return s.glob(g[1], v.id, depth + 1)
                if isinstance(v, ast.Attribute) and isinstance(v.value, ast.Name):
                    b = s.glob(g[1], v.value.id, depth + 1)
                    if b and b[0] == 'module':
                        return s.glob(b[1], v.attr, depth + 1)
        return None

    def fold(s, node, mod, cls=None, depth=0):
        """int value of a constant expression over literals, class constants and module constants of the package"""
        if depth > 6:
            raise ValueError
        if isinstance(node, ast.Constant) and isinstance(node.value, int) and not isinstance(node.value, bool):
            return node.value
        if isinstance(node, ast.Name):
            if node.id in s.consts:
                return s.consts[node.id]
            g = s.glob(mod, node.id, depth + 1)
            if g and g[0] == 'int':
                return g[1]
            raise ValueError
        if isinstance(node, ast.Attribute):
            if node.attr == 'value' and isinstance(node.value, ast.Attribute):
                return s.fold(node.value, mod, cls, depth + 1)            # <Enum>.<member>.value
            if isinstance(node.value, ast.Name):
                if node.value.id in [c.name for c in s.mro_classes] and node.attr in s.consts:
                    return s.consts[node.attr]
                g = s.glob(mod, node.value.id, depth + 1)
                if g and g[0] == 'module':
                    g2 = s.glob(g[1], node.attr, depth + 1)
                    if g2 and g2[0] == 'int':
                        return g2[1]
                if g and g[0] == 'enum' and node.attr in g[1]:
                    return g[1][node.attr]
            raise ValueError
        if isinstance(node, ast.UnaryOp) and isinstance(node.op, ast.USub):
            return -s.fold(node.operand, mod, cls, depth + 1)
        if isinstance(node, ast.BinOp):
            a, b = s.fold(node.left, mod, cls, depth + 1), s.fold(node.right, mod, cls, depth + 1)
            ops = {ast.BitOr: lambda: a | b, ast.BitAnd: lambda: a & b, ast.Add: lambda: a + b, ast.Sub: lambda: a - b, ast.Mult: lambda: a * b}
            if type(node.op) in ops:
                return ops[type(node.op)]()
        raise ValueError

    def glob_value(s, g):
        if g is None:
            return None
        if g[0] == 'int':
            return LIN(C(g[1]))
        if g[0] == 'table':
            return ('tuple', [LIN(C(v)) for v in g[1]])
        if g[0] == 'enum':
            return ('enumcls', g[1])
        if g[0] == 'func':
            return ('pkgfunc', g[1], g[2])
        if g[0] == 'module':
            return ('module', g[1])
        if g[0] == 'pkgclass':
            return ('pkgclass', g[1], g[2])
        return None

    # ------------------------------------------------------------------ helpers
    def loc(s, node):
        return '%s:%s' % (s.filename, getattr(node, 'lineno', '?'))

    def concretise(s, p, e):
        """constant value of a linear expression if the path pins it, else None"""
        if is_const(e):
            return cval(e)
        vs = variables(e)
        if all(v in p.known for v in vs):
            return cval(e) + sum(e[v] * p.known[v] for v in vs)
        return None

    def note_taint(s, p, e, node, what):
        for v in variables(e):
            if v in p.tainted:
                p.events.append(('TAINTREAD', dict(var=v, where=s.loc(node), what=what)))

    # ------------------------------------------------------------------ expressions
    def ev(s, n, p):
        """-> list of (path, value)"""
        if isinstance(n, ast.Constant):
            v = n.value
            if v is None:
                return [(p, NONE)]
            if isinstance(v, bool):
                return [(p, ('bool', v))]
            if isinstance(v, int):
                return [(p, LIN(C(v)))]
            return [(p, ('opaque', repr(v)))]
        if isinstance(n, ast.Name):
            if n.id in p.locs:
                return [(p, p.locs[n.id])]
            if n.id == s.cls.name:
                return [(p, ('class',))]
            gv = s.glob_value(s.glob(s.cur_mod, n.id))
            if gv is not None:
                return [(p, gv)]
            return [(p, ('opaque', n.id))]
        if isinstance(n, ast.Lambda):
            a_ = n.args
            if a_.vararg or a_.kwarg or a_.kwonlyargs or a_.defaults or any(isinstance(x, (ast.Yield, ast.YieldFrom, ast.NamedExpr)) for x in ast.walk(n.body)):
                raise Unsupported('lambda at %s' % s.loc(n))
            return [(p, ('lambdaf', n))]
        if isinstance(n, ast.Attribute):
            out = []
            for q, base in s.ev(n.value, p):
                out.append((q, s.attr(q, base, n)))
            return out
        if isinstance(n, ast.BinOp):
            out = []
            for q, a in s.ev(n.left, p):
                for r, b in s.ev(n.right, q):
                    out.append((r, s.binop(r, n, a, b)))
            return out
        if isinstance(n, ast.UnaryOp):
            if isinstance(n.op, ast.Not):
                t, f = s.cond(n.operand, p)
                return [(q, ('bool', False)) for q in t] + [(q, ('bool', True)) for q in f]
            out = []
            for q, a in s.ev(n.operand, p):
                if a[0] == 'lin' and isinstance(n.op, ast.USub):
                    out.append((q, LIN(scale(a[1], -1))))
                elif a[0] == 'lin' and isinstance(n.op, ast.UAdd):
                    out.append((q, a))
                else:
                    out.append((q, ('opaque', ast.unparse(n))))
            return out
        if isinstance(n, (ast.Tuple, ast.List)):
            if isinstance(n, ast.List) and not n.elts:
                P0 = add(p.gh['Fg'], C(1)) if 'Fg' in p.gh else None
                return [(p, p.newlist(C(0), P0))]
            cur = [(p, [])]
            for e in n.elts:
                nxt = []
                for q, vals in cur:
                    for r, v in s.ev(e, q):
                        nxt.append((r, vals + [v]))
                cur = nxt
            out = []
            for q, vals in cur:
                if isinstance(n, ast.List) and len(vals) == 1 and vals[0][0] == 'frame' and vals[0][1] == 'cur':
                    # [frame]: a fresh list holding the frame just read = an empty list to which the frame is appended
                    P0 = add(q.gh['Fg'], C(1)) if 'Fg' in q.gh else None
                    nl = q.newlist(C(0), P0)
                    for r, _ in s.append_event(q, nl[1], vals[0], n):
                        out.append((r, nl))
                    continue
                tv = ('tuple', vals)
                if isinstance(n, ast.Tuple) and len(vals) == 3 and vals[0][0] == 'list' and vals[1][0] == 'lin' and vals[2][0] == 'lin':
                    tid = next(s.fresh)
                    q.events.append(('MKTOKEN', dict(id=tid, where=s.loc(n))))
                    tv = ('tuple', vals, tid)
                out.append((q, tv))
            return out
        if isinstance(n, ast.NamedExpr) and isinstance(n.target, ast.Name):
            out = []
            for q, v in s.ev(n.value, p):
                q.locs[n.target.id] = v            # (x := e) binds the local
                out.append((q, v))
            return out
        if isinstance(n, (ast.ListComp, ast.GeneratorExp)) and all(not g.ifs and not g.is_async and isinstance(g.target, ast.Name) for g in n.generators):
            # a comprehension over literal sequences of values (the table of legal modes ...): unrolled
            def expand(paths, gens):
                if not gens:
                    res = []
                    for q, acc in paths:
                        for r, v in s.ev(n.elt, q):
                            res.append((r, acc + [v]))
                    return res
                g = gens[0]
                cur = []
                for q, acc in paths:
                    for r, itv in s.ev(g.iter, q):
                        if itv[0] != 'tuple' or len(itv[1]) > 16:
                            raise Unsupported('comprehension over %s at %s' % (itv[0], s.loc(n)))
                        sub = [(r, acc)]
                        for el in itv[1]:
                            nxt = []
                            for r2, acc2 in sub:
                                r2.locs[g.target.id] = el
                                nxt += expand([(r2, acc2)], gens[1:])
                            sub = nxt
                        cur += sub
                return cur
            saved = {g.target.id: p.locs.get(g.target.id) for g in n.generators}
            out = []
            for q, vals in expand([(p, [])], list(n.generators)):
                for k_, v_ in saved.items():
                    if v_ is None:
                        q.locs.pop(k_, None)
                    else:
                        q.locs[k_] = v_
                out.append((q, ('tuple', vals)))
            return out
        if isinstance(n, ast.Dict):
            # a literal table keyed by constants (state -> handler ...): ('dict', [(int key, value)])
            cur = [(p, [])]
            for k_, v_ in zip(n.keys, n.values):
                if k_ is None:
                    raise Unsupported('dict unpacking at %s' % s.loc(n))
                nxt = []
                for q, items in cur:
                    for r, kv in s.ev(k_, q):
                        if kv[0] != 'lin' or not is_const(kv[1]):
                            raise Unsupported('dict key %s is not a constant at %s' % (ast.unparse(k_), s.loc(n)))
                        for r2, vv in s.ev(v_, r):
                            nxt.append((r2, items + [(cval(kv[1]), vv)]))
                cur = nxt
            return [(q, ('dict', items)) for q, items in cur]
        if isinstance(n, ast.Subscript):
            return s.subscript(n, p)
        if isinstance(n, ast.Call):
            return s.call(n, p)
        if isinstance(n, (ast.Compare, ast.BoolOp)):
            t, f = s.cond(n, p)
            return [(q, ('bool', True)) for q in t] + [(q, ('bool', False)) for q in f]
        if isinstance(n, ast.IfExp):
            t, f = s.cond(n.test, p)
            out = []
            for q in t:
                out += s.ev(n.body, q)
            for q in f:
                out += s.ev(n.orelse, q)
            return out
        if isinstance(n, ast.JoinedStr):
            return [(p, ('opaque', 'str'))]
        if isinstance(n, ast.Yield):
            raise Unsupported('yield in value position at %s' % s.loc(n))
        if isinstance(n, ast.Lambda):
            return [(p, ('opaque', 'lambda'))]
        raise Unsupported('expression %s at %s' % (type(n).__name__, s.loc(n)))

    @staticmethod
    def _namedtuple_fields(cnode):
        """(field names, {name: default expr}) of `class X(NamedTuple)` with annotated fields and no methods overriding __new__; else None"""
        if not any((isinstance(b, ast.Name) and b.id == 'NamedTuple') or (isinstance(b, ast.Attribute) and b.attr == 'NamedTuple') for b in cnode.bases):
            return None
        names, defaults = [], {}
        for st in cnode.body:
            if isinstance(st, ast.AnnAssign) and isinstance(st.target, ast.Name):
                names.append(st.target.id)
                if st.value is not None:
                    defaults[st.target.id] = st.value
            elif isinstance(st, ast.FunctionDef) and st.name in ('__new__', '__init__', '__getattribute__', '__getattr__'):
                return None
        return (names, defaults) if names else None

    def attr(s, p, base, n):
        if base[0] == 'tuple' and len(base) == 4 and n.attr in base[3]:
            return base[1][base[3].index(n.attr)]
        if base[0] == 'opaque' and base[1] == 'self':
            f = n.attr
            if f in p.flds:
                v = p.flds[f]
                if ('k:' + f) in p.tainted and isinstance(n.ctx, ast.Load):
                    p.events.append(('TAINTREAD', dict(var='k:' + f, where=s.loc(n), what='read of a per-run field that is not re-initialised')))
                if v[0] == 'stale':
                    p.events.append(('TAINTREAD', dict(var='k:' + f, where=s.loc(n), what='read of a field still holding the previous run\'s value')))
                    p.mark_imprecise('stale field %s read' % f)
                    return ('opaque', 'stale:' + f)
                return v
            if f in s.consts:
                return LIN(C(s.consts[f]))
            if f in s.class_tables:
                return ('tuple', [LIN(C(v)) for v in s.class_tables[f]])
            if f in s.methods:
                return ('method', f)
            return ('opaque', 'self.' + f)
        if base[0] == 'module':
            gv = s.glob_value(s.glob(base[1], n.attr))
            return gv if gv is not None else ('opaque', ast.unparse(n))
        if base[0] == 'enumcls':
            if n.attr in base[1]:
                return LIN(C(base[1][n.attr]))            # members are singletons with distinct values: identity is equality of values
            return ('opaque', ast.unparse(n))
        if base[0] == 'lin' and n.attr == 'value' and isinstance(n.value, ast.Attribute) and is_const(base[1]):
            return base                                    # <Enum>.<member>.value
        if base[0] == 'class' and n.attr in s.consts:
            return LIN(C(s.consts[n.attr]))
        if base[0] == 'class' and n.attr in s.class_tables:
            return ('tuple', [LIN(C(v)) for v in s.class_tables[n.attr]])
        if base[0] == 'validator':
            return ('validator', (base[1] + '.' if len(base) > 1 and base[1] else '') + n.attr)
        if base[0] == 'source' and n.attr == 'read':
            return ('srcread',)                     # the bound read method of the data source (kept in a local: read = source.read)
        return ('opaque', ast.unparse(n))

    def binop(s, p, n, a, b):
        op = n.op
        if a[0] == 'lin' and b[0] == 'lin':
            if isinstance(op, ast.Add):
                return LIN(add(a[1], b[1]))
            if isinstance(op, ast.Sub):
                return LIN(add(a[1], b[1], -1))
            x, y = s.concretise(p, a[1]), s.concretise(p, b[1])
            if isinstance(op, ast.Mult):
                if x is not None:
                    return LIN(scale(b[1], x))
                if y is not None:
                    return LIN(scale(a[1], y))
            if x is not None and y is not None:
                if isinstance(op, ast.BitOr):
                    return LIN(C(x | y))
                if isinstance(op, ast.BitAnd):
                    return LIN(C(x & y))
                if isinstance(op, ast.BitXor):
                    return LIN(C(x ^ y))
                if isinstance(op, ast.FloorDiv) and y != 0:
                    return LIN(C(x // y))
                if isinstance(op, ast.Mod) and y != 0:
                    return LIN(C(x % y))
            fv = 'nl%d' % next(s.fresh)
            p.mark_imprecise('non-linear arithmetic %s' % ast.unparse(n))
            return LIN(V(fv))
        if a[0] == 'list' and isinstance(op, ast.Add) and b[0] == 'tuple':
            raise Unsupported('list concatenation %s at %s' % (ast.unparse(n), s.loc(n)))
        return ('opaque', ast.unparse(n))

    def subscript(s, n, p):
        out = []
        for q, base in s.ev(n.value, p):
            if base[0] == 'list' and isinstance(n.slice, ast.Slice) and n.slice.step is None:
                out += s.list_slice(n, q, base)
            elif base[0] == 'tuple' and isinstance(n.slice, ast.Constant) and isinstance(n.slice.value, int):
                try:
                    out.append((q, base[1][n.slice.value]))
                except IndexError:
                    raise Unsupported('tuple index at %s' % s.loc(n))
            elif base[0] == 'list':
                raise Unsupported('element access on the frame list %s at %s' % (ast.unparse(n), s.loc(n)))
            elif base[0] == 'dict':
                for r, kv in s.ev(n.slice, q):
                    out += s.dict_lookup(n, r, base, kv, None)
            else:
                out.append((q, ('opaque', ast.unparse(n))))
        return out

    def dict_lookup(s, n, p, d, kv, default):
        """value of a literal table for a key: decided when the key is a constant on this path, else split on the table's keys"""
        if kv[0] != 'lin':
            raise Unsupported('dict key %s at %s' % (kv[0], s.loc(n)))
        if is_const(kv[1]):
            k = cval(kv[1])
            for kk, vv in d[1]:
                if kk == k:
                    return [(p, vv)]
            if default is None:
                raise Unsupported('key %r missing from the literal table at %s (KeyError)' % (k, s.loc(n)))
            return [(p, default)]
        out = []
        for kk, vv in d[1]:
            q = p.clone()
            q.assume([eq(kv[1], C(kk))])
            if feasible(q.cons):
                out.append((q, vv))
        if default is not None:
            # values outside the table: conservatively one more path with the default, constrained to differ from each key
            # through strict order against the sorted keys (gaps and both ends)
            keys = sorted(kk for kk, _ in d[1])
            bounds = [(None, keys[0])] + [(a_, b_) for a_, b_ in zip(keys, keys[1:])] + [(keys[-1], None)]
            for lo, hi in bounds:
                q = p.clone()
                cs = []
                if lo is not None:
                    cs.append(gt(kv[1], C(lo)))
                if hi is not None:
                    cs.append(lt(kv[1], C(hi)))
                q.assume(cs)
                if feasible(q.cons):
                    out.append((q, default))
        return out

    def list_slice(s, n, p, base):
        """prefix slices of a heap list: X[:], X[0:], X[:-k], X[0:-k], X[:k], X[0:k]"""
        lo, up = n.slice.lower, n.slice.upper
        lo_ok = lo is None or (isinstance(lo, ast.Constant) and lo.value == 0)
        if not lo_ok:
            raise Unsupported('list slice with a lower bound %s at %s' % (ast.unparse(n), s.loc(n)))
        h = p.heap[base[1]]
        if up is None:
            return [(p, p.newlist(h['len'], h['P0'], h['V1'], h['taint']))]
        out = []
        for q, u in s.ev(up, p):
            if u[0] != 'lin':
                raise Unsupported('list slice bound %s at %s' % (ast.unparse(n), s.loc(n)))
            h = q.heap[base[1]]
            L = h['len']
            U = u[1]
            s.note_taint(q, U, n, 'slice bound')
            # python semantics of X[0:U]:  U >= 0 -> min(U, L) ; U < 0 -> max(L + U, 0)
            cases = [
                ([ge(U, C(0)), le(U, L)], U, 'prefix'),
                ([ge(U, C(0)), gt(U, L)], L, 'all'),
                ([lt(U, C(0)), ge(add(L, U), C(0))], add(L, U), 'drop'),
                ([lt(U, C(0)), lt(add(L, U), C(0))], C(0), 'dropall'),
            ]
            for cs, newlen, kind in cases:
                r = q.clone()
                r.assume(cs)
                if not feasible(r.cons):
                    continue
                removed = add(L, newlen, -1)
                r.events.append(('DROPTRAIL', dict(L=L, removed=removed, R=r.gh.get('R'), kind=kind, where=s.loc(n),
                                                   list=base[1], cons_len=len(r.cons))))
                v = r.newlist(newlen, h['P0'], h['V1'], h['taint'])
                if base[1] == s.current_frame_list(r) and r.gh.get('R') is not None:
                    r.gh['R'] = add(r.gh['R'], removed, -1)
                out.append((r, v))
        return out

    # ------------------------------------------------------------------ calls
    def call(s, n, p):
        f = n.func
        if isinstance(f, ast.Name):
            if f.id in p.locs and p.locs[f.id][0] in ('method', 'validator'):
                return s.call_value(n, p, p.locs[f.id])       # a bound method / the validator held in a local
            if f.id in p.locs and p.locs[f.id][0] == 'lambdaf':
                # a small lambda held in a local (an entry of a table of checks): its body evaluated with the arguments bound, over the
                # locals of the caller (closure)
                lam = p.locs[f.id][1]
                params_ = [x.arg for x in lam.args.posonlyargs + lam.args.args]
                if n.keywords or len(n.args) != len(params_):
                    raise Unsupported('call of a lambda with other than its positional arguments at %s' % s.loc(n))
                out = []
                for q, vals in s.evargs(n.args, p):
                    saved = q.locs
                    q.locs = dict(saved)
                    q.locs.update(dict(zip(params_, vals)))
                    res_ = s.ev(lam.body, q)
                    for r, v in res_:
                        r.locs = dict(saved)
                        out.append((r, v))
                return out
            if f.id in p.locs and p.locs[f.id][0] == 'srcread':
                if n.args or n.keywords:
                    raise Unsupported('read with arguments at %s' % s.loc(n))
                return s.do_read(n, p)
            if f.id in p.locs and p.locs[f.id][0] == 'pkgfunc':
                return s.inline_function(n, p, p.locs[f.id][1], p.locs[f.id][2])
            if f.id in p.locs and p.locs[f.id][0] == 'localfn':
                return s.inline(n, p, f.id, m=p.locs[f.id][1], home=s.cur_mod, free=True, closure=True)
            if f.id not in p.locs:
                g = s.glob(s.cur_mod, f.id)
                if g and g[0] == 'func':
                    return s.inline_function(n, p, g[1], g[2])      # a helper function of the package (this module or the one it was moved to)
                if g and g[0] == 'pkgclass':
                    nt = s._namedtuple_fields(g[2])
                    if nt is not None and not any(isinstance(a, ast.Starred) for a in n.args) and not any(k.arg is None for k in n.keywords):
                        # a private NamedTuple of the package carrying a few values: a tuple whose components also have names
                        names, defaults = nt
                        given = {k.arg: k.value for k in n.keywords}
                        exprs = list(n.args)
                        for nm in names[len(exprs):]:
                            if nm in given:
                                exprs.append(given[nm])
                            elif nm in defaults:
                                exprs.append(defaults[nm])
                            else:
                                raise Unsupported('construction of %s at %s' % (f.id, s.loc(n)))
                        if len(exprs) == len(names) and set(given) <= set(names[len(n.args):]):
                            return [(q, ('tuple', vals, None, tuple(names))) for q, vals in s.evargs(exprs, p)]
                if g and g[0] in ('pkgclass', 'enum'):
                    raise Unsupported('construction of %s at %s' % (f.id, s.loc(n)))
            return s.call_builtin(n, p, f.id)
        if isinstance(f, ast.Attribute):
            out = []
            for q, recv in s.ev(f.value, p):
                out += s.call_method(n, q, recv, f.attr)
            return out
        raise Unsupported('call %s at %s' % (ast.unparse(n), s.loc(n)))

    def evargs(s, args, p):
        cur = [(p, [])]
        for a in args:
            if isinstance(a, ast.Starred):
                raise Unsupported('star-args at %s' % s.loc(a))
            nxt = []
            for q, vals in cur:
                for r, v in s.ev(a, q):
                    nxt.append((r, vals + [v]))
            cur = nxt
        return cur

    def call_builtin(s, n, p, name):
        out = []
        if name == 'len' and len(n.args) == 1:
            for q, a in s.ev(n.args[0], p):
                if a[0] == 'list':
                    h = q.heap[a[1]]
                    if h['taint']:
                        q.events.append(('TAINTREAD', dict(var='list', where=s.loc(n), what='length of a buffer left over from the previous run')))
                    out.append((q, LIN(h['len'])))
                elif a[0] == 'tuple':
                    out.append((q, LIN(C(len(a[1])))))
                else:
                    q.mark_imprecise('len of %s' % (a,))
                    out.append((q, LIN(V('nl%d' % next(s.fresh)))))
            return out
        if name in ('min', 'max') and len(n.args) == 2 and not n.keywords:
            for q, (a, b) in s.evargs(n.args, p):
                if a[0] == 'lin' and b[0] == 'lin':
                    for cs, v in (([le(a[1], b[1])], a if name == 'min' else b), ([gt(a[1], b[1])], b if name == 'min' else a)):
                        r = q.clone()
                        r.assume(cs)
                        if feasible(r.cons):
                            out.append((r, v))
                else:
                    out.append((q, ('opaque', ast.unparse(n))))
            return out
        if name == 'int' and len(n.args) == 1:
            for q, a in s.ev(n.args[0], p):
                if a[0] == 'lin':
                    out.append((q, a))
                elif a[0] == 'bool':
                    out.append((q, LIN(C(1 if a[1] else 0))))
                else:
                    out.append((q, ('opaque', ast.unparse(n))))
            return out
        if name == 'bool' and len(n.args) == 1:
            t, f = s.cond(n.args[0], p)
            return [(q, ('bool', True)) for q in t] + [(q, ('bool', False)) for q in f]
        if name == 'list' and len(n.args) <= 1:
            if not n.args:
                P0 = add(p.gh['Fg'], C(1)) if 'Fg' in p.gh else None
                return [(p, p.newlist(C(0), P0))]
            for q, a in s.ev(n.args[0], p):
                if a[0] == 'list':
                    h = q.heap[a[1]]
                    out.append((q, q.newlist(h['len'], h['P0'], h['V1'], h['taint'])))
                else:
                    out.append((q, ('opaque', ast.unparse(n))))
            return out
        if name == 'tuple' and len(n.args) == 1:
            return s.ev(n.args[0], p)
        if name in ('callable', 'isinstance', 'hasattr', 'issubclass'):
            for q, vals in s.evargs(n.args, p):
                nm = ast.unparse(n)
                if nm in q.sb:
                    out.append((q, ('bool', q.sb[nm])))
                else:
                    out.append((q, ('sbool', nm)))
            return out
        if name in ('print', 'repr', 'str', 'format', 'type', 'id', 'getattr'):
            return [(q, ('opaque', ast.unparse(n))) for q, _ in s.evargs(n.args, p)]
        # unknown free function: its result is opaque; arguments are evaluated for their events
        res = []
        for q, vals in s.evargs(n.args, p):
            if any(v[0] == 'list' for v in vals):
                raise Unsupported('frame list passed to unknown function %s at %s' % (name, s.loc(n)))
            res.append((q, ('opaque', ast.unparse(n))))
        return res

    def call_method(s, n, p, recv, name):
        if recv[0] == 'list':
            return s.list_method(n, p, recv, name)
        if recv[0] == 'dict':
            if name == 'get' and 1 <= len(n.args) <= 2 and not n.keywords:
                out = []
                for q, vals in s.evargs(n.args, p):
                    out += s.dict_lookup(n, q, recv, vals[0], vals[1] if len(vals) == 2 else NONE)
                return out
            raise Unsupported('dict method %s at %s' % (name, s.loc(n)))
        if recv[0] == 'source':
            if name == 'read':
                return s.do_read(n, p)
            raise Unsupported('call of %s on the data source at %s' % (name, s.loc(n)))
        if recv[0] == 'opaque' and recv[1] == 'self':
            if name in p.flds:
                tgt = p.flds[name]
                return s.call_value(n, p, tgt)
            if name in s.methods:
                return s.inline(n, p, name)
            raise Unsupported('call of unknown method self.%s at %s' % (name, s.loc(n)))
        if recv[0] == 'validator':
            return s.call_value(n, p, recv)
        if recv[0] == 'module':
            g = s.glob(recv[1], name)
            if g and g[0] == 'func':
                return s.inline_function(n, p, g[1], g[2])
            raise Unsupported('call of %s.%s at %s' % (recv[1], name, s.loc(n)))
        if recv[0] == 'pkgclass':
            r = s.model.find_method(recv[1], recv[2], name) if s.model else None
            if r and any(isinstance(d, ast.Name) and d.id == 'staticmethod' for d in r[2].decorator_list):
                return s.inline_function(n, p, r[0], r[2])           # a namespace class of static helpers
            raise Unsupported('call of %s.%s at %s' % (recv[2].name, name, s.loc(n)))
        if recv[0] == 'class' and name in s.methods:
            if any(isinstance(d, ast.Name) and d.id in ('staticmethod', 'classmethod') for d in s.methods[name].decorator_list):
                return s.inline(n, p, name)
            raise Unsupported('unbound method call at %s' % s.loc(n))
        # method of an opaque object (string formatting, logging ...): opaque result
        res = []
        for q, vals in s.evargs(n.args, p):
            if any(v[0] == 'list' for v in vals):
                raise Unsupported('frame list passed to %s at %s' % (ast.unparse(n.func), s.loc(n)))
            res.append((q, ('opaque', ast.unparse(n))))
        return res

    def call_value(s, n, p, tgt):
        if tgt[0] == 'validator':
            out = []
            for q, vals in s.evargs(n.args, p):
                if len(vals) == 1 and vals[0][0] == 'frame' and vals[0][1] == 'cur':
                    q.events.append(('ORACLE', dict(bound_to=tgt[1] if len(tgt) > 1 else '', where=s.loc(n))))
                    out.append((q, ('bool', q.valid)))
                else:
                    q.mark_imprecise('validator applied to something else than the current frame')
                    out.append((q, ('sbool', 'valid%d' % next(s.fresh))))
            return out
        if tgt[0] == 'method':
            return s.inline(n, p, tgt[1])
        res = []
        for q, vals in s.evargs(n.args, p):
            res.append((q, ('opaque', ast.unparse(n))))
        return res

    def do_read(s, n, p):
        p.reads += 1
        p.gh['Fg'] = add(p.gh['Fg'], C(1))
        p.events.append(('READ', dict(where=s.loc(n), nth=p.reads)))
        if p.reads > 1:
            p.mark_imprecise('second read in one iteration')
            return [(p, ('frame', 'extra'))]
        return [(p, NONE if p.inp == 'eos' else ('frame', 'cur'))]

    def list_method(s, n, p, recv, name):
        lid = recv[1]
        if name == 'append' and len(n.args) == 1:
            out = []
            for q, v in s.ev(n.args[0], p):
                out += s.append_event(q, lid, v, n)
            return out
        if name == 'extend' and len(n.args) == 1:
            a = n.args[0]
            if isinstance(a, (ast.List, ast.Tuple)) and len(a.elts) == 1 and not isinstance(a.elts[0], ast.Starred):
                out = []
                for q, v in s.ev(a.elts[0], p):          # extend([x]) is append(x)
                    out += s.append_event(q, lid, v, n)
                return out
            out = []
            for q, v in s.ev(a, p):
                if v[0] == 'frame' and lid == s.current_frame_list(q):
                    # the elements of the frame, not the frame, go into the buffer: decided, not an imprecision
                    q.events.append(('BADAPPEND', dict(where=s.loc(n), value='the elements of the frame (extend)')))
                    q.heap[lid]['len'] = add(q.heap[lid]['len'], C(1))
                    out.append((q, NONE))
                else:
                    raise Unsupported('list method extend at %s' % s.loc(n))
            return out
        if name == 'clear' and not n.args:
            h = p.heap[lid]
            h['len'] = C(0)
            h['P0'] = add(p.gh['Fg'], C(1))
            h['V1'] = True
            h['taint'] = False
            p.events.append(('CLEAR', dict(list=lid, where=s.loc(n))))
            return [(p, NONE)]
        if name == 'copy' and not n.args:
            h = p.heap[lid]
            return [(p, p.newlist(h['len'], h['P0'], h['V1'], h['taint']))]
        raise Unsupported('list method %s at %s' % (name, s.loc(n)))

    def append_event(s, p, lid, v, n):
        h = p.heap[lid]
        if lid != s.current_frame_list(p):
            # a list that is not (currently) the frame buffer: token stash or similar
            if v[0] == 'tuple' and len(v) == 3:
                p.events.append(('STASH', dict(token=v[2], where=s.loc(n))))
                return [(p, NONE)]
            if v[0] == 'frame':
                pass     # appending a frame to some other list object: treat it as a frame list too
            else:
                return [(p, NONE)]
        if v[0] != 'frame' or v[1] != 'cur':
            p.events.append(('BADAPPEND', dict(where=s.loc(n), value=str(v[:2]))))
            p.mark_imprecise('append of a value that is not the frame just read')
            h['len'] = add(h['len'], C(1))
            return [(p, NONE)]
        if h['taint']:
            p.events.append(('TAINTREAD', dict(var='list', where=s.loc(n), what='append to a buffer left over from the previous run')))
        out = []
        Fg = p.gh['Fg']
        for cs, first in (([eq(h['len'], C(0))], True), ([ge(h['len'], C(1))], False)):
            q = p.clone()
            q.assume(cs)
            if not feasible(q.cons):
                continue
            hh = q.heap[lid]
            q.appended += 1
            Rpost = C(0) if q.valid else add(q.gh['R'], C(1))
            q.events.append(('APPEND', dict(where=s.loc(n), Lpre=hh['len'], P0=hh['P0'], Fg=Fg, valid=q.valid, first=first,
                                            nth=q.appended, R=Rpost, list=lid)))
            if first:
                hh['P0'] = Fg
                hh['V1'] = q.valid
            hh['len'] = add(hh['len'], C(1))
            q.gh['R'] = Rpost
            out.append((q, NONE))
        return out

    def current_frame_list(s, p):
        f = s.frame_list_field
        if f and f in p.flds and p.flds[f][0] == 'list':
            return p.flds[f][1]
        return None

    def inline_function(s, n, p, mod, fn):
        """inline a module-level helper function of the package (static: no self)"""
        return s.inline(n, p, fn.name, m=hoist_walrus(fn), home=mod, free=True)

    def inline(s, n, p, name, m=None, home=None, free=False, closure=False):
        """inline a method of the analysed class (or, free=True, a helper function); -> list of (path, return value)"""
        if m is None:
            m = s.methods[name]
            home = s.method_home.get(name, s.mod)
        if p.depth >= MAX_DEPTH:
            raise Unsupported('inlining depth exceeded at %s (recursion?)' % s.loc(n))
        if any(isinstance(x, (ast.Yield, ast.YieldFrom)) for x in ast.walk(m)):
            raise Unsupported('call of a generator method in value position at %s' % s.loc(n))
        out = []
        a = m.args
        if a.vararg or a.kwarg:
            raise Unsupported('signature of %s' % name)
        decos = {d.id for d in m.decorator_list if isinstance(d, ast.Name)} | {d.attr for d in m.decorator_list if isinstance(d, ast.Attribute)}
        if decos - {'staticmethod', 'classmethod'}:
            raise Unsupported('decorated method %s (%s) called at %s' % (name, sorted(decos), s.loc(n)))
        static = 'staticmethod' in decos or free
        allpos = [x.arg for x in a.posonlyargs + a.args]          # positional-only parameters bind like the others
        params = allpos if static else allpos[1:]
        first = None if static else (allpos[0] if allpos else None)
        kwonly = [(x.arg, d) for x, d in zip(a.kwonlyargs, a.kw_defaults)]
        for q, vals in s.evargs(n.args, p):
            kwcur = [(q, {})]
            for k in n.keywords:
                if k.arg is None:
                    raise Unsupported('**kwargs call at %s' % s.loc(n))
                nxt = []
                for r, d in kwcur:
                    for r2, v in s.ev(k.value, r):
                        d2 = dict(d)
                        d2[k.arg] = v
                        nxt.append((r2, d2))
                kwcur = nxt
            for r, kw in kwcur:
                newlocs = dict(r.locs) if closure else {}          # a local helper sees the locals of the activation that defined it
                if first is not None:
                    newlocs[first] = ('class',) if 'classmethod' in decos else ('opaque', 'self')
                dcur = [(r, newlocs)]
                for i, pn in enumerate(params):
                    nxt = []
                    for r2, nl in dcur:
                        if i < len(vals):
                            nl = dict(nl)
                            nl[pn] = vals[i]
                            nxt.append((r2, nl))
                        elif pn in kw:
                            nl = dict(nl)
                            nl[pn] = kw[pn]
                            nxt.append((r2, nl))
                        else:
                            j = i - (len(params) - len(a.defaults))
                            if j < 0:
                                raise Unsupported('missing argument %s in call at %s' % (pn, s.loc(n)))
                            for r3, dv in s.ev(a.defaults[j], r2):
                                nl2 = dict(nl)
                                nl2[pn] = dv
                                nxt.append((r3, nl2))
                    dcur = nxt
                for kn_, kd_ in kwonly:               # keyword-only parameters: the keyword given, else the default
                    nxt = []
                    for r2, nl in dcur:
                        if kn_ in kw:
                            nl = dict(nl)
                            nl[kn_] = kw[kn_]
                            nxt.append((r2, nl))
                        elif kd_ is not None:
                            for r3, dv in s.ev(kd_, r2):
                                nl2 = dict(nl)
                                nl2[kn_] = dv
                                nxt.append((r3, nl2))
                        else:
                            raise Unsupported('missing keyword-only argument %s in call at %s' % (kn_, s.loc(n)))
                    dcur = nxt
                for r2, nl in dcur:
                    saved = r2.locs
                    r2.locs = nl
                    r2.depth += 1
                    saved_mod, s.cur_mod = s.cur_mod, (home or s.cur_mod)
                    try:
                        results = s.block(m.body, r2)
                    finally:
                        s.cur_mod = saved_mod
                    for r3, sig in results:
                        rv = NONE
                        if sig is not None:
                            if sig[0] == 'return':
                                rv = sig[1]
                            elif sig[0] == 'raise':
                                r3.locs = dict(saved)
                                r3.depth -= 1
                                out.append((r3, ('raised', sig[1])))
                                continue
                            else:
                                raise Unsupported('%s escaping method %s' % (sig[0], name))
                        r3.locs = dict(saved)
                        r3.depth -= 1
                        out.append((r3, rv))
        return out

    # ------------------------------------------------------------------ conditions
    def cond(s, n, p):
        """-> (paths where n is true, paths where n is false)"""
        if isinstance(n, ast.BoolOp):
            if isinstance(n.op, ast.And):
                T, Fa = [p], []
                for v in n.values:
                    nt = []
                    for q in T:
                        t, f = s.cond(v, q)
                        nt += t
                        Fa += f
                    T = nt
                return T, Fa
            T, Fa = [], [p]
            for v in n.values:
                nf = []
                for q in Fa:
                    t, f = s.cond(v, q)
                    T += t
                    nf += f
                Fa = nf
            return T, Fa
        if isinstance(n, ast.UnaryOp) and isinstance(n.op, ast.Not):
            t, f = s.cond(n.operand, p)
            return f, t
        if isinstance(n, ast.Compare):
            if len(n.ops) > 1:
                # a < b <= c  ==  (a < b) and (b <= c)   (operands here have no side effects)
                parts = []
                left = n.left
                for op, right in zip(n.ops, n.comparators):
                    parts.append(ast.copy_location(ast.Compare(left=left, ops=[op], comparators=[right]), n))
                    left = right
                return s.cond(ast.copy_location(ast.BoolOp(op=ast.And(), values=parts), n), p)
            T, Fa = [], []
            for q, a in s.ev(n.left, p):
                for r, b in s.ev(n.comparators[0], q):
                    t, f = s.compare(n, r, n.ops[0], a, b)
                    T += t
                    Fa += f
            return T, Fa
        T, Fa = [], []
        for q, v in s.ev(n, p):
            t, f = s.truth(n, q, v)
            T += t
            Fa += f
        return T, Fa

    def _tag(s, paths, n, truth):
        for q in paths:
            q.conds.append((getattr(n, 'lineno', 0), ast.unparse(n), truth))
        return paths

    def truth(s, n, p, v):
        k = v[0]
        if k == 'bool':
            return (s._tag([p], n, True), []) if v[1] else ([], s._tag([p], n, False))
        if k == 'none':
            return [], s._tag([p], n, False)
        if k in ('tuple',):
            return (s._tag([p], n, True), []) if v[1] else ([], s._tag([p], n, False))
        if k == 'frame':
            # frames are arbitrary objects ("every frame type"): a frame may be falsy (0, "", b"")
            a, b = p.clone(), p.clone()
            return s._tag([a], n, True), s._tag([b], n, False)
        if k in ('validator', 'source', 'method', 'class'):
            return s._tag([p], n, True), []
        if k == 'raised':
            raise Unsupported('exception raised inside a condition at %s' % s.loc(n))
        if k == 'sbool':
            if v[1] in p.sb:
                return (s._tag([p], n, True), []) if p.sb[v[1]] else ([], s._tag([p], n, False))
            a, b = p.clone(), p.clone()
            a.sb[v[1]] = True
            b.sb[v[1]] = False
            return s._tag([a], n, True), s._tag([b], n, False)
        if k == 'lin':
            e = v[1]
            s.note_taint(p, e, n, 'truth value')
            out_t, out_f = [], []
            for cs, tr in (([eq(e, C(0))], False), ([lt(e, C(0))], True), ([gt(e, C(0))], True)):
                q = p.clone()
                q.assume(cs)
                if feasible(q.cons):
                    (out_t if tr else out_f).append(q)
            return s._tag(out_t, n, True), s._tag(out_f, n, False)
        if k == 'list':
            h = p.heap[v[1]]
            if h['taint']:
                p.events.append(('TAINTREAD', dict(var='list', where=s.loc(n), what='emptiness of a buffer left over from the previous run')))
            out_t, out_f = [], []
            for cs, tr in (([eq(h['len'], C(0))], False), ([ge(h['len'], C(1))], True)):
                q = p.clone()
                q.assume(cs)
                if feasible(q.cons):
                    (out_t if tr else out_f).append(q)
            return s._tag(out_t, n, True), s._tag(out_f, n, False)
        # opaque: undecided, both ways, imprecise
        a, b = p.clone(), p.clone()
        a.mark_imprecise('branch on opaque value %s at %s' % (ast.unparse(n), s.loc(n)))
        b.mark_imprecise('branch on opaque value %s at %s' % (ast.unparse(n), s.loc(n)))
        return s._tag([a], n, True), s._tag([b], n, False)

    def compare(s, n, p, op, a, b):
        def mk(cons_list, truth):
            out = []
            for cs in cons_list:
                q = p.clone()
                q.assume(cs)
                if feasible(q.cons):
                    q.conds.append((n.lineno, ast.unparse(n), truth))
                    out.append(q)
            return out
        if isinstance(op, (ast.Is, ast.IsNot, ast.Eq, ast.NotEq)) and (a[0] == 'none' or b[0] == 'none'):
            other = b if a[0] == 'none' else a
            if other[0] == 'opaque' or other[0] == 'sbool':
                x, y = p.clone(), p.clone()
                x.mark_imprecise('None test on opaque value at %s' % s.loc(n))
                y.mark_imprecise('None test on opaque value at %s' % s.loc(n))
                return s._tag([x], n, True), s._tag([y], n, False)
            r = other[0] == 'none'
            if isinstance(op, (ast.IsNot, ast.NotEq)):
                r = not r
            return (s._tag([p], n, True), []) if r else ([], s._tag([p], n, False))
        if isinstance(op, (ast.In, ast.NotIn)):
            if a[0] == 'lin' and b[0] == 'tuple' and all(x[0] == 'lin' for x in b[1]):
                s.note_taint(p, a[1], n, 'membership test')
                A = a[1]
                consts = [x[1] for x in b[1]]
                t_paths = []
                for c in consts:
                    t_paths += mk([[eq(A, c)]], True)
                # not in: A differs from every element -> enumerate orderings between sorted constants
                f_sets = [[]]
                for c in consts:
                    f_sets = [fs + [x] for fs in f_sets for x in (lt(A, c), gt(A, c))]
                f_paths = mk(f_sets, False)
                if isinstance(op, ast.NotIn):
                    for q in t_paths:
                        q.conds[-1] = (n.lineno, ast.unparse(n), False)
                    for q in f_paths:
                        q.conds[-1] = (n.lineno, ast.unparse(n), True)
                    return f_paths, t_paths
                return t_paths, f_paths
            x, y = p.clone(), p.clone()
            x.mark_imprecise('membership test %s' % ast.unparse(n))
            y.mark_imprecise('membership test %s' % ast.unparse(n))
            return s._tag([x], n, True), s._tag([y], n, False)
        if a[0] == 'bool' and b[0] == 'bool' and isinstance(op, (ast.Eq, ast.NotEq, ast.Is, ast.IsNot)):
            r = (a[1] == b[1])
            if isinstance(op, (ast.NotEq, ast.IsNot)):
                r = not r
            return (s._tag([p], n, True), []) if r else ([], s._tag([p], n, False))
        if a[0] in ('bool',) and b[0] == 'lin':
            a = LIN(C(1 if a[1] else 0))
        if b[0] in ('bool',) and a[0] == 'lin':
            b = LIN(C(1 if b[1] else 0))
        if a[0] == 'lin' and b[0] == 'lin':
            A, B = a[1], b[1]
            s.note_taint(p, A, n, 'comparison')
            s.note_taint(p, B, n, 'comparison')
            if isinstance(op, ast.GtE):
                return mk([[ge(A, B)]], True), mk([[lt(A, B)]], False)
            if isinstance(op, ast.Gt):
                return mk([[gt(A, B)]], True), mk([[le(A, B)]], False)
            if isinstance(op, ast.LtE):
                return mk([[le(A, B)]], True), mk([[gt(A, B)]], False)
            if isinstance(op, ast.Lt):
                return mk([[lt(A, B)]], True), mk([[ge(A, B)]], False)
            if isinstance(op, (ast.Eq, ast.Is)):
                return mk([[eq(A, B)]], True), mk([[lt(A, B)], [gt(A, B)]], False)
            if isinstance(op, (ast.NotEq, ast.IsNot)):
                return mk([[lt(A, B)], [gt(A, B)]], True), mk([[eq(A, B)]], False)
        if a[0] == 'list' and b[0] == 'tuple' and not b[1] and isinstance(op, (ast.Eq, ast.NotEq)):
            t, f = s.truth(n, p, a)     # x == []  <=>  not x
            return (f, t) if isinstance(op, ast.Eq) else (t, f)
        x, y = p.clone(), p.clone()
        why = 'comparison of %s and %s (%s) at %s' % (a[0], b[0], ast.unparse(n), s.loc(n))
        x.mark_imprecise(why)
        y.mark_imprecise(why)
        return s._tag([x], n, True), s._tag([y], n, False)

    # ------------------------------------------------------------------ statements
    def block(s, stmts, p):
        """-> list of (path, signal); signal None | ('return', v) | ('raise', name) | ('break',) | ('continue',)"""
        cur = [(p, None)]
        for st in stmts:
            nxt = []
            for q, sig in cur:
                if sig is not None:
                    nxt.append((q, sig))
                    continue
                for r, sg in s.stmt(st, q):
                    if feasible(r.cons):
                        nxt.append((r, sg))
            cur = nxt
            if len(cur) > MAX_LEAVES:
                raise Unsupported('more than %d leaves' % MAX_LEAVES)
        return cur

    def assign(s, tgt, val, p, node):
        if val[0] == 'raised':
            raise Unsupported('exception value assigned at %s' % s.loc(node))
        if isinstance(tgt, ast.Name):
            p.locs[tgt.id] = val
        elif isinstance(tgt, ast.Attribute) and isinstance(tgt.value, ast.Name) and tgt.value.id == 'self' and p.locs.get('self', ('opaque', 'self')) == ('opaque', 'self'):
            p.flds[tgt.attr] = val
            p.fld_written = p.fld_written | {tgt.attr}
        elif isinstance(tgt, (ast.Tuple, ast.List)) and val[0] == 'tuple' and len(tgt.elts) == len(val[1]):
            for t, v in zip(tgt.elts, val[1]):
                s.assign(t, v, p, node)
        elif isinstance(tgt, ast.Subscript):
            raise Unsupported('subscript store %s at %s' % (ast.unparse(tgt), s.loc(node)))
        else:
            raise Unsupported('assignment target %s at %s' % (ast.unparse(tgt), s.loc(node)))

    def stmt(s, st, p):
        if isinstance(st, ast.FunctionDef) and not st.decorator_list and not st.args.vararg and not st.args.kwarg \
                and not any(isinstance(x, (ast.Yield, ast.YieldFrom, ast.Nonlocal, ast.Global)) for x in ast.walk(st)):
            # a local helper function: kept as a closure over the locals of this activation (it may read them; what it assigns is its own)
            p.locs[st.name] = ('localfn', hoist_walrus(st))
            return [(p, None)]
        if isinstance(st, ast.FunctionDef) and not st.decorator_list and not st.args.args and not st.args.vararg and not st.args.kwarg and not st.args.kwonlyargs:
            body_ = [b for b in st.body if not (isinstance(b, ast.Expr) and isinstance(b.value, ast.Constant))]
            if body_ and len(body_) <= 12 and all(isinstance(b, ast.Expr) and isinstance(b.value, ast.Yield) and b.value.value is not None for b in body_) \
                    and not any(isinstance(x, (ast.Yield, ast.YieldFrom, ast.Await, ast.NamedExpr, ast.Call)) for b in body_ for x in ast.walk(b.value.value)):
                # a local generator that only yields a fixed sequence of effect-free expressions over the enclosing locals (a lazy table of
                # checks): iterating over it is iterating over the tuple of those expressions (when each is evaluated cannot be observed)
                p.locs[st.name] = ('localgen', [b.value.value for b in body_])
                return [(p, None)]
        if isinstance(st, ast.Expr):
            v = st.value
            if isinstance(v, ast.Constant):
                return [(p, None)]
            if isinstance(v, ast.Yield):
                if v.value is None:
                    raise Unsupported('bare yield at %s' % s.loc(st))
                out = []
                for q, val in s.ev(v.value, p):
                    s.deliver(q, val, st)
                    out.append((q, None))
                return out
            if isinstance(v, ast.YieldFrom):
                raise Unsupported('yield from at %s' % s.loc(st))
            out = []
            for q, val in s.ev(v, p):
                if val[0] == 'raised':
                    out.append((q, ('raise', val[1])))
                else:
                    out.append((q, None))
            return out
        if isinstance(st, ast.Assign):
            out = []
            for q, val in s.ev(st.value, p):
                if val[0] == 'raised':
                    out.append((q, ('raise', val[1])))
                    continue
                for t in st.targets:
                    s.assign(t, val, q, st)
                out.append((q, None))
            return out
        if isinstance(st, ast.AnnAssign):
            if st.value is None:
                return [(p, None)]
            out = []
            for q, val in s.ev(st.value, p):
                s.assign(st.target, val, q, st)
                out.append((q, None))
            return out
        if isinstance(st, ast.AugAssign):
            out = []
            load = ast.fix_missing_locations(ast.copy_location(ast.BinOp(left=_as_load(st.target), op=st.op, right=st.value), st))
            for q, val in s.ev(load, p):
                s.assign(st.target, val, q, st)
                out.append((q, None))
            return out
        if isinstance(st, ast.If):
            T, Fa = s.cond(st.test, p)
            out = []
            for q in T:
                if feasible(q.cons):
                    out += s.block(st.body, q)
            for q in Fa:
                if feasible(q.cons):
                    out += s.block(st.orelse, q)
            return out
        if isinstance(st, ast.Return):
            if st.value is None:
                return [(p, ('return', NONE))]
            out = []
            for q, val in s.ev(st.value, p):
                if val[0] == 'raised':
                    out.append((q, ('raise', val[1])))
                else:
                    out.append((q, ('return', val)))
            return out
        if isinstance(st, ast.For) and not st.orelse:
            # `for x in <tuple / list whose elements are known>`: unrolled (tables of checks in the constructor, tuples of constants)
            out = []
            it_ = st.iter
            if isinstance(it_, ast.Call) and isinstance(it_.func, ast.Name) and not it_.args and not it_.keywords and it_.func.id in p.locs and p.locs[it_.func.id][0] == 'localgen':
                it_ = ast.copy_location(ast.Tuple(elts=list(p.locs[it_.func.id][1]), ctx=ast.Load()), it_)
            for q, seq in s.ev(it_, p):
                if seq[0] != 'tuple' or len(seq[1]) > 12:
                    raise Unsupported('For at %s: %s' % (s.loc(st), ast.unparse(st)[:70]))
                cur = [(q, None)]
                for elem in seq[1]:
                    nxt = []
                    for r, sig in cur:
                        if sig is not None:
                            nxt.append((r, sig))
                            continue
                        s.assign(st.target, elem, r, st)
                        for r2, sig2 in s.block(st.body, r):
                            if sig2 is not None and sig2[0] == 'continue':
                                sig2 = None
                            nxt.append((r2, sig2))
                    cur = nxt
                for r, sig in cur:
                    if sig is not None and sig[0] == 'break':
                        sig = None
                    out.append((r, sig))
            return out
        if isinstance(st, ast.Raise):
            name = _name_of_exc(st.exc)
            # raise helper(...): the exception is what the helper returns (a local function / a method / a package function that builds it)
            ex = st.exc
            if isinstance(ex, ast.Call):
                fnode = None
                if isinstance(ex.func, ast.Name) and ex.func.id in p.locs and p.locs[ex.func.id][0] == 'localfn':
                    fnode = p.locs[ex.func.id][1]
                elif isinstance(ex.func, ast.Name) and ex.func.id not in p.locs:
                    g_ = s.glob(s.cur_mod, ex.func.id)
                    fnode = g_[2] if g_ and g_[0] == 'func' else None
                elif isinstance(ex.func, ast.Attribute) and isinstance(ex.func.value, ast.Name) and ex.func.value.id in ('self', s.cls.name) and ex.func.attr in s.methods:
                    fnode = s.methods[ex.func.attr]
                if fnode is not None:
                    rets = [r_ for r_ in ast.walk(fnode) if isinstance(r_, ast.Return) and r_.value is not None]
                    names = {_name_of_exc(r_.value) for r_ in rets}
                    if len(names) == 1 and all(isinstance(r_.value, ast.Call) for r_ in rets):
                        name = names.pop()
                    else:
                        raise Unsupported('raise of the result of %s at %s' % (ast.unparse(ex.func), s.loc(st)))
            bad = s._format_failure(st.exc, p) if st.exc is not None else None
            if bad is not None:
                # building the message fails first: that exception, not the one named in the raise statement, leaves the function
                name = bad
            p.events.append(('RAISE', dict(exc=name, where=s.loc(st))))
            return [(p, ('raise', name))]
        if isinstance(st, ast.Break):
            return [(p, ('break',))]
        if isinstance(st, ast.Continue):
            return [(p, ('continue',))]
        if isinstance(st, ast.Pass):
            return [(p, None)]
        if isinstance(st, ast.Assert):
            T, Fa = s.cond(st.test, p)
            out = [(q, None) for q in T]
            for q in Fa:
                q.events.append(('RAISE', dict(exc='AssertionError', where=s.loc(st))))
                out.append((q, ('raise', 'AssertionError')))
            return out
        if isinstance(st, ast.Delete):
            # del X[:]  empties the list in place
            if len(st.targets) == 1 and isinstance(st.targets[0], ast.Subscript) and isinstance(st.targets[0].slice, ast.Slice) \
                    and st.targets[0].slice.upper is None and st.targets[0].slice.step is None and st.targets[0].slice.lower is None:
                out = []
                for q0, base in s.ev(st.targets[0].value, p):
                    if base[0] != 'list':
                        raise Unsupported('del statement at %s' % s.loc(st))
                    h = q0.heap[base[1]]
                    h['len'] = C(0)
                    h['P0'] = add(q0.gh['Fg'], C(1))
                    h['V1'] = True
                    h['taint'] = False
                    q0.events.append(('CLEAR', dict(list=base[1], where=s.loc(st))))
                    out.append((q0, None))
                return out
            # del X[k:]  keeps X[:k], in place (every alias of the list sees it)
            if len(st.targets) == 1 and isinstance(st.targets[0], ast.Subscript) and isinstance(st.targets[0].slice, ast.Slice) \
                    and st.targets[0].slice.upper is None and st.targets[0].slice.step is None and st.targets[0].slice.lower is not None:
                tg = st.targets[0]
                out = []
                for q0, base in s.ev(tg.value, p):
                    if base[0] != 'list':
                        raise Unsupported('del statement at %s' % s.loc(st))
                    for q, u in s.ev(tg.slice.lower, q0):
                        if u[0] != 'lin':
                            raise Unsupported('del with a bound that is not a number at %s' % s.loc(st))
                        L = q.heap[base[1]]['len']
                        U = u[1]
                        s.note_taint(q, U, st, 'slice bound')
                        for cs, newlen, kind in (([ge(U, C(0)), le(U, L)], U, 'prefix'), ([ge(U, C(0)), gt(U, L)], L, 'all'),
                                                 ([lt(U, C(0)), ge(add(L, U), C(0))], add(L, U), 'drop'), ([lt(U, C(0)), lt(add(L, U), C(0))], C(0), 'dropall')):
                            r = q.clone()
                            r.assume(cs)
                            if not feasible(r.cons):
                                continue
                            removed = add(L, newlen, -1)
                            r.events.append(('DROPTRAIL', dict(L=L, removed=removed, R=r.gh.get('R'), kind=kind, where=s.loc(st), list=base[1], cons_len=len(r.cons))))
                            r.heap[base[1]]['len'] = newlen
                            if base[1] == s.current_frame_list(r) and r.gh.get('R') is not None:
                                r.gh['R'] = add(r.gh['R'], removed, -1)
                            out.append((r, None))
                return out
            raise Unsupported('del statement at %s' % s.loc(st))
        if isinstance(st, (ast.Import, ast.ImportFrom, ast.Global, ast.Nonlocal)):
            return [(p, None)]
        if isinstance(st, ast.Match):
            from .symex import Sym
            chain = Sym._match_as_if(None, st)
            if chain is not None:
                return s.stmt(chain, p)
        raise Unsupported('%s at %s: %s' % (type(st).__name__, s.loc(st), ast.unparse(st)[:70]))

    def _format_failure(s, exc, p):
        """the exception raised while the message of a raise statement is built: a str.format / % template (a literal, or a local whose
        value on this path is a known literal) asking for more arguments than the call gives.  None when the message builds."""
        import string

        def text_of(n):
            if isinstance(n, ast.Constant) and isinstance(n.value, str):
                return n.value
            if isinstance(n, ast.Name) and n.id in p.locs:
                v = p.locs[n.id]
                if isinstance(v, tuple) and len(v) == 2 and v[0] == 'opaque' and isinstance(v[1], str) and v[1][:1] in ('"', "'"):
                    try:
                        t = ast.literal_eval(v[1])
                    except Exception:
                        return None
                    return t if isinstance(t, str) else None
            return None
        for c in ast.walk(exc):
            if isinstance(c, ast.Call) and isinstance(c.func, ast.Attribute) and c.func.attr == 'format':
                t = text_of(c.func.value)
                if t is None or any(isinstance(a, ast.Starred) for a in c.args) or any(k.arg is None for k in c.keywords):
                    continue
                try:
                    fields = [f for _, f, _, _ in string.Formatter().parse(t) if f is not None]
                except ValueError:
                    return 'ValueError'
                auto = 0
                for f in fields:
                    head = f.split('.')[0].split('[')[0]
                    if head == '':
                        idx = auto
                        auto += 1
                    elif head.isdigit():
                        idx = int(head)
                    else:
                        if head not in {k.arg for k in c.keywords}:
                            return 'KeyError'
                        continue
                    if idx >= len(c.args):
                        return 'IndexError'
            if isinstance(c, ast.BinOp) and isinstance(c.op, ast.Mod):
                t = text_of(c.left)
                if t is None:
                    continue
                import re as _re
                specs = _re.findall(r'%(?!%)(\([^)]*\))?[#0\- +]*(\*|\d+)?(?:\.(\*|\d+))?[hlL]?[a-zA-Z]', t.replace('%%', ''))
                if any(sp[0] for sp in specs):
                    continue
                need = len(specs) + sum(1 for sp in specs for x in sp[1:] if x == '*')
                have = len(c.right.elts) if isinstance(c.right, ast.Tuple) else (1 if not isinstance(c.right, (ast.Name, ast.Attribute, ast.Call, ast.Subscript)) else None)
                if isinstance(c.right, ast.Tuple) and any(isinstance(e, ast.Starred) for e in c.right.elts):
                    have = None
                if have is not None and have != need:
                    return 'TypeError'
        return None

    def deliver(s, p, v, node):
        if v[0] == 'tuple' and len(v) == 3 and len(v[1]) == 3:
            lst, st, en = v[1]
            h = p.heap[lst[1]]
            tok = dict(id=v[2], where=s.loc(node), n=h['len'], P0=h['P0'], V1=h['V1'], s=st[1], e=en[1],
                       R=p.gh['R'], A=p.gh['A'], E=p.gh['E'], Fg=p.gh['Fg'], list=lst[1], taint=h['taint'],
                       reads=p.reads, inp=p.inp)
            for x in (st[1], en[1]):
                s.note_taint(p, x, node, 'delivered token position')
            p.events.append(('DELIVER', tok))
            p.gh['E'] = tok['e']
            return
        if v[0] == 'none':
            p.events.append(('YIELDNONE', dict(where=s.loc(node))))
            return
        p.events.append(('YIELDOTHER', dict(where=s.loc(node), value=str(v)[:80])))
        p.mark_imprecise('yield of a value that is not a (frames, start, end) token')


def _as_load(t):
    t2 = ast.parse(ast.unparse(t), mode='eval').body
    return ast.copy_location(t2, t)
