"""E8 -- keeps the checkers honest: seeded edits that must FIRE and behaviour-preserving twins that
must stay SILENT, applied to scratch copies of the current tree (never to /repo), each checked with
`./check <id> --repo <scratch>`.

usage: python -m sa.selftest [--only C07,C08] [--jobs 16] [--list]
Each variant is a list of exact-substring replacements (file, old, new); a variant whose anchor text is
no longer present is reported as STALE (the matrix needs maintenance), not as a pass.
"""
import argparse
import json
import os
import shutil
import subprocess
import sys
import tempfile
import time
from concurrent.futures import ThreadPoolExecutor

from .common import VERIF, DEFAULT_REPO
from .variants import VARIANTS


def run_variant(v, repo_root):
    tmp = tempfile.mkdtemp(prefix='verif.', dir='/var/tmp')
    try:
        shutil.copytree(os.path.join(repo_root, 'auditok'), os.path.join(tmp, 'auditok'))
        if os.path.isdir(os.path.join(repo_root, 'doc')):
            os.makedirs(os.path.join(tmp, 'doc'), exist_ok=True)
            for f in ('command_line_usage.rst',):
                src = os.path.join(repo_root, 'doc', f)
                if os.path.exists(src):
                    shutil.copy(src, os.path.join(tmp, 'doc', f))
        if v.get('patch'):
            pr = subprocess.run(['patch', '-p1', '-s', '-d', tmp, '-i', v['patch']], stdout=subprocess.PIPE, stderr=subprocess.STDOUT)
            if pr.returncode != 0:
                return dict(id=v['id'], status='STALE', detail='patch does not apply: %s' % pr.stdout.decode()[-200:])
        for rel, old, new in v['edits']:
            path = os.path.join(tmp, rel)
            with open(path) as fp:
                s = fp.read()
            if s.count(old) != 1:
                return dict(id=v['id'], status='STALE', detail='anchor text found %d times in %s' % (s.count(old), rel))
            with open(path, 'w') as fp:
                fp.write(s.replace(old, new))
        try:
            files = [os.path.join(tmp, rel) for rel, _, _ in v['edits']] or [os.path.join(tmp, 'auditok', f) for f in os.listdir(os.path.join(tmp, 'auditok')) if f.endswith('.py')]
            subprocess.check_output([sys.executable, '-m', 'py_compile'] + files, stderr=subprocess.STDOUT)
        except subprocess.CalledProcessError as exc:
            return dict(id=v['id'], status='STALE', detail='variant does not compile: %s' % exc.output.decode()[-200:])
        results = {}
        env = dict(os.environ, VERIF_REPLAY_DIR=os.path.join(tmp, 'replay'))
        for prop in v['props']:
            pr = subprocess.run([os.path.join(VERIF, 'check'), prop, '--repo', tmp], stdout=subprocess.PIPE, stderr=subprocess.STDOUT, env=env)
            out = pr.stdout.decode()
            rc = pr.returncode
            if rc == 1 and 'VIOLATION property=' not in out:
                rc = 2
            results[prop] = (rc, out)
        want = 1 if v['kind'] == 'fires' else 0
        if v['kind'] == 'fires':
            ok = any(rc == 1 for rc, _ in results.values())
            if ok and v.get('names'):
                ok = any(v['names'] in out for rc, out in results.values() if rc == 1)
        elif v['kind'] == 'tolerate':
            ok = all(rc != 1 for rc, _ in results.values())
        else:
            ok = all(rc == 0 for rc, _ in results.values())
        detail = {p: dict(exit=rc, tail=[l[:300] for l in out.strip().splitlines() if l.startswith(('VIOLATION', 'INCONCLUSIVE', 'ANALYSIS-ERROR')) or '[' in l[:160]][:6]) for p, (rc, out) in results.items()}
        return dict(id=v['id'], kind=v['kind'], props=v['props'], status=('OK' if ok else 'MISS' if v['kind'] == 'fires' else 'FALSE-ALARM'), inconclusive=[p for p, (rc, _) in results.items() if rc == 2], detail=detail)
    finally:
        shutil.rmtree(tmp, ignore_errors=True)


def seeded_variants():
    """the changes produced by independent sub-agents (kept under /verif/seeded): each must still be reported by the
    checks recorded in its meta.json"""
    out = []
    root = os.path.join(VERIF, 'seeded')
    if not os.path.isdir(root):
        return out
    for d in sorted(os.listdir(root)):
        mp = os.path.join(root, d, 'meta.json')
        pp = os.path.join(root, d, 'patch.diff')
        if os.path.exists(mp) and os.path.exists(pp):
            with open(mp) as fp:
                m = json.load(fp)
            det = m.get('detected_by') or []
            if not det:
                continue
            primary = m.get('breaks') if m.get('breaks') in det else det[0]
            props = [primary] + [p for p in det if p != primary]
            out.append(dict(id='seed:' + d, kind='fires', props=props, edits=[], patch=pp, what=m.get('needs_to_manifest', ''), names=None))
    return out


def refactoring_variants():
    """behaviour-preserving refactorings written by independent sub-agents (kept under /verif/refactorings): every check
    must stay silent (exit 0) or, at worst, answer INCONCLUSIVE (exit 2) on them -- never VIOLATION"""
    out = []
    root = os.path.join(VERIF, 'refactorings')
    if os.path.isdir(root):
        for f in sorted(os.listdir(root)):
            if f.endswith('.diff'):
                out.append(dict(id='refactoring:' + f[:-5], kind='tolerate', props=['C%02d' % i for i in range(1, 21)], edits=[], patch=os.path.join(root, f), what='independent behaviour-preserving refactoring'))
    return out


def run_for_property(prop, repo_root=DEFAULT_REPO, jobs=None):
    """the mutant/twin matrix restricted to one property (thorough tier): each variant is checked against that property only"""
    vs = []
    # the kept refactorings (several hundred, each a candidate false alarm for every property) are sampled here -- a third of them,
    # a different third for each property -- so that one thorough run stays within minutes; the full matrix is `python -m sa.selftest`
    refs = refactoring_variants()
    k = int(prop[1:]) % 3 if prop[1:].isdigit() else 0
    refs = [v for i, v in enumerate(refs) if i % 3 == k]
    for v in VARIANTS + seeded_variants() + refs:
        if prop in v['props']:
            v2 = dict(v)
            v2['props'] = [prop]
            # a 'fires' variant listed for several properties must fire for at least one of them; for the per-property
            # matrix it is only *expected* to fire here if this property is the first (primary) one listed
            v2['primary'] = (v['props'][0] == prop)
            vs.append(v2)
    jobs = jobs or min(12, os.cpu_count() or 4)
    with ThreadPoolExecutor(max_workers=jobs) as ex:
        res = list(ex.map(lambda v: run_variant(v, repo_root), vs))
    out = []
    for v, r in zip(vs, res):
        st = r['status']
        if st == 'MISS' and not v['primary']:
            st = 'not-primary'      # another property's check is the one expected to fire
        out.append(dict(id=r['id'], kind=v['kind'], status=st, what=v.get('what', '')))
    return out


def main(argv=None):
    ap = argparse.ArgumentParser()
    ap.add_argument('--only', default=None)
    ap.add_argument('--ids', default=None)
    ap.add_argument('--jobs', type=int, default=min(16, os.cpu_count() or 4))
    ap.add_argument('--repo', default=DEFAULT_REPO)
    ap.add_argument('--list', action='store_true')
    ap.add_argument('--json', default=None)
    ap.add_argument('-v', action='store_true')
    a = ap.parse_args(argv)
    vs = VARIANTS + seeded_variants() + refactoring_variants()
    if a.only:
        want = set(a.only.upper().split(','))
        vs = [v for v in vs if want & set(v['props'])]
    if a.ids:
        want = set(a.ids.split(','))
        vs = [v for v in vs if v['id'] in want]
    if a.list:
        for v in vs:
            print(v['id'], v['kind'], v['props'], v.get('what', ''))
        return 0
    t0 = time.time()
    with ThreadPoolExecutor(max_workers=a.jobs) as ex:
        res = list(ex.map(lambda v: run_variant(v, a.repo), vs))
    bad = 0
    for r in res:
        if r['status'] != 'OK' or a.v:
            print(r['id'], r['status'], json.dumps(r.get('detail'))[:900])
        if r['status'] != 'OK':
            bad += 1
    print('selftest: %d variants, %d ok, %d not ok, %.1fs' % (len(res), len(res) - bad, bad, time.time() - t0))
    if a.json:
        with open(a.json, 'w') as fp:
            json.dump(res, fp, indent=1)
    return 1 if bad else 0


if __name__ == '__main__':
    sys.exit(main())
