"""E6 -- effect analysis: which self fields / module globals / parameter objects a function may write,
transitively over resolved repo callees (purity, immutability, reset-completeness, who-may-write)."""
import ast

MUTATORS = {'append', 'extend', 'insert', 'pop', 'remove', 'clear', 'update', 'setdefault', 'sort', 'reverse', 'popitem',
            '__setitem__', '__delitem__', 'put', 'put_nowait', 'write', 'writeframes'}


class Effects:
    def __init__(s, model):
        s.m = model
        s._cache = {}

    def direct(s, mod, cls, fn):
        """-> set of ('self', field) | ('global', name) | ('param', name) | ('setattr', target)"""
        out = set()
        params = {a.arg for a in fn.args.posonlyargs + fn.args.args + fn.args.kwonlyargs}
        if fn.args.vararg:
            params.add(fn.args.vararg.arg)
        if fn.args.kwarg:
            params.add(fn.args.kwarg.arg)
        selfname = (fn.args.posonlyargs + fn.args.args)[0].arg if (cls is not None and (fn.args.posonlyargs + fn.args.args)) else None
        globs = set()
        for n in ast.walk(fn):
            if isinstance(n, ast.Global):
                globs |= set(n.names)

        def root(t):
            while isinstance(t, (ast.Attribute, ast.Subscript)):
                t = t.value
            return t

        def record_target(t, node):
            if isinstance(t, ast.Name):
                if t.id in globs:
                    out.add(('global', t.id, node.lineno))
                return
            if isinstance(t, (ast.Tuple, ast.List)):
                for e in t.elts:
                    record_target(e, node)
                return
            if isinstance(t, ast.Starred):
                record_target(t.value, node)
                return
            r = root(t)
            if isinstance(r, ast.Name):
                if r.id == selfname:
                    # self.f = ..., self.f[i] = ..., self.f.g = ...
                    cur = t
                    while isinstance(cur, (ast.Attribute, ast.Subscript)) and not (isinstance(cur, ast.Attribute) and isinstance(cur.value, ast.Name) and cur.value.id == selfname):
                        cur = cur.value
                    if isinstance(cur, ast.Attribute):
                        out.add(('self', cur.attr, node.lineno))
                elif r.id in params:
                    out.add(('param', r.id, node.lineno))
                elif r.id in s.m.mods.get(mod, {}).get('consts', {}) or r.id in globs:
                    out.add(('global', r.id, node.lineno))
        for n in ast.walk(fn):
            if isinstance(n, ast.Assign):
                for t in n.targets:
                    record_target(t, n)
            elif isinstance(n, (ast.AugAssign, ast.AnnAssign)):
                if not (isinstance(n, ast.AnnAssign) and n.value is None):
                    record_target(n.target, n)
            elif isinstance(n, ast.Delete):
                for t in n.targets:
                    record_target(t, n)
            elif isinstance(n, ast.Call):
                f = n.func
                if isinstance(f, ast.Attribute) and f.attr in MUTATORS:
                    r = root(f.value)
                    if isinstance(r, ast.Name):
                        if r.id == selfname and isinstance(f.value, (ast.Attribute, ast.Subscript)):
                            cur = f.value
                            while isinstance(cur, (ast.Attribute, ast.Subscript)) and not (isinstance(cur, ast.Attribute) and isinstance(cur.value, ast.Name) and cur.value.id == selfname):
                                cur = cur.value
                            if isinstance(cur, ast.Attribute):
                                out.add(('self', cur.attr, n.lineno))
                        elif r.id in params and r.id != selfname:
                            out.add(('param', r.id, n.lineno))
                        elif r.id in s.m.mods.get(mod, {}).get('consts', {}):
                            out.add(('global', r.id, n.lineno))
                # object.__setattr__(x, name, v) / setattr(x, ...)
                if (isinstance(f, ast.Attribute) and f.attr == '__setattr__') or (isinstance(f, ast.Name) and f.id == 'setattr'):
                    tgt = n.args[0] if n.args else None
                    nm = n.args[1] if len(n.args) > 1 else None
                    out.add(('setattr', ast.unparse(tgt) if tgt is not None else '?', nm.value if isinstance(nm, ast.Constant) else '?', n.lineno))
        return out

    def callees(s, mod, cls, fn):
        """resolved repo callees: list of (mod, cls|None, fn)"""
        out = []
        selfname = (fn.args.posonlyargs + fn.args.args)[0].arg if (cls is not None and (fn.args.posonlyargs + fn.args.args)) else None
        for n in ast.walk(fn):
            if not isinstance(n, ast.Call):
                continue
            f = n.func
            if isinstance(f, ast.Name):
                g = s.m.resolve_global(mod, f.id)
                lk = s.m.lookup(g)
                if lk and lk[0] == 'func':
                    out.append((g[1], None, lk[1]))
                elif lk and lk[0] == 'class':
                    for nm in ('__init__', '__post_init__'):
                        r = s.m.find_method(g[1], lk[1], nm)
                        if r:
                            out.append(r)
            elif isinstance(f, ast.Attribute):
                if isinstance(f.value, ast.Name) and f.value.id == selfname and cls is not None:
                    r = s.m.find_method(mod, cls, f.attr)
                    if r:
                        out.append(r)
                elif isinstance(f.value, ast.Name):
                    g = s.m.resolve_global(mod, f.value.id)
                    if g[0] == 'mod' and g[1] in s.m.mods:
                        g2 = s.m.resolve_global(g[1], f.attr)
                        lk = s.m.lookup(g2)
                        if lk and lk[0] == 'func':
                            out.append((g2[1], None, lk[1]))
                elif isinstance(f.value, ast.Call) and isinstance(f.value.func, ast.Name) and f.value.func.id == 'super' and cls is not None:
                    r = s.m.find_method(mod, cls, f.attr, skip_self=True)
                    if r:
                        out.append(r)
        return out

    def transitive(s, mod, cls, fn, depth=0, seen=None):
        """effects of fn and of everything it may call in the repo (self effects of callees on other objects are
        reported as ('callee-self', qualname, field))"""
        seen = seen if seen is not None else set()
        if id(fn) in seen or depth > 6:
            return set()
        seen.add(id(fn))
        out = set(s.direct(mod, cls, fn))
        for m2, c2, f2 in s.callees(mod, cls, fn):
            sub = s.transitive(m2, c2, f2, depth + 1, seen)
            same_obj = c2 is not None and cls is not None and any(x[1] is c2 for x in s.m.mro(mod, cls))
            for e in sub:
                if e[0] == 'self' and not same_obj:
                    out.add(('callee-self', '%s.%s' % (c2.name if c2 else m2, f2.name), e[1], e[2]))
                else:
                    out.add(e)
        return out
