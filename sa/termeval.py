"""Semantic comparison of provenance terms by randomised identity testing (DESIGN 1.4: "rules compare normalised
semantic objects, not text").  Two arithmetic terms over the same leaves are compared by evaluating both under
several random assignments of the leaves (integer-valued and fractional-valued trials); sub-terms the evaluator does
not interpret (attribute reads, calls of unknown functions, parameters) are the leaves, identified up to the
audio-parameter alias families.  This is evaluation of *terms extracted from the source*, never of auditok code.

equivalent(t1, t2) -> True (agree on every evaluable trial, at least MIN_OK of them) | False (differ on a trial)
                      | None (could not be evaluated often enough: the rule using it must answer INCONCLUSIVE)
"""
import math
import random

from .symex import ROLE_OF, term_name

MIN_OK = 6


class NotEvaluable(Exception):
    pass


class EvalRaises(NotEvaluable):
    """the term is evaluable at this point and evaluating it raises (division by zero): a decided fact about the expression"""


def _canon_leaf(t):
    """leaf identity up to alias families: x.sr == x.sampling_rate == x._sampling_rate"""
    if not isinstance(t, tuple):
        return t
    if t[0] == 'attr':
        return ('attr', _canon_leaf(t[1]), ROLE_OF.get(t[2], t[2]))
    if t[0] == 'call':
        return ('call', _canon_leaf(t[1]), tuple(_canon_leaf(a) for a in t[2]), tuple((k, _canon_leaf(v)) for k, v in t[3]))
    if t[0] in ('sub', 'bin', 'un', 'cmp', 'ite', 'tuple', 'list'):
        return (t[0],) + tuple(_canon_leaf(x) if isinstance(x, tuple) and x and isinstance(x[0], str) else (tuple(_canon_leaf(y) for y in x) if isinstance(x, tuple) else x) for x in t[1:])
    return t


FUNCS = {
    'int': lambda a: int(a), 'round': lambda a: round(a), 'floor': lambda a: math.floor(a), 'ceil': lambda a: math.ceil(a), 'trunc': lambda a: math.trunc(a),
    'abs': lambda a: abs(a), 'float': lambda a: float(a), 'bool': lambda a: bool(a),
    'isfinite': lambda a: math.isfinite(a), 'isnan': lambda a: math.isnan(a), 'isinf': lambda a: math.isinf(a),
}


STR_METHODS = {'isdigit', 'isnumeric', 'isdecimal', 'isalpha', 'lstrip', 'rstrip', 'strip', 'startswith', 'endswith', 'lower', 'upper', 'replace', 'removeprefix', 'removesuffix', 'split'}


class Evaluator:
    def __init__(s, rnd, mode, overrides=None):
        s.rnd = rnd
        s.mode = mode          # 'int' | 'frac' | 'neg'
        s.leaves = {}
        s.overrides = overrides or {}

    def leaf(s, t):
        k = _canon_leaf(t)
        if k in s.overrides:
            return s.overrides[k]
        # a derived field of self with a single definition (facts.self_field_exprs) is evaluated through that definition
        fields = getattr(s, 'fields', None)
        if fields and t[0] == 'attr' and t[1] == ('self',) and t[2] in fields and getattr(s, '_fdepth', 0) < 4:
            s._fdepth = getattr(s, '_fdepth', 0) + 1
            try:
                return s.ev(fields[t[2]])
            finally:
                s._fdepth -= 1
        if k not in s.leaves:
            if s.mode == 'int':
                v = s.rnd.randint(1, 60)
            elif s.mode == 'neg':
                v = s.rnd.randint(-60, 60)
            else:
                v = s.rnd.randint(0, 40) + s.rnd.choice([0.5, 0.25, 0.75, 0.1, 0.9, 0.499, 0.501])
            s.leaves[k] = v
        return s.leaves[k]

    def ev(s, t):
        k = t[0]
        if k in ('call', 'bin', 'sub') and s.overrides:
            kk0 = _canon_leaf(t)
            if kk0 in s.overrides:
                return s.overrides[kk0]          # the point fixes the value of this very term (a size, a read result ...)
        if k == 'b' and len(t) == 2 and t[1] in ('int', 'float', 'str', 'bytes', 'bool', 'tuple', 'slice'):
            return {'int': int, 'float': float, 'str': str, 'bytes': bytes, 'bool': bool, 'tuple': tuple, 'slice': slice}[t[1]]      # the type object itself
        if k == 'c':
            if isinstance(t[1], (int, float)) and not isinstance(t[1], bool):
                return t[1]
            if t[1] is None or isinstance(t[1], (bool, str, bytes)):
                return t[1]
            raise NotEvaluable(t)
        if k == 'attr':
            kk = _canon_leaf(t)
            if kk in s.overrides:
                return s.overrides[kk]
            # attribute of a value the assignment fixes to a Python object (a slice given for an `index` parameter ...)
            bk = _canon_leaf(t[1])
            if bk in s.overrides and not isinstance(s.overrides[bk], (int, float, str, bytes, bool, type(None))):
                try:
                    return getattr(s.overrides[bk], t[2])
                except AttributeError as exc:
                    raise NotEvaluable(exc)
            return s.leaf(t)
        if k == 'g':
            from . import pat as _pat
            r_ = _pat._resolve_const(t)            # a module-level number constant is that number
            if r_[0] == 'c':
                return r_[1]
            if _pat.MODEL is not None:
                # a module-level table bound once to a literal (dict / tuple / set / list of literals) is that table
                lk = _pat.MODEL.lookup(t)
                if lk and lk[0] == 'const' and not _pat.MODEL.reassigned(t[1], t[2]):
                    import ast as _ast
                    try:
                        lit = _ast.literal_eval(lk[1])
                    except (ValueError, TypeError, SyntaxError, MemoryError, RecursionError):
                        lit = None
                    if isinstance(lit, (dict, tuple, frozenset, set, list)):
                        return tuple(lit) if isinstance(lit, list) else lit
            return s.leaf(t)
        if k in ('p', 'lp', 'loopvar', 'elem', 'self'):
            return s.leaf(t)
        if k == 'bin':
            a, b = s.ev(t[2]), s.ev(t[3])
            op = t[1]
            try:
                if op == '+':
                    return a + b
                if op == '-':
                    return a - b
                if op == '*':
                    return a * b
                if op == '/':
                    return a / b
                if op == '//':
                    return a // b
                if op == '%':
                    return a % b
                if op == '**':
                    return a ** b
            except ZeroDivisionError as exc:
                if isinstance(a, (int, float)) and isinstance(b, (int, float)):
                    raise EvalRaises('ZeroDivisionError: %s' % exc)
                raise NotEvaluable(exc)
            except (TypeError, OverflowError) as exc:
                raise NotEvaluable(exc)
            raise NotEvaluable(op)
        if k == 'un':
            return -s.ev(t[2])
        if k == 'call':
            name = term_name(t[1]).split('.')[-1]
            if t[3]:
                return s.leaf(t)
            if name in FUNCS and len(t[2]) == 1:
                try:
                    return FUNCS[name](s.ev(t[2][0]))
                except OverflowError as exc:
                    raise EvalRaises('OverflowError: %s' % exc)          # float(10**400), math.isfinite(10**400): the code itself raises here
                except (TypeError, ValueError) as exc:
                    raise NotEvaluable(exc)
            if t[1][0] == 'b' and name in ('any', 'all', 'sum', 'tuple', 'list', 'max', 'min') and len(t[2]) == 1 and t[2][0][0] in ('gen', 'listcomp') and len(t[2][0][2]) == 1:
                # a comprehension over a sequence the point fixes: evaluated element by element
                g = t[2][0]
                var, it, conds = g[2][0]
                if not var.isidentifier():
                    raise NotEvaluable('comprehension target %s' % var)
                seq = s.ev(it)
                if not isinstance(seq, (tuple, list)):
                    raise NotEvaluable('comprehension over a non-sequence')
                vals = []
                key = ('lp', var)
                saved = s.overrides.get(key, s)
                try:
                    for x in seq:
                        s.overrides[key] = x
                        if all(s.ev(c) for c in conds):
                            vals.append(s.ev(g[1]))
                finally:
                    if saved is s:
                        s.overrides.pop(key, None)
                    else:
                        s.overrides[key] = saved
                try:
                    return {'any': any, 'all': all, 'sum': sum, 'tuple': tuple, 'list': tuple, 'max': max, 'min': min}[name](vals)
                except (TypeError, ValueError) as exc:
                    raise NotEvaluable(exc)
            if t[1][0] == 'attr' and name in STR_METHODS and not t[3]:
                # a pure method of a string the point fixes ("12".isdigit(), "-1".lstrip("-"))
                try:
                    recv = s.ev(t[1][1])
                except NotEvaluable:
                    recv = None
                if isinstance(recv, str):
                    try:
                        return getattr(recv, name)(*[s.ev(a) for a in t[2]])
                    except (TypeError, ValueError) as exc:
                        raise NotEvaluable(exc)
                if recv is None or isinstance(recv, (int, float, bytes)):
                    raise NotEvaluable('%s of %r' % (name, recv))
            if t[1][0] == 'attr' and name == 'get' and not t[3] and 1 <= len(t[2]) <= 2 and t[1][1][0] == 'g':
                # lookup in a module-level literal table
                try:
                    recv = s.ev(t[1][1])
                except NotEvaluable:
                    recv = None
                if isinstance(recv, dict):
                    try:
                        return recv.get(*[s.ev(a) for a in t[2]])
                    except TypeError as exc:
                        raise NotEvaluable(exc)
            if name == 'isinstance' and len(t[2]) == 2 and t[1] == ('b', 'isinstance'):
                TYPES = {'int': int, 'float': float, 'slice': slice, 'str': str, 'bytes': bytes, 'bool': bool}
                tt = t[2][1]
                tts = tt[1] if tt[0] in ('tuple', 'list') else (tt,)
                if all(x[0] == 'b' and x[1] in TYPES for x in tts):
                    return isinstance(s.ev(t[2][0]), tuple(TYPES[x[1]] for x in tts))
                return s.leaf(t)
            if name == 'type' and t[1] == ('b', 'type') and len(t[2]) == 1 and not t[3]:
                v_ = s.ev(t[2][0])
                if type(v_) in (int, float, str, bytes, bool, type(None), tuple, slice):
                    return type(v_)               # compared with the builtin type names below (type(x) is str)
                raise NotEvaluable(t)
            if name == 'slice' and t[1] == ('b', 'slice') and 1 <= len(t[2]) <= 3:
                return slice(*[s.ev(a) for a in t[2]])
            if name == 'len' and t[1] == ('b', 'len') and len(t[2]) == 1 and _canon_leaf(t) not in s.overrides:
                a0 = t[2][0]
                try:
                    inner = s.ev(a0) if (a0[0] in ('tuple', 'list', 'c', 'sub', 'bin') or _canon_leaf(a0) in s.overrides) else None
                except NotEvaluable:
                    inner = None
                if isinstance(inner, (tuple, list, str, bytes)):
                    return len(inner)
                return s.leaf(t)
            if name in ('min', 'max') and len(t[2]) >= 2:
                vals = [s.ev(a) for a in t[2]]
                try:
                    return min(vals) if name == 'min' else max(vals)
                except TypeError as exc:
                    raise NotEvaluable(exc)
            if name == 'gmtime' and len(t[2]) == 1 and term_name(t[1]) in ('time.gmtime',):
                import time as _time
                try:
                    return tuple(_time.gmtime(s.ev(t[2][0])))      # pure stdlib function of a number (not auditok code)
                except (TypeError, ValueError, OverflowError, OSError) as exc:
                    raise NotEvaluable(exc)
            if name in ('decode', 'encode') and term_name(t[1]) in ('codecs.decode', 'codecs.encode') and 1 <= len(t[2]) <= 3:
                import codecs as _codecs
                try:
                    return getattr(_codecs, name)(*[s.ev(a) for a in t[2]])      # pure stdlib function of a string / bytes value (not auditok code)
                except (TypeError, ValueError, LookupError, UnicodeError) as exc:
                    raise NotEvaluable(exc)
            if name == 'splitext' and len(t[2]) == 1 and term_name(t[1]) in ('os.path.splitext', 'posixpath.splitext', 'ntpath.splitext'):
                import os as _os
                try:
                    return tuple(_os.path.splitext(s.ev(t[2][0])))      # pure stdlib function of a path string (not auditok code)
                except (TypeError, ValueError) as exc:
                    raise NotEvaluable(exc)
            if name == 'divmod' and len(t[2]) == 2:
                try:
                    return divmod(s.ev(t[2][0]), s.ev(t[2][1]))
                except (TypeError, ZeroDivisionError) as exc:
                    raise NotEvaluable(exc)
            return s.leaf(t)
        if k == 'sub':
            base = t[1]
            # indexing / slicing of something the point fixes to a Python sequence (bytes of a buffer, a tuple)
            bk = _canon_leaf(base)
            if bk in s.overrides and isinstance(s.overrides[bk], (bytes, tuple, list, str)):
                seq = s.overrides[bk]
                idx = t[2]
                try:
                    if idx[0] == 'slice':
                        lo = s.ev(idx[1]) if idx[1] is not None else None
                        hi = s.ev(idx[2]) if idx[2] is not None else None
                        st = s.ev(idx[3]) if len(idx) > 3 and idx[3] is not None else None
                        return seq[lo:hi:st]
                    return seq[s.ev(idx)]
                except (IndexError, TypeError, ValueError) as exc:
                    raise NotEvaluable(exc)
            # indexing / slicing of a value that evaluates to a tuple (divmod, gmtime, literal tuples, slices of those)
            if base[0] in ('tuple', 'list') or (base[0] == 'call' and term_name(base[1]).split('.')[-1] in ('divmod', 'gmtime', 'splitext')) or base[0] == 'sub':
                try:
                    bv = s.ev(base) if base[0] not in ('tuple', 'list') else tuple(s.ev(x) for x in base[1])
                except NotEvaluable:
                    bv = None
                if isinstance(bv, str):
                    idx = t[2]
                    try:
                        if idx[0] == 'slice':
                            lo = s.ev(idx[1]) if idx[1] is not None else None
                            hi = s.ev(idx[2]) if idx[2] is not None else None
                            return bv[lo:hi]
                        return bv[s.ev(idx)]
                    except (IndexError, TypeError) as exc:
                        raise NotEvaluable(exc)
                if isinstance(bv, tuple):
                    idx = t[2]
                    try:
                        if idx[0] == 'c' and isinstance(idx[1], int):
                            return bv[idx[1]]
                        if idx[0] == 'slice':
                            lo = s.ev(idx[1]) if idx[1] is not None else None
                            hi = s.ev(idx[2]) if idx[2] is not None else None
                            return tuple(bv[lo:hi])
                    except (IndexError, TypeError) as exc:
                        raise NotEvaluable(exc)
            return s.leaf(t)
        if k in ('tuple', 'list') and len(t) == 2:
            return tuple(s.ev(x) for x in t[1])
        if k == 'ite':
            c = s.ev(t[1])
            return s.ev(t[2]) if c else s.ev(t[3])
        if k == 'cmp':
            a, b = s.ev(t[2]), s.ev(t[3])
            op = t[1]
            same = lambda: a is b or (type(a) == type(b) and a == b) or (isinstance(a, (int, float)) and isinstance(b, (int, float)) and not isinstance(a, bool) and not isinstance(b, bool) and a == b)
            try:
                fn = {'<': lambda: a < b, '<=': lambda: a <= b, '>': lambda: a > b, '>=': lambda: a >= b, '==': lambda: a == b, '!=': lambda: a != b,
                      'is': same, 'is not': lambda: not same(), 'in': lambda: a in b, 'not in': lambda: a not in b}[op]
                return fn()
            except (TypeError, KeyError) as exc:
                raise NotEvaluable(exc)
        if k == 'not':
            return not s.ev(t[1])
        if k in ('and', 'or'):
            v = None
            for x in t[1]:                 # left to right, stopping at the deciding operand as Python does
                v = s.ev(x)
                if (k == 'and' and not v) or (k == 'or' and v):
                    return v
            return v
        return s.leaf(t)


def equivalent(t1, t2, trials=30, seed=1, modes=('int', 'frac', 'neg'), overrides=None, conds=None):
    rnd = random.Random(seed)
    ok = 0
    dropped = False
    if conds:
        trials = trials * 8          # only the trials that satisfy the path conditions count
    for i in range(trials):
        mode = modes[i % len(modes)]
        st = rnd.getstate()
        e1 = Evaluator(random.Random(rnd.random()), mode, overrides)
        try:
            v1 = e1.ev(t1)
            e2 = Evaluator(random.Random(0), mode, overrides)
            e2.leaves = e1.leaves            # same assignment; new leaves of t2 get fresh values
            v2 = e2.ev(t2)
            if conds:
                sat = True
                for ct, tr in conds:
                    try:
                        cv = bool(e2.ev(ct))
                    except NotEvaluable:
                        dropped = True           # a condition outside the evaluator (a call result tested) is left out:
                        continue                 # agreement under fewer conditions is still agreement; a difference is then undecided
                    if cv != tr:
                        sat = False
                        break
                if not sat:
                    continue
        except NotEvaluable:
            continue
        if isinstance(v1, float) or isinstance(v2, float):
            same = (isinstance(v1, (int, float)) and isinstance(v2, (int, float)) and abs(v1 - v2) <= 1e-9 * max(1.0, abs(v1), abs(v2)))
        else:
            same = (v1 == v2 and type(v1) == type(v2)) or (isinstance(v1, (int, bool)) and isinstance(v2, (int, bool)) and v1 == v2)
        if not same:
            return None if dropped else False
        ok += 1
    return True if ok >= MIN_OK else None


def evaluate(t, assignment, mode='int', seed=3):
    """(value, other leaves met) of a term under a partial assignment {term: value}; other leaves get random values"""
    e = Evaluator(random.Random(seed), mode, {_canon_leaf(k): v for k, v in assignment.items()})
    v = e.ev(t)
    return v, list(e.leaves)
