"""./check <PROPERTY> [--tier quick|thorough] [--repo PATH] [--explain FILE]"""
import argparse
import importlib
import json
import os
import sys
import traceback

from .common import Repo, Report, AnalysisError, DEFAULT_REPO


def thorough_matrix(prop, repo_root, rep):
    """thorough tier = the quick verdict on the tree + the self-validation matrix of this property: seeded edits that must
    FIRE and behaviour-preserving twins that must stay SILENT, each on a scratch copy of the CURRENT tree.  The matrix only
    qualifies the checker (recorded in the evidence, printed as WARN); the exit code is the verdict on the tree itself."""
    from .selftest import run_for_property
    res = run_for_property(prop, repo_root)
    fires = [r for r in res if r['kind'] == 'fires']
    silent = [r for r in res if r['kind'] in ('silent', 'tolerate')]
    bad = [r for r in res if r['status'] in ('MISS', 'FALSE-ALARM', 'STALE')]
    for r in bad:
        print('WARN self-validation: variant %s (%s) -> %s' % (r['id'], r['kind'], r['status']))
    rep.extra['self_validation'] = dict(
        seeded_edits=len(fires), fired=sum(1 for r in fires if r['status'] == 'OK'), fired_by_another_property=sum(1 for r in fires if r['status'] == 'not-primary'),
        twins=len(silent), silent=sum(1 for r in silent if r['status'] == 'OK'), not_ok=[(r['id'], r['status']) for r in bad],
        variants=[dict(id=r['id'], kind=r['kind'], status=r['status']) for r in res])
    print('self-validation: %d seeded edits (%d fired here, %d belong to another property), %d twins (%d silent), %d not ok'
          % (len(fires), sum(1 for r in fires if r['status'] == 'OK'), sum(1 for r in fires if r['status'] == 'not-primary'), len(silent), sum(1 for r in silent if r['status'] == 'OK'), len(bad)))


def main(argv=None):
    ap = argparse.ArgumentParser()
    ap.add_argument('prop')
    ap.add_argument('--tier', default=os.environ.get('VERIF_TIER', 'quick'))
    ap.add_argument('--repo', default=os.environ.get('VERIF_REPO', DEFAULT_REPO))
    ap.add_argument('--explain', default=None)
    ap.add_argument('--replay', default=None)
    a = ap.parse_args(argv)
    prop = a.prop.upper()
    if a.tier not in ('quick', 'thorough'):
        a.tier = 'quick'
    if a.explain or a.replay:
        with open(a.explain or a.replay) as fp:
            print(json.dumps(json.load(fp), indent=1))
        print('--- re-running the rule on the current tree ---')
    try:
        mod = importlib.import_module('sa.props.%s' % prop.lower())
    except ImportError as exc:
        print('ANALYSIS-ERROR: no checker for %s (%s)' % (prop, exc))
        return 2
    except Exception:
        traceback.print_exc()
        print('ANALYSIS-ERROR: checker for %s could not be loaded' % prop)
        return 2
    try:
        repo = Repo(a.repo)
        rep = Report(prop, a.tier, a.repo, level=getattr(mod, 'LEVEL', 'other'))
        mod.check(repo, rep)
        if a.tier == 'thorough':
            if hasattr(mod, 'thorough'):
                mod.thorough(repo, rep)
            thorough_matrix(prop, a.repo, rep)
        return rep.finish()
    except AnalysisError as exc:
        # what was decided before the analysis stopped stays decided: violations already recorded are reported (exit 1);
        # with none recorded the answer is "could not analyse" (exit 2)
        if rep.violations:
            rep.unknown('the analysis stopped early: %s' % exc)
            return rep.finish()
        print('ANALYSIS-ERROR: %s' % exc)
        return 2
    except Exception as exc:
        traceback.print_exc()
        if 'rep' in locals() and rep.violations:
            rep.unknown('internal error of the analyser after the violations below were decided: %s: %s' % (type(exc).__name__, exc))
            return rep.finish()
        print('ANALYSIS-ERROR: internal error of the analyser (see traceback)')
        return 2


if __name__ == '__main__':
    sys.exit(main())
