"""./check <PROPERTY> [--tier quick|thorough] [--repo PATH] [--explain FILE]"""
import argparse
import importlib
import json
import os
import sys
import traceback

from .common import Repo, Report, AnalysisError, DEFAULT_REPO


def main(argv=None):
    ap = argparse.ArgumentParser()
    ap.add_argument('prop')
    ap.add_argument('--tier', default=os.environ.get('VERIF_TIER', 'quick'))
    ap.add_argument('--repo', default=os.environ.get('VERIF_REPO', DEFAULT_REPO))
    ap.add_argument('--explain', default=None)
    ap.add_argument('--replay', default=None)
    a = ap.parse_args(argv)
    prop = a.prop.upper()
    if a.tier not in ('quick', 'thorough'):
        a.tier = 'quick'
    if a.explain or a.replay:
        with open(a.explain or a.replay) as fp:
            print(json.dumps(json.load(fp), indent=1))
        print('--- re-running the rule on the current tree ---')
    try:
        mod = importlib.import_module('sa.props.%s' % prop.lower())
    except ImportError as exc:
        print('ANALYSIS-ERROR: no checker for %s (%s)' % (prop, exc))
        return 2
    except Exception:
        traceback.print_exc()
        print('ANALYSIS-ERROR: checker for %s could not be loaded' % prop)
        return 2
    try:
        repo = Repo(a.repo)
        rep = Report(prop, a.tier, a.repo, level=getattr(mod, 'LEVEL', 'other'))
        mod.check(repo, rep)
        if a.tier == 'thorough' and hasattr(mod, 'thorough'):
            mod.thorough(repo, rep)
        return rep.finish()
    except AnalysisError as exc:
        print('ANALYSIS-ERROR: %s' % exc)
        return 2
    except Exception:
        traceback.print_exc()
        print('ANALYSIS-ERROR: internal error of the analyser (see traceback)')
        return 2


if __name__ == '__main__':
    sys.exit(main())
