"""C14 -- stopping at any moment yields a consistent prefix and a clean shutdown (DESIGN 4.14)"""
import ast

from ..facts import Ctx, norm_cmp, exc_name
from ..symex import show, walk, term_name
from ..tokrun import feed
from .. import pat as P
from .c12 import Protocol, MOD, check_stop_marker
from .c13 import drain_facts

LEVEL = 'other'
SELF = P.Pat(lambda t: t == ('self',), 'self')


def find_poll(cx, pr, tk):
    """the stop poll = the self method whose result decides the first branch of TokenizerWorker.read; fallback: a
    one-argument method of the hierarchy that looks into the inbox"""
    rd = cx.model.find_method(MOD, tk, 'read')
    if rd is not None:
        for l in cx.leaves_dyn(rd):
            for ct, tr, _ in l.conds:
                t = ct
                if t[0] == 'not':
                    t = t[1]
                if t[0] == 'call' and t[1][0] == 'attr' and t[1][1] == ('self',) and not t[2]:
                    r = cx.model.find_method(MOD, tk, t[1][2])
                    if r and any(isinstance(x, ast.Attribute) and x.attr in pr.inbox for x in ast.walk(r[2])):
                        return r
    for m, c in cx.model.mro(MOD, tk):
        for n in c.body:
            if isinstance(n, ast.FunctionDef) and n.name not in ('run', '_get_message', '_post_process', 'send') and any(isinstance(x, ast.Attribute) and x.attr in ('get_nowait', 'get') for x in ast.walk(n)) and len(n.args.args) == 1:
                return (m, c, n)
    return None



def expanded_calls(cx, mod, stmts, depth=3, _seen=None):
    """the Call nodes of a statement list in source order, with calls of the module's own plain functions followed by the calls
    of their bodies (helpers extracted from a handler or a guarded region still count)"""
    out = []
    seen = _seen or set()

    class V(ast.NodeVisitor):
        def visit_Call(self, n):
            self.generic_visit(n)
            out.append(n)
            if isinstance(n.func, ast.Name) and depth > 0 and n.func.id not in seen:
                hf = cx.fn(mod, n.func.id, required=False)
                if hf is not None:
                    out.extend(expanded_calls(cx, getattr(hf, '_home', mod), hf.body, depth - 1, seen | {n.func.id}))
            elif isinstance(n.func, ast.Attribute) and depth > 0 and isinstance(n.func.value, ast.Call) and isinstance(n.func.value.func, ast.Name):
                # Helper(...).method(...): a method of a class of the package called on a fresh instance
                hc = cx.cls(mod, n.func.value.func.id, required=False)
                key_ = '%s.%s' % (n.func.value.func.id, n.func.attr)
                if hc is not None and key_ not in seen:
                    r_ = cx.model.find_method(getattr(hc, '_home', mod), hc, n.func.attr)
                    if r_ is not None:
                        out.extend(expanded_calls(cx, r_[0], r_[2].body, depth - 1, seen | {key_}))

        def visit_FunctionDef(self, n):
            return

        def visit_Lambda(self, n):
            return
    v = V()
    for st in stmts:
        v.visit(st)
    return out

def check_tokenizer_read(cx, pr, rep, tk, poll):
    # ---------------------------------------------------------------- T1 read(): the poll dominates the read
    rd = cx.model.find_method(MOD, tk, 'read')
    ispoll = lambda t: t == ('call', ('attr', ('self',), poll[2].name), (), ())
    nstop = ngo = 0
    for l in cx.leaves_dyn(rd):
        polls = [i for i, e in enumerate(l.effects) if e[0] == 'call' and ispoll(e[1])]
        reads = [i for i, e in enumerate(l.effects) if e[0] == 'call' and e[1][0] == 'call' and e[1][1][0] == 'attr' and e[1][1][2] == 'read' and e[1][1][1] != ('self',)]
        pc = [c for c in l.conds if ispoll(c[0])]
        where = cx.where(rd[0], l.node if l.node is not None else rd[2])
        rep.ob('tokenizer.read(): a stop request is polled on every call', len(polls) >= 1 and bool(pc), where, 'TokenizerWorker.read:no-poll')
        if not pc:
            continue
        if pc[0][1]:
            nstop += 1
            rep.ob('tokenizer.read(): once a stop is requested it returns end-of-stream (None) WITHOUT pulling another block (a block read here would be saved but never tokenized)',
                   l.outcome == 'return' and l.value == ('c', None) and not reads, where, 'TokenizerWorker.read[stop]', 'returns %s after %d inner reads' % (show(l.value) if l.value else None, len(reads)),
                   sample=dict(stop_requested=True, inner_reads=len(reads), returns=show(l.value) if l.value else None))
        else:
            ngo += 1
            ok = len(reads) == 1 and l.outcome == 'return' and l.value == l.effects[reads[0]][1] and polls[0] < reads[0]
            rep.ob('tokenizer.read(): otherwise the poll precedes exactly one inner read whose block is returned unchanged', ok, where, 'TokenizerWorker.read[go]', 'polls at %s, reads at %s, returns %s' % (polls, reads, show(l.value)[:60] if l.value else None),
                   sample=dict(stop_requested=False, inner_reads=len(reads)))
    rep.floor('TokenizerWorker.read stop/go paths', min(nstop, ngo), 1)


def check(repo, rep):
    cx = Ctx(repo)
    rep.cx = cx
    pr = Protocol(cx, rep)
    if len(pr.inbox) != 1 or pr.stop is None:
        rep.unknown('worker protocol roles not identified')
        return
    check_stop_marker(cx, rep, pr)
    tk = pr.tok
    W = lambda n: cx.where(MOD, n)
    # ---------------------------------------------------------------- T2 the stop poll never blocks and recognises the stop marker
    poll = find_poll(cx, pr, tk)
    if poll is None:
        rep.unknown('no non-blocking stop poll found in the tokenizer worker hierarchy')
        return
    pl = cx.leaves_dyn(poll)
    sawT = sawE = False
    for l in pl:
        gets = [e for e in l.effects if e[0] == 'call' and pr.is_inbox_call(e[1], ('get', 'get_nowait'))]
        exc = [e for e in l.effects if e[0] == 'except']
        for g in gets:
            t_ = g[1]
            nonblock = t_[1][2] == 'get_nowait' or (t_[1][2] == 'get' and (t_[2][:1] == (('c', False),) or dict(t_[3]).get('block') == ('c', False)))      # get(False) / get(block=False) is get_nowait()
            rep.ob('the stop poll never blocks (get_nowait on the worker\'s own inbox)', nonblock, cx.where(poll[0], g[3]), '%s.%s:blocking' % (poll[1].name, poll[2].name), 'the poll calls %s' % show(t_)[:60])
        if exc:
            sawE = True
            falsy = l.value in (('c', False), ('c', None), None) or l.outcome == 'fall'
            rep.ob('an empty inbox means "no stop requested" (falsy)', term_name(exc[0][1]).endswith('Empty') and falsy, cx.where(poll[0], poll[2]), '%s.%s:empty' % (poll[1].name, poll[2].name), 'returns %s' % (show(l.value) if l.value else None))
            continue
        if not gets:
            continue
        msg = gets[0][1]
        # the message polled is given its two kinds (the stop marker, anything else) and taken through the path's conditions; the value
        # returned on the path is evaluated for that kind: truthy for the marker, falsy for the rest
        from ..semantic import evaluator, Undecided
        from ..termeval import NotEvaluable
        try:
            for kind, val in (('stop', 'STOP-MARKER'), ('other', (5, 'a-region'))):
                a_ = {msg: val}
                if pr.stop is not None:
                    a_[pr.stop] = 'STOP-MARKER'
                ok_ = True
                for ct, tr, _ in l.conds:
                    if not any(x == msg for x in walk(ct)):
                        continue
                    ev_ = evaluator(a_)
                    got = ev_.ev(ct)
                    if ev_.leaves:
                        raise Undecided('condition %s' % show(ct)[:60])
                    if bool(got) != tr:
                        ok_ = False
                        break
                if not ok_:
                    continue
                if l.outcome == 'return' and l.value is not None:
                    ev_ = evaluator(a_)
                    rv = ev_.ev(l.value)
                    if ev_.leaves:
                        raise Undecided('returned value %s' % show(l.value)[:60])
                else:
                    rv = None
                if kind == 'stop':
                    sawT = True
                    rep.ob('a queued stop marker makes the poll truthy', bool(rv), cx.where(poll[0], poll[2]), '%s.%s:stop' % (poll[1].name, poll[2].name), 'returns %s, i.e. %r for the stop marker' % (show(l.value) if l.value else None, rv),
                           sample=dict(poll='STOP queued', returns=show(l.value) if l.value else None))
                else:
                    rep.ob('anything else leaves the poll falsy', not rv, cx.where(poll[0], poll[2]), '%s.%s:other' % (poll[1].name, poll[2].name), 'returns %s, i.e. %r for a data message' % (show(l.value) if l.value else None, rv))
        except (Undecided, NotEvaluable) as exc:
            rep.unknown('%s.%s: the poll could not be evaluated (%s)' % (poll[1].name, poll[2].name, exc))
    rep.ob('the stop poll distinguishes a queued stop marker from an empty inbox', sawT and sawE, cx.where(poll[0], poll[2]), '%s.%s:cases' % (poll[1].name, poll[2].name))
    check_tokenizer_read(cx, pr, rep, tk, poll)
    # ---------------------------------------------------------------- T3 stop_all: tokenizer first, then observers and reader
    sa_ = cx.model.find_method(MOD, tk, 'stop_all')
    tdefs = cx.field_defs(MOD, 'TokenizerWorker')
    obs_f = [f for f, ds in tdefs.items() if any(any(x == ('p', 'observers') for x in walk(d['value'])) for d in ds)]
    rdr_f = [f for f, ds in tdefs.items() if any(d['value'] == ('p', 'reader') for d in ds)]
    looped = 0
    for l in cx.leaves_dyn(sa_):
        cs = [(i, e[1]) for i, e in enumerate(l.effects) if e[0] == 'call']
        selfstop = [i for i, c in cs if c == ('call', ('attr', ('self',), 'stop'), (), ())]
        ins = [(i, e) for i, e in enumerate(l.effects) if e[0] == 'loop-enter']
        obstop = []
        for i, e in ins:
            it = e[1]
            if it[0] == 'attr' and it[1] == ('self',) and it[2] in obs_f:
                looped += 1
                obstop = [j for j, c in cs if c == ('call', ('attr', ('elem', it), 'stop'), (), ())]
                rep.ob('stop_all stops EVERY observer (unconditionally)', len(obstop) == 1 and not l.conds, cx.where(sa_[0], sa_[2]), 'TokenizerWorker.stop_all:observers', 'observer stops at %s' % obstop)
        rclose = [i for i, c in cs if c[0] == 'call' and c[1][0] == 'attr' and c[1][2] == 'close' and c[1][1][0] == 'attr' and c[1][1][1] == ('self',) and c[1][1][2] in rdr_f]
        ok = len(selfstop) == 1 and all(selfstop[0] < j for j in obstop + rclose)
        rep.ob('stop_all stops and joins the tokenizer FIRST (an observer stopped earlier would miss the flushed last detection; a reader closed earlier would be read by a live tokenizer)', ok,
               cx.where(sa_[0], sa_[2]), 'TokenizerWorker.stop_all:order', 'tokenizer stop at %s, observer stops at %s, reader close at %s' % (selfstop, obstop, rclose),
               sample=dict(stop_all=['self.stop()'] + ['observer.stop()'] * bool(obstop) + ['reader.close()'] * bool(rclose)))
        rep.ob('stop_all closes the reader (which stops the stream saver)', len(rclose) == 1, cx.where(sa_[0], sa_[2]), 'TokenizerWorker.stop_all:reader-close')
    if not looped and any(any(x[0] == 'attr' and x[1] == ('self',) and x[2] in obs_f for x in walk(e[1])) and any(y[0] in ('gen', 'listcomp') or (y[0] == 'call' and term_name(y[1]).split('.')[-1] in ('map', 'filter')) for y in walk(e[1]))
                          for l in cx.leaves_dyn(sa_) for e in l.effects if e[0] in ('call', 'eval')):
        rep.unknown('TokenizerWorker.stop_all: the observers are walked by map() / a comprehension, not by a loop statement; what is called on each of them is not followed')
    else:
        rep.ob('stop_all stops the observers (a loop over the observer list exists)', looped >= 1, cx.where(sa_[0], sa_[2]), 'TokenizerWorker.stop_all:no-observer-loop')
    # stop = send(STOP) then join  (F7 of C12)
    st = cx.model.find_method(MOD, cx.cls(MOD, 'Worker'), 'stop')
    for l in cx.leaves_dyn(st):
        names = [e[1][1][2] for e in l.effects if e[0] == 'call' and e[1][0] == 'call' and e[1][1][0] == 'attr' and e[1][1][1] == ('self',)]
        jcs = [e[1] for e in l.effects if e[0] == 'call' and e[1][0] == 'call' and e[1][1] == ('attr', ('self',), 'join')]
        rep.ob('stop() joins without a time limit: when stop_all returns, the tokenizer has really stopped (nothing is read, flushed or delivered afterwards)', bool(jcs) and all(not j[2] and not j[3] for j in jcs),
               cx.where(st[0], st[2]), 'Worker.stop:bounded-join', 'join calls %s' % [show(j) for j in jcs])
        rep.ob('stop() = send(stop marker) then join()', 'send' in names and 'join' in names and names.index('send') < names.index('join'), cx.where(st[0], st[2]), 'Worker.stop', 'calls %s' % names)
    # ---------------------------------------------------------------- T4 saver close
    sc = cx.cls(MOD, 'StreamSaverWorker')
    cl = cx.model.find_method(MOD, sc, 'close')
    for l in cx.leaves_dyn(cl):
        cs = [e[1] for e in l.effects if e[0] == 'call']
        rclose = any(c[0] == 'call' and c[1][0] == 'attr' and c[1][2] == 'close' and c[1][1][0] == 'attr' and c[1][1][1] == ('self',) for c in cs)
        sstop = any(c == ('call', ('attr', ('self',), 'stop'), (), ()) for c in cs)
        rep.ob('saver.close() closes the wrapped reader and stops (stop marker + join) its writer thread', rclose and sstop and not l.conds, cx.where(cl[0], cl[2]), 'StreamSaverWorker.close', 'calls %s' % [show(c)[:40] for c in cs],
               sample=dict(saver_close=[show(c)[:40] for c in cs]))
    # ---------------------------------------------------------------- T5 saver shutdown (valid wav with exactly the blocks read): drain, flush, close
    from . import c13
    sub = type(rep)(rep.prop, rep.tier, rep.repo_root, rep.level)
    c13.check(repo, sub)
    for o in sub.obligations:
        if 'saver' in o['rule'].lower() or 'flush' in o['rule'] or 'writer:' in o['rule']:
            rep.obligations.append(o)
    for v in sub.violations:
        if 'StreamSaverWorker' in v['construct']:
            rep.violations.append(v)
    # ---------------------------------------------------------------- T5b the saved file survives the worker: the temporary file is removed only
    # when it is a DIFFERENT file from the output (for wav output they are the same file)
    from ..semantic import deep_leaves as _dl14, evaluator as _ev14, Undecided as _Und14
    from ..termeval import NotEvaluable as _NE14
    ac = cx.cls(MOD, 'AudioDataSaverWorker', required=False)
    dd = cx.model.find_method(MOD, ac, '__del__') if ac is not None else None
    if dd is not None:
        TMP, OUT = ('attr', ('self',), '_tmp_output_filename'), ('attr', ('self',), '_output_filename')
        try:
            nrm = 0
            for l in _dl14(cx, dd[0], ac, dd[2]):
                rms = [e for e in l.effects if e[0] == 'call' and e[1][0] == 'call' and term_name(e[1][1]) in ('os.remove', 'os.unlink') and e[1][2] and e[1][2][0] == TMP]
                if not rms:
                    continue
                nrm += 1
                # can this path be taken when the temporary file IS the output file?
                takeable = True
                for ct, tr, _ in l.conds[:rms[0][4]]:
                    if not any(x in (TMP, OUT) for x in walk(ct)):
                        continue
                    try:
                        e_ = _ev14({TMP: 'rec.wave', OUT: 'rec.wave', ('attr', ('self',), '_exported'): True})
                        got = e_.ev(ct)
                    except _NE14:
                        continue
                    if e_.leaves:
                        continue
                    if bool(got) != tr:
                        takeable = False
                        break
                rep.ob('the saver deletes its temporary file only when that is not the exported file itself', not takeable, cx.where(dd[0], rms[0][3]), 'AudioDataSaverWorker.__del__:removes-output',
                       'os.remove(self._tmp_output_filename) is reachable with _tmp_output_filename == _output_filename', sample=dict(method='__del__', removes='_tmp_output_filename'))
            rep.floor('temporary-file removals examined', nrm, 1)
        except _Und14 as exc:
            rep.unknown('AudioDataSaverWorker.__del__: %s' % exc)
    # ---------------------------------------------------------------- T6 the CLI interrupt handler
    mfn = cx.fn('cmdline', 'main')
    handlers = []
    for n in ast.walk(mfn):
        if isinstance(n, ast.Try):
            for h in n.handlers:
                names = []
                if isinstance(h.type, ast.Tuple):
                    names = [ast.unparse(e) for e in h.type.elts]
                elif h.type is not None:
                    names = [ast.unparse(h.type)]
                if 'KeyboardInterrupt' in names:
                    handlers.append((n, h, names))
    rep.ob('main() has a handler for KeyboardInterrupt', len(handlers) >= 1, cx.where('cmdline', mfn), 'cmdline.main:no-interrupt-handler')
    for tr_, h, names in handlers:
        rep.ob('the handler covers both Ctrl-C and the normal end of processing', 'EndOfProcessing' in names, cx.where('cmdline', h), 'cmdline.main:handler-types', 'handles %s' % names)
        hcalls = expanded_calls(cx, 'cmdline', h.body)
        calls = [n for n in hcalls if isinstance(n.func, ast.Attribute) and n.func.attr == 'stop_all']
        rep.ob('the interrupt handler calls stop_all() on the tokenizer worker', len(calls) >= 1, cx.where('cmdline', h), 'cmdline.main:handler-stop_all')
        body_calls = [ast.unparse(n.func) for n in expanded_calls(cx, 'cmdline', tr_.body)]
        rep.ob('the guarded region covers start_all() and the wait loop', any(c.endswith('start_all') for c in body_calls) and any(c.endswith('sleep') for c in body_calls), cx.where('cmdline', tr_), 'cmdline.main:try-coverage')
        # the saver is joined before its file is exported (order of the calls with the module's helpers expanded in place)
        joins = [i for i, n in enumerate(hcalls) if isinstance(n.func, ast.Attribute) and n.func.attr == 'join']
        exports = [i for i, n in enumerate(hcalls) if isinstance(n.func, ast.Attribute) and n.func.attr == 'export_audio']
        if exports:
            rep.ob('the saved stream is exported only after its writer thread was joined', bool(joins) and min(joins) < min(exports), cx.where('cmdline', h), 'cmdline.main:join-before-export')
    # ---------------------------------------------------------------- T7 on end-of-stream the tokenizer flushes the open event: the detections are those of the prefix read
    d = feed(rep, repo, 'C04', 'c04')
    rep.explanation = ('Decided by path enumeration: the stop poll uses get_nowait on the worker\'s own inbox, truthy exactly for a queued stop marker; TokenizerWorker.read polls on every call, and on a stop returns None '
                       'WITHOUT pulling another block (so no block is saved that was never tokenized), otherwise poll -> one inner read -> returned unchanged; stop_all: tokenizer stop (send marker, join) strictly before '
                       'every observer.stop() and reader.close(), all of them happen; saver.close() closes the reader and stops the writer; saver shutdown drains without blocking, flushes, then closes (valid wav with '
                       'exactly the forwarded blocks, C13 facts); cmdline.main: the (KeyboardInterrupt, EndOfProcessing) handler calls stop_all(), the try covers start_all() and the wait loop, the saver is joined before '
                       'export. End-of-stream semantics of the tokenizer (the open event is flushed, detections equal those of the prefix read) are the C04 obligations, re-fed here. '
                       'NOT decided: crash points and schedules are not enumerated; the argument from these facts is in DESIGN 4.14.')
    rep.assumptions = ['queue.Queue / Thread.join semantics', 'C12, C13', 'an interrupt during initialisation (before the workers exist) is outside the property\'s quantifier (observation O1)']
    rep.trusted_base = ["the analyser's path evaluator and, for the re-fed C04 obligations, its Fourier-Motzkin core"]
