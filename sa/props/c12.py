"""C12 -- every observer gets every detection exactly once, in order; all threads end (DESIGN 4.12, B.6)"""
import ast

from ..facts import Ctx, norm_cmp, exc_name
from ..symex import show, walk, term_name, bind_call
from .. import pat as P

LEVEL = 'other'
SELF = P.Pat(lambda t: t == ('self',), 'self')
MOD = 'workers'


class Protocol:
    """roles of the worker design discovered from the source (DESIGN 1.2): inbox field, stop marker, message hook"""

    def __init__(s, cx, rep):
        s.cx = cx
        s.worker = cx.cls(MOD, 'Worker')
        s.tok = cx.cls(MOD, 'TokenizerWorker')
        wd = cx.field_defs(MOD, 'Worker')
        s.inbox = [f for f, ds in wd.items() if any(d['value'][0] == 'call' and term_name(d['value'][1]).endswith('Queue') for d in ds)]
        s.inbox_defs = {f: wd[f] for f in s.inbox}
        # stop marker: the module constant Worker.run compares messages with
        s.stop = None
        for l in cx.leaves(MOD, 'Worker.run'):
            for ct, tr, _ in l.conds:
                if ct[0] == 'cmp' and ct[1] in ('==', 'is') and ct[3][0] == 'g' and ct[3][1] == MOD:
                    s.stop = ct[3]
        if s.stop is None:
            # the marker is what stop() sends
            stm = cx.model.find_method(MOD, s.worker, 'stop')
            if stm is not None:
                for l in cx.leaves_dyn(stm):
                    for e in l.effects:
                        if e[0] == 'call' and e[1][0] == 'call' and e[1][1][0] == 'attr' and e[1][1][1] == ('self',) and len(e[1][2]) == 1 and e[1][2][0][0] == 'g' and e[1][2][0][1] == MOD:
                            s.stop = e[1][2][0]
        s.isstop = lambda t: s.stop is not None and t == s.stop

    def is_inbox_call(s, t, names):
        return t[0] == 'call' and t[1][0] == 'attr' and t[1][2] in names and t[1][1][0] == 'attr' and t[1][1][1] == ('self',) and t[1][1][2] in s.inbox

    def message_terms(s, leaf):
        """terms standing for the message obtained in a leaf of a run loop"""
        out = []
        for e in leaf.effects:
            if e[0] == 'call' and e[1][0] == 'call' and e[1][1][0] == 'attr' and e[1][1][1] == ('self',) and e[1][1][2] in ('_get_message',):
                out.append(e[1])
            if e[0] == 'call' and s.is_inbox_call(e[1], ('get', 'get_nowait')):
                out.append(e[1])
        return out


def check_stop_marker(cx, rep, pr):
    """the stop marker travels through the same inbox as the data (audio blocks = bytes for the stream saver, (id, region) tuples
    for the observers) and is told apart with == / !=: it must be a value no data message can equal"""
    if pr.stop is None:
        return
    lk = cx.model.lookup(pr.stop)
    if not lk or lk[0] != 'const':
        rep.unknown('stop marker %s: definition not found' % show(pr.stop))
        return
    v = lk[1]
    kind = None
    if isinstance(v, ast.Constant):
        kind = type(v.value).__name__
    elif isinstance(v, ast.Tuple):
        kind = 'tuple'
    elif isinstance(v, ast.Call) and isinstance(v.func, ast.Name):
        kind = {'bytes': 'bytes', 'bytearray': 'bytearray', 'tuple': 'tuple', 'object': 'object', 'str': 'str'}.get(v.func.id)
    if kind is None:
        rep.unknown('stop marker %s = %s: kind of value not recognised' % (pr.stop[2], ast.unparse(v)[:60]))
        return
    rep.ob('the stop marker is a value no data message (bytes block, (id, region) tuple) can equal', kind not in ('bytes', 'bytearray', 'tuple', 'NoneType'), cx.where(pr.stop[1], v), '%s:kind' % pr.stop[2],
           'the stop marker %s is a %s value, which an audio block / a detection message can equal' % (pr.stop[2], kind), sample=dict(stop_marker=pr.stop[2], kind=kind))


def check_split_kwargs(cx, rep, tk=None, tdefs=None, genf=None):
    """the tokenizer worker hands split() the keywords it was given, all of them: split() reads its own options (min_dur ...
    use_channel, validator) from that dictionary and ignores the rest, so a worker that filters it changes the detections
    (C12: equal to split(); C15: -u and the other options reach split)"""
    W = lambda n: cx.where(MOD, n)
    if tk is None:
        tk = cx.cls(MOD, 'TokenizerWorker')
        tdefs = cx.field_defs(MOD, 'TokenizerWorker')
        genf = [f for f, ds in tdefs.items() if any(d['value'][0] == 'call' and d['value'][1] == ('g', 'core', 'split') for d in ds)]
    tin = cx.model.find_method(MOD, tk, '__init__')
    kwp = tin[2].args.kwarg.arg if tin is not None and tin[2].args.kwarg else None
    # split() resolves every option as kwargs.get(long, kwargs.get(short, default)): an entry the worker ADDS under a long name makes
    # the caller's short alias invisible; an entry it removes is lost
    LONG_WITH_ALIAS = ('energy_threshold', 'analysis_window', 'use_channel', 'validator', 'sampling_rate', 'sample_width', 'channels', 'audio_format', 'max_read', 'large_file')
    if tin is not None and kwp is not None:
        for l in cx.leaves_dyn(tin):
            for e in l.effects:
                t = e[1] if e[0] == 'call' else None
                recv_ = t[1][1] if t is not None and t[0] == 'call' and t[1][0] == 'attr' else None
                while recv_ is not None and recv_[0] == 'upd':
                    recv_ = recv_[1]
                if recv_ == ('p', kwp) and t[1][2] in ('setdefault', 'pop', 'popitem', 'clear', 'update', '__delitem__', '__setitem__'):
                    m_ = t[1][2]
                    keys_ = [a[1] for a in t[2][:1] if a[0] == 'c'] + [k_ for k_, _ in t[3] if m_ == 'update'] + ([kv[0][1] for kv in t[2][0][1] if kv[0][0] == 'c'] if m_ == 'update' and t[2] and t[2][0][0] == 'dict' else [])
                    bad_ = m_ in ('pop', 'popitem', 'clear', '__delitem__') or any(k_ in LONG_WITH_ALIAS for k_ in keys_)
                    rep.ob('F5: the worker neither removes an option from the keywords it hands to split() nor pre-sets one that has a short alias', not bad_, cx.where(MOD, e[3]), 'TokenizerWorker.__init__:kwargs-%s' % m_,
                           'kwargs.%s(%s) before split(**kwargs)' % (m_, ', '.join(map(repr, keys_))))
    if tin is not None and kwp is not None:
        # a comprehension that re-builds the keywords and keeps an entry only when its VALUE is truthy drops legitimate zero values
        # (max_silence=0, energy_threshold=0, use_channel=0): split() then falls back to its defaults
        for n in ast.walk(tin[2]):
            if not isinstance(n, ast.DictComp):
                continue
            reads_kw = lambda x: ((isinstance(x, ast.Subscript) and isinstance(x.value, ast.Name) and x.value.id == kwp)
                                  or (isinstance(x, ast.Call) and isinstance(x.func, ast.Attribute) and x.func.attr == 'get' and isinstance(x.func.value, ast.Name) and x.func.value.id == kwp and len(x.args) == 1))
            if not reads_kw(n.value):
                continue
            for g in n.generators:
                for t in g.ifs:
                    t_ = t.args[0] if isinstance(t, ast.Call) and isinstance(t.func, ast.Name) and t.func.id == 'bool' and len(t.args) == 1 else t
                    if reads_kw(t_):
                        rep.ob('F5: an option given with the value 0 reaches split() (the keywords are not filtered on the truth value of their values)', False, cx.where(MOD, t),
                               'TokenizerWorker.__init__:kwargs-truthy-filter', 'entries kept only if %s' % ast.unparse(t))
    for f in genf:
        for d in tdefs[f]:
            kws = dict(d['value'][3])
            if kwp is None or '**' not in kws:
                rep.unknown('TokenizerWorker.__init__: split() is not called with a ** dictionary (%s)' % show(d['value'])[:80])
                continue
            base_ = kws['**']
            while base_[0] == 'upd' or (base_[0] == 'call' and base_[1] == ('b', 'dict') and len(base_[2]) == 1):
                # kwargs[k] = v before the call, or dict(kwargs, k=v): only adds an entry (input = the worker itself)
                base_ = base_[1] if base_[0] == 'upd' else base_[2][0]
            rep.ob('F5: split() receives the worker\'s keyword arguments unfiltered (**kwargs as given to the constructor)', base_ == ('p', kwp), W(d['node']), 'TokenizerWorker.__init__:split-kwargs',
                   'split() is given **%s' % show(kws['**'])[:100], sample=dict(split_kwargs=show(kws['**'])[:60]))


def worker_subclasses(cx):
    w = cx.cls(MOD, 'Worker')
    return [(m, c) for m, c in cx.model.subclasses(MOD, w)]


def check(repo, rep):
    cx = Ctx(repo)
    rep.cx = cx
    pr = Protocol(cx, rep)
    W = lambda n: cx.where(MOD, n)
    wcls = pr.worker
    # ---------------------------------------------------------------- F1 unbounded FIFO inbox, assigned once
    rep.ob('F1: each worker has one inbox field assigned queue.Queue()', len(pr.inbox) == 1, W(wcls), 'Worker:inbox', 'inbox candidates %s' % pr.inbox)
    if len(pr.inbox) != 1 or pr.stop is None:
        rep.unknown('worker protocol roles not identified (inbox %s, stop marker %s)' % (pr.inbox, pr.stop))
        return
    inbox = pr.inbox[0]
    check_stop_marker(cx, rep, pr)
    for d in pr.inbox_defs[inbox]:
        v = d['value']
        ok = term_name(v[1]) in ('queue.Queue',) and not v[2] and not v[3]
        rep.ob('F1: the inbox is an unbounded queue.Queue (no maxsize): put never blocks, FIFO', ok, W(d['node']), 'Worker.%s:definition' % inbox, 'inbox is %s' % show(v)[:80], sample=dict(inbox=inbox, definition=show(v)))
        rep.ob('F1: the inbox is created in the constructor only', d['method'] == '__init__', W(d['node']), 'Worker.%s:assigned-in-%s' % (inbox, d['method']))
    stores_elsewhere = []
    for m, c in worker_subclasses(cx):
        for f, ds in cx.field_defs(m, c.name).items():
            if f == inbox:
                stores_elsewhere += [(c.name, d) for d in ds]
    rep.ob('F1: no subclass re-assigns the inbox', not stores_elsewhere, W(wcls), 'Worker.%s:reassigned' % inbox, 'reassigned in %s' % [x[0] for x in stores_elsewhere])
    # ---------------------------------------------------------------- F2 inbox discipline
    nacc = 0
    wnames = {c.name for _, c in worker_subclasses(cx)} | {c_.name for _m, c_ in cx.model.mro(MOD, wcls)}       # the worker classes and the package base classes Worker is built from
    for mod, tree in repo.trees.items():
        for n in ast.walk(tree):
            if isinstance(n, ast.Attribute) and n.attr == inbox:
                nacc += 1
                p = n
                cl = fn = None
                while getattr(p, '_parent', None) is not None:
                    p = p._parent
                    if isinstance(p, ast.ClassDef) and cl is None:
                        cl = p
                    if isinstance(p, ast.FunctionDef) and fn is None:
                        fn = p
                onself = isinstance(n.value, ast.Name) and n.value.id == 'self' and cl is not None and cl.name in wnames
                rep.ob('F2: a worker\'s inbox is touched only by the worker itself (self.%s inside Worker classes)' % inbox, onself, cx.where(mod, n), '%s.%s:foreign-inbox-access' % (cl.name if cl else mod, fn.name if fn else '?'))
                par = getattr(n, '_parent', None)
                if isinstance(n.ctx, ast.Load):
                    if isinstance(par, ast.Attribute) and isinstance(getattr(par, '_parent', None), ast.Call) and par._parent.func is par:
                        meth = par.attr
                        call = par._parent
                        rep.ob('F2: the inbox is used only through put / get / get_nowait', meth in ('put', 'get', 'get_nowait', 'put_nowait', 'empty', 'qsize'), cx.where(mod, n), '%s.%s:inbox-method-%s' % (cl.name if cl else mod, fn.name if fn else '?', meth))
                        if meth == 'get':
                            kws = {k.arg: k.value for k in call.keywords}
                            nonblocking = ('timeout' in kws and not (isinstance(kws['timeout'], ast.Constant) and kws['timeout'].value is None)) or \
                                ('block' in kws and isinstance(kws['block'], ast.Constant) and kws['block'].value is False) or (len(call.args) >= 2) or \
                                (len(call.args) == 1 and isinstance(call.args[0], ast.Constant) and call.args[0].value is False)          # get(False)
                            rep.ob('F2: every blocking get carries a timeout (a worker can always notice its stop marker)', nonblocking, cx.where(mod, n), '%s.%s:get-without-timeout' % (cl.name if cl else mod, fn.name if fn else '?'))
                    elif isinstance(par, ast.Assign) and len(par.targets) == 1 and isinstance(par.targets[0], ast.Name) and par.value is n and fn is not None:
                        # inbox = self._inbox : a local alias inside the worker's own method; every use of the alias must be one of the
                        # allowed method calls (a blocking get with a timeout), and the alias itself must go nowhere else
                        nm_ = par.targets[0].id
                        uses_ = [u for u in ast.walk(fn) if isinstance(u, ast.Name) and u.id == nm_ and isinstance(u.ctx, ast.Load)]
                        okall = True
                        for u in uses_:
                            up = getattr(u, '_parent', None)
                            if not (isinstance(up, ast.Attribute) and isinstance(getattr(up, '_parent', None), ast.Call) and up._parent.func is up and up.attr in ('put', 'get', 'get_nowait', 'put_nowait', 'empty', 'qsize')):
                                okall = False
                                continue
                            if up.attr == 'get':
                                c_ = up._parent
                                kws_ = {k.arg: k.value for k in c_.keywords}
                                nb_ = ('timeout' in kws_ and not (isinstance(kws_['timeout'], ast.Constant) and kws_['timeout'].value is None)) or \
                                    ('block' in kws_ and isinstance(kws_['block'], ast.Constant) and kws_['block'].value is False) or len(c_.args) >= 2 or \
                                    (len(c_.args) == 1 and isinstance(c_.args[0], ast.Constant) and c_.args[0].value is False)
                                rep.ob('F2: every blocking get carries a timeout (a worker can always notice its stop marker)', nb_, cx.where(mod, u), '%s.%s:get-without-timeout' % (cl.name if cl else mod, fn.name))
                        rep.ob('F2: the inbox object does not escape', okall, cx.where(mod, n), '%s.%s:inbox-escapes' % (cl.name if cl else mod, fn.name if fn else '?'), 'the local alias %s of the inbox is used other than through put / get / get_nowait' % nm_)
                    elif isinstance(par, ast.Attribute) and par.attr in ('put', 'get_nowait', 'put_nowait') and isinstance(getattr(par, '_parent', None), ast.Assign) \
                            and all(isinstance(t_, ast.Name) for t_ in par._parent.targets):
                        # local = self._inbox.get_nowait : a bound method of the queue kept in a local of the worker's own method (a hoisted
                        # lookup); the queue itself goes nowhere and these methods never block
                        rep.ob('F2: the inbox is used only through put / get / get_nowait', True, cx.where(mod, n))
                    elif isinstance(par, ast.Attribute) and par.attr == 'get' and isinstance(getattr(par, '_parent', None), ast.Assign):
                        rep.unknown('%s.%s: the blocking get of the inbox is bound to a local; whether every call of it carries a timeout is not followed' % (cl.name if cl else mod, fn.name if fn else '?'))
                    else:
                        rep.ob('F2: the inbox object does not escape', False, cx.where(mod, n), '%s.%s:inbox-escapes' % (cl.name if cl else mod, fn.name if fn else '?'))
    rep.floor('inbox accesses', nacc, 4)
    # ---------------------------------------------------------------- F4 _get_message
    gm = cx.model.find_method(MOD, wcls, '_get_message')
    if gm is None:
        rep.unknown('Worker._get_message not found')
    else:
        for l in cx.leaves_dyn(gm):
            if l.outcome != 'return':
                continue
            exc = [e for e in l.effects if e[0] == 'except']
            if exc:
                rep.ob('F4: a queue timeout (Empty) is reported as None', l.value == ('c', None) and term_name(exc[0][1]).endswith('Empty'), cx.where(gm[0], l.node), 'Worker._get_message:timeout', 'returns %s on %s' % (show(l.value), show(exc[0][1])))
            else:
                ok = pr.is_inbox_call(l.value, ('get',))
                rep.ob('F4: a received message is returned unchanged', ok, cx.where(gm[0], l.node), 'Worker._get_message:returns', 'returns %s' % show(l.value)[:80], sample=dict(function='_get_message', returns=show(l.value)[:70]))
    # ---------------------------------------------------------------- F3 the worker loop
    # decided semantically: the message taken from the inbox is given each of its three kinds (the stop marker, None = timeout, a data
    # message) and taken through the path conditions of run(); whatever the loop looks like (break / return in a helper / walrus /
    # a predicate function), the path a kind takes must do what the protocol says
    from ..semantic import evaluator, Undecided
    from ..termeval import NotEvaluable
    run = cx.model.find_method(MOD, wcls, 'run')
    rl = cx.leaves_dyn(run)
    hook = None
    where = cx.where(run[0], run[2])
    STOPVAL = 'STOP-MARKER'
    DATAVAL = (7, 'a-region')
    taken = dict(stop=[], none=[], data=[])
    undecided = None
    getter_iter = any(e[0] in ('loop-enter', 'loop-skip') and e[1] is not None and any(x == ('attr', ('self',), '_get_message') or (x[0] == 'attr' and x[1] == ('self',) and x[2] in pr.inbox) for x in walk(e[1]))
                      for l in rl for e in l.effects)
    if getter_iter:
        # the loop runs over an iterator built FROM the message getter (iter(self._get_message, STOP), filter(...)): the messages are
        # taken inside that iterator, one per step, which the path evaluator does not follow
        rep.unknown('Worker.run: the loop iterates over an iterator built from the message getter; the per-message cases are not followed')
        undecided = 'iterator over the message getter'
        rl = []
    for l in rl:
        msgs = pr.message_terms(l)
        if len({id(e[3]) for e in l.effects if e[0] == 'call' and e[1] in msgs}) != 1:
            gm_name = '_get_message'
            if not msgs and any(e[0] == 'loop-enter' and any(x == ('attr', ('self',), gm_name) or (x[0] == 'attr' and x[1] == ('self',) and x[2] in pr.inbox) for x in walk(e[1])) for e in l.effects):
                # the loop runs over an iterator built FROM the message getter (iter(self._get_message, STOP), filter(...)): the messages
                # are taken inside that iterator, one per step, which the path evaluator does not follow
                rep.unknown('Worker.run: the loop iterates over an iterator built from the message getter; the per-message cases are not followed')
                undecided = undecided or 'iterator over the message getter'
                continue
            if any(e[0] == 'loop-enter' for e in l.effects) or not msgs:
                rep.ob('F3: one message is taken per loop iteration', False, where, 'Worker.run:messages-per-iteration', '%d message reads on a path' % len(msgs))
            continue
        msg = msgs[0]
        for kind, val in (('stop', STOPVAL), ('none', None), ('data', DATAVAL)):
            a_ = {msg: val}
            if pr.stop is not None:
                a_[pr.stop] = STOPVAL
            ok_ = True
            try:
                for ct, tr, _ in l.conds:
                    if not any(x == msg for x in walk(ct)):
                        continue
                    ev_ = evaluator(a_)
                    got = ev_.ev(ct)
                    if ev_.leaves:
                        raise Undecided('condition %s depends on %s' % (show(ct)[:50], [show(k)[:30] for k in ev_.leaves][:2]))
                    if bool(got) != tr:
                        ok_ = False
                        break
            except (Undecided, NotEvaluable) as exc:
                undecided = str(exc)
                ok_ = False
            if ok_:
                taken[kind].append((l, msg))
    if undecided:
        rep.unknown('Worker.run: a condition on the message could not be evaluated (%s)' % undecided)
    else:
        for kind, label in (('stop', 'STOP'), ('none', 'NONE'), ('data', 'DATA')):
            if not taken[kind]:
                rep.ob('F3: the worker loop has a %s case' % kind, False, where, 'Worker.run:missing-%s-case' % kind)
                continue
            rep.ob('F3: the worker loop has a %s case' % kind, True, where)
            for l, msg in taken[kind]:
                proc = [e for e in l.effects if e[0] == 'call' and e[1][0] == 'call' and e[1][1][0] == 'attr' and e[1][1][1] == ('self',) and e[1][2] == (msg,)]
                post = [e for e in l.effects if e[0] == 'call' and e[1][0] == 'call' and e[1][1][0] == 'attr' and e[1][1][1] == ('self',) and not e[1][2] and e[1] != msg and e[1][1][2] != '_get_message']
                if kind == 'stop':
                    ok = l.outcome in ('fall', 'return') and not proc
                    rep.ob('F3: the stop marker ends the loop (and is not processed as a detection)', bool(ok), where, 'Worker.run[STOP]', 'outcome %s, processed %s' % (l.outcome, [show(p[1])[:40] for p in proc]))
                    iget = max(i for i, e in enumerate(l.effects) if e[0] == 'call' and e[1] == msg)
                    after = [e for e in post if l.effects.index(e) > iget]
                    rep.ob('F3: after the stop marker the worker runs its post-processing hook once and terminates', len(after) == 1, where, 'Worker.run[STOP]:post-process', 'calls after the stop marker was read: %s' % [show(e[1])[:40] for e in after],
                           sample=dict(message='STOP', trace=['get', 'leave loop'] + [show(e[1]) for e in after]))
                elif kind == 'data':
                    ok = len(proc) == 1 and l.outcome == 'loop-back'
                    rep.ob('F3: a data message is processed exactly once and the loop continues', ok, where, 'Worker.run[DATA]', 'process calls %s, outcome %s' % ([show(p[1])[:50] for p in proc], l.outcome),
                           sample=dict(message='DATA', trace=['get'] + [show(p[1])[:50] for p in proc] + ['continue']))
                    if len(proc) == 1:
                        hook = proc[0][1][1][2]
                else:
                    ok = not proc and l.outcome == 'loop-back'
                    rep.ob('F3: a queue timeout (None) neither processes nor ends the loop -- the worker keeps waiting', ok, where, 'Worker.run[NONE]', 'process calls %s, outcome %s' % ([show(p[1])[:50] for p in proc], l.outcome),
                           sample=dict(message='NONE (timeout)', trace=['get', 'continue']))
    # ---------------------------------------------------------------- F5 tokenizer worker
    tk = pr.tok
    trun = cx.model.find_method(MOD, tk, 'run')
    tdefs = cx.field_defs(MOD, 'TokenizerWorker')
    genf = [f for f, ds in tdefs.items() if any(d['value'][0] == 'call' and d['value'][1] == ('g', 'core', 'split') for d in ds)]
    rep.ob('F5: the detections come from split(**kwargs) created once in the constructor', len(genf) == 1, W(tk), 'TokenizerWorker:generator-field', 'candidates %s' % genf)
    check_split_kwargs(cx, rep, tk, tdefs, genf)
    if len(genf) == 1:
        d = tdefs[genf[0]][0]
        v = d['value']
        star = dict(v[3]).get('**')
        okin = False
        cur = star
        while cur is not None and (cur[0] == 'upd' or (cur[0] == 'call' and cur[1] == ('b', 'dict') and len(cur[2]) == 1)):
            if cur[0] == 'upd':
                if cur[2] == ('c', 'input') and cur[3] == ('self',):
                    okin = True
                cur = cur[1]
            else:
                if dict(cur[3]).get('input') == ('self',):            # dict(kwargs, input=self)
                    okin = True
                cur = cur[2][0]
        if dict(v[3]).get('input') == ('self',):                       # split(input=self, **kwargs)
            okin = True
        rep.ob('F5: the tokenizer worker itself is the input of split() (so that read() can inject the stop)', okin and not v[2], W(d['node']), 'TokenizerWorker.__init__:split-input', 'split call %s' % show(v)[:120])
    obs_f = [f for f, ds in tdefs.items() if any(any(x == ('p', 'observers') for x in walk(d['value'])) for d in ds)]
    det_f = [f for f, ds in tdefs.items() if any(d['method'] == '__init__' and d['value'] == ('list', ()) for d in ds)]
    # the worker keeps the caller's list of observers -- the very object, which the caller may still extend before start_all() (there is
    # no add_observer()): a default list only when NONE was given.  `observers or []` replaces an explicitly empty list by a private one
    for f in obs_f:
        for d in tdefs[f]:
            v_ = d['value']
            if v_[0] in ('or', 'and') and any(x == ('p', 'observers') for x in v_[1]) and any(x[0] in ('list', 'tuple') or (x[0] == 'call' and x[1] in (('b', 'list'), ('b', 'tuple'))) for x in v_[1]):
                rep.ob('F6: the worker keeps the list of observers it was given (a default only when none was given, not when it is empty)', False, W(d['node']), 'TokenizerWorker.__init__:observers-or-default',
                       'observers field %s is %s: an empty list given by the caller is replaced by a private one' % (f, show(v_)[:80]))
            elif (v_[0] == 'call' and v_[1] in (('b', 'list'), ('b', 'tuple')) and any(x == ('p', 'observers') for x in walk(v_))) or v_[0] in ('listcomp', 'gen'):
                rep.ob('F6: the worker keeps the list of observers it was given (a default only when none was given, not when it is empty)', False, W(d['node']), 'TokenizerWorker.__init__:observers-copied',
                       'observers field %s is %s: a copy, observers added to the caller\'s list before start_all() are not notified' % (f, show(v_)[:80]))
    notify = None
    tl = cx.leaves_dyn(trun)
    ntr = 0
    for l in tl:
        ntr += 1
        evs = l.effects
        calls = [(i, e[1]) for i, e in enumerate(evs) if e[0] == 'call']
        nots = [(i, c) for i, c in calls if c[0] == 'call' and c[1][0] == 'attr' and c[1][1] == ('self',) and len(c[2]) == 1 and (pr.isstop(c[2][0]) or c[2][0][0] == 'tuple')]
        stops = [(i, c) for i, c in nots if pr.isstop(c[2][0])]
        datas = [(i, c) for i, c in nots if c[2][0][0] == 'tuple']
        where = cx.where(trun[0], trun[2])
        opens = [i for i, c in calls if c[0] == 'call' and c[1][0] == 'attr' and c[1][2] == 'open']
        closes = [i for i, c in calls if c[0] == 'call' and c[1][0] == 'attr' and c[1][2] == 'close']
        loop_in = [i for i, e in enumerate(evs) if e[0] == 'loop-enter']
        loop_out = [i for i, e in enumerate(evs) if e[0] in ('loop-exit', 'loop-skip')]
        rep.ob('F5: exactly one stop marker is sent to the observers, after the detection loop', len(stops) == 1 and loop_out and stops[0][0] > max(loop_out), where, 'TokenizerWorker.run:stop-notify',
               'stop notifications at %s, loop ends at %s' % ([i for i, _ in stops], loop_out))
        rep.ob('F5: the reader is opened first and closed after the stop marker was sent', bool(opens) and bool(closes) and (not stops or (opens[0] < stops[0][0] < closes[-1])), where, 'TokenizerWorker.run:open-close')
        if stops:
            notify = stops[0][1][1][2]
        if loop_in:
            it = evs[loop_in[0]][1]
            oke = it[0] == 'call' and it[1] == ('b', 'enumerate') and it[2] == (('attr', ('self',), genf[0] if genf else ''),) and dict(it[3]).get('start') == ('c', 1)
            if it[0] == 'call' and it[1] == ('b', 'enumerate') and len(it[2]) == 2:
                oke = it[2] == (('attr', ('self',), genf[0] if genf else ''), ('c', 1))
            if it[0] == 'call' and it[1] == ('b', 'zip') and len(it[2]) == 2 and it[2][1] == ('attr', ('self',), genf[0] if genf else '') and it[2][0][0] == 'call' \
                    and term_name(it[2][0][1]).split('.')[-1] == 'count' and it[2][0][2] in ((('c', 1),), ) and not it[2][0][3]:
                oke = True                        # zip(itertools.count(1), detections) is enumerate(detections, start=1)
            elem = ('elem', it)
            idt, reg = ('sub', elem, ('c', 0)), ('sub', elem, ('c', 1))
            if not oke and it == ('attr', ('self',), genf[0] if genf else ''):
                # the loop runs over the detections themselves with an explicit counter: a local that is 0 before the loop and
                # is incremented by exactly 1, once, at the start of every iteration (its value at the end of the iteration
                # is the incremented one)
                ends = [n_[2] for n_ in l.notes if isinstance(n_, tuple) and n_[0] == 'loop-end-env']
                cand = [(k, v) for env_ in ends for k, v in env_.items()
                        if v is not None and v[0] == 'bin' and v[1] == '+' and {v[2], v[3]} >= {('c', 1)} and any(x[0] == 'loopvar' and x[1] == k and len(x) == 4 and x[3] == ('c', 0) for x in (v[2], v[3]))]
                if len(cand) == 1:
                    idt, reg = cand[0][1], elem
                    rep.ob('F5: ids are enumerate(detections of split, start=1): 1, 2, 3, ... in detection order', True, where, 'TokenizerWorker.run:enumerate', sample=dict(loop='counter %s over %s' % (cand[0][0], show(it)[:60])))
                else:
                    # id = len(<the worker's detections list>) + 1, taken before the detection is appended: a counter exactly as long as
                    # the list only grows by that one append per iteration (an unbounded list created empty in the constructor)
                    lenid = None
                    for c_ in [c for _, c in calls]:
                        for x in walk(c_):
                            if x[0] == 'bin' and x[1] == '+' and ('c', 1) in (x[2], x[3]):
                                o_ = x[3] if x[2] == ('c', 1) else x[2]
                                if o_[0] == 'call' and o_[1] == ('b', 'len') and len(o_[2]) == 1 and o_[2][0][0] == 'attr' and o_[2][0][1] == ('self',):
                                    lenid = (x, o_[2][0][2])
                    if lenid is not None:
                        fdef = [d['value'] for d in tdefs.get(lenid[1], []) if d['method'] == '__init__']
                        grows = bool(fdef) and all(v == ('list', ()) for v in fdef)
                        idt, reg = lenid[0], elem
                        rep.ob('F5: ids are enumerate(detections of split, start=1): 1, 2, 3, ... in detection order', grows, where, 'TokenizerWorker.run:enumerate',
                               'the id is len(self.%s) + 1 and self.%s is created as %s: its length counts the detections only if it is an unbounded list that starts empty' % (lenid[1], lenid[1], [show(v)[:50] for v in fdef]),
                               sample=dict(loop='len(self.%s) + 1 over %s' % (lenid[1], show(it)[:60])))
                    else:
                        rep.unknown('TokenizerWorker.run: how detections are numbered was not recognised (loop over %s, no enumerate(..., start=1) and no unit counter starting at 0)' % show(it)[:80])
                    continue
            else:
                rep.ob('F5: ids are enumerate(detections of split, start=1): 1, 2, 3, ... in detection order', oke, where, 'TokenizerWorker.run:enumerate', 'loop over %s' % show(it)[:100], sample=dict(loop=show(it)[:90]))
            inloop = [(i, c) for i, c in datas if loop_in[0] < i < max(loop_out)]
            ok = len(inloop) == 1 and inloop[0][1][2][0] == ('tuple', (idt, reg))
            rep.ob('F5: every detection is sent to the observers exactly once as (id, region), unconditionally', ok, where, 'TokenizerWorker.run:notify', 'data notifications in the loop: %s' % [show(c)[:90] for _, c in inloop],
                   sample=dict(notify=[show(c)[:80] for _, c in inloop]))
            # conditions inside the loop must not guard the notification (only logging may be conditional)
            if inloop:
                e = evs[inloop[0][0]]
                guards = [c for c in l.conds[:e[4]] if any(x == elem for x in walk(c[0]))]
                rep.ob('F5: no condition on the detection guards its notification', not guards, where, 'TokenizerWorker.run:conditional-notify', 'guards: %s' % [show(g[0])[:60] for g in guards])
            # detections list: appended before notifying, fields in namedtuple order
            apps = [(i, c) for i, c in calls if c[0] == 'call' and c[1][0] == 'attr' and c[1][2] == 'append' and c[1][1][0] == 'attr' and c[1][1][1] == ('self',) and c[1][1][2] in det_f]
            okd = len(apps) == 1 and inloop and apps[0][0] < inloop[0][0]
            rep.ob('F5: the detection is recorded in the worker\'s own list before observers are notified', bool(okd), where, 'TokenizerWorker.run:detections-append')
            if apps:
                dv = apps[0][1][2][0]
                nt = cx.model.mods[MOD]['consts'].get('_Detection')
                fields = None
                if dv[0] == 'call' and dv[1][0] == 'g':
                    from ..facts import tuple_fields
                    fields = tuple_fields(cx, dv[1])
                want = dict(id=idt, start=('attr', ('attr', reg, 'meta'), 'start'), end=('attr', ('attr', reg, 'meta'), 'end'), duration=('attr', reg, 'duration'))
                alt = dict(start=('attr', reg, 'start'), end=('attr', reg, 'end'))
                if fields and dv[0] == 'call' and len(dv[2]) + len(dv[3]) == len(fields) and all(k in fields for k, _ in dv[3]):
                    byname = dict(zip(fields, dv[2]))
                    byname.update(dict(dv[3]))
                    for fnm in fields:
                        a = byname.get(fnm)
                        if a is None:
                            continue
                        okf = fnm in want and (a == want[fnm] or a == alt.get(fnm))
                        rep.ob('F5: detection record field %s is filled from the region\'s %s' % (fnm, fnm), okf, where, 'TokenizerWorker.run:detection-%s' % fnm, '%s = %s' % (fnm, show(a)[:60]))
                else:
                    rep.unknown('TokenizerWorker.run: detection record %s not understood' % show(dv)[:80])
    rep.floor('TokenizerWorker.run paths', ntr, 2)
    # the public `detections` view is the live list run() appends to (read at any time it shows what has been detected so far)
    dget = next((f for f in tk.body if isinstance(f, ast.FunctionDef) and f.name == 'detections' and f.decorator_list and not any(isinstance(d, ast.Attribute) and d.attr in ('setter', 'deleter') for d in f.decorator_list)), None)
    if dget is not None and det_f:
        decos = [ast.unparse(d).split('.')[-1] for d in dget.decorator_list]
        cached = any(d in ('cached_property', 'cache', 'lru_cache') or d.startswith('lru_cache') for d in decos)
        for l in cx.leaves_of(MOD, tk, dget):
            if l.outcome != 'return' or l.value is None:
                continue
            v = l.value
            live = v[0] == 'attr' and v[1] == ('self',) and v[2] in det_f
            copy = v[0] == 'call' and v[1] in (('b', 'list'), ('b', 'tuple')) and len(v[2]) == 1 and v[2][0][0] == 'attr' and v[2][0][1] == ('self',) and v[2][0][2] in det_f
            if not live and not copy:
                rep.unknown('TokenizerWorker.detections: returns %s, neither the detections list nor a copy of it' % show(v)[:80])
                continue
            rep.ob('F5: the detections view shows the list run() appends to, as it is when read (the list itself, or an uncached copy)', live or (copy and not cached), cx.where(MOD, dget), 'TokenizerWorker.detections:view',
                   'returns %s under %s' % (show(v)[:60], decos), sample=dict(getter='detections', returns=show(v)[:60], decorators=decos))
    # ---------------------------------------------------------------- F6 notify all observers
    if notify is None:
        rep.unknown('TokenizerWorker: notification helper not identified')
    else:
        nm = cx.model.find_method(MOD, tk, notify)
        looped = 0
        for l in cx.leaves_dyn(nm):
            ins = [e for e in l.effects if e[0] == 'loop-enter']
            if not ins:
                continue
            looped += 1
            it = ins[0][1]
            okit = it[0] == 'attr' and it[1] == ('self',) and it[2] in obs_f
            sends = [e for e in l.effects if e[0] == 'call' and e[1][0] == 'call' and e[1][1] == ('attr', ('elem', it), 'send')]
            ok = okit and len(sends) == 1 and sends[0][1][2] == (('p', nm[2].args.args[1].arg),) and not l.conds
            exits = [e for e in l.effects if e[0] == 'loop-exit']
            early = any(e[1] in ('break',) for e in exits) or l.outcome in ('return', 'raise')
            rep.ob('F6: the message is sent to EVERY observer, unconditionally, without leaving the loop early', ok and not early, cx.where(nm[0], nm[2]), 'TokenizerWorker.%s' % notify,
                   'iterates %s, sends %s, conditions %s, loop exit %s' % (show(it), [show(s_[1])[:50] for s_ in sends], [(show(c[0])[:30], c[1]) for c in l.conds], [e[1] for e in exits]), sample=dict(notify=[show(s_[1])[:60] for s_ in sends]))
        if not looped:
            # no loop statement: a comprehension / generator expression over the observers that sends the message
            sm = cx.model.find_method(MOD, pr.worker, 'send')
            send_vals = set()
            if sm is not None:
                for l2 in cx.leaves_dyn(sm):
                    if l2.outcome == 'fall' or (l2.outcome == 'return' and l2.value == ('c', None)):
                        send_vals.add('none')
                    elif l2.outcome == 'return' and l2.value is not None and l2.value[0] == 'c':
                        send_vals.add('truthy' if l2.value[1] else 'falsy')
                    elif l2.outcome == 'return':
                        send_vals.add('unknown')
            for l in cx.leaves_dyn(nm):
                for t in [e[1] for e in l.effects if e[0] in ('call', 'eval')] + ([l.value] if l.value is not None else []):
                    for x in walk(t):
                        if x[0] in ('gen', 'listcomp', 'setcomp') and len(x[2]) == 1 and x[2][0][1][0] == 'attr' and x[2][0][1][1] == ('self',) and x[2][0][1][2] in obs_f:
                            var = x[2][0][0]
                            elt = x[1]
                            oksend = elt[0] == 'call' and elt[1] == ('attr', ('lp', var), 'send') and elt[2] == (('p', nm[2].args.args[1].arg),) and not x[2][0][2]
                            # who consumes it: any() / all() stop at the first truthy / falsy element
                            consumer = next((y for y in walk(t) if y[0] == 'call' and y[1][0] == 'b' and y[2] and y[2][0] == x), None)
                            cname = consumer[1][1] if consumer else None
                            if x[0] == 'gen' and cname == 'any':
                                full = send_vals <= {'none', 'falsy'} and bool(send_vals)
                            elif x[0] == 'gen' and cname == 'all':
                                full = send_vals <= {'truthy'} and bool(send_vals)
                            elif x[0] in ('listcomp', 'setcomp') or cname in ('list', 'tuple', 'sum', 'sorted', 'set', 'len', 'max', 'min'):
                                full = True
                            else:
                                rep.unknown('TokenizerWorker.%s: the generator expression over the observers is consumed by %s, which is not modelled' % (notify, cname))
                                continue
                            if 'unknown' in send_vals and cname in ('any', 'all'):
                                rep.unknown('TokenizerWorker.%s: %s() over send() results whose truth value is not known' % (notify, cname))
                                continue
                            looped += 1
                            rep.ob('F6: the message is sent to EVERY observer, unconditionally, without leaving the loop early', oksend and full, cx.where(nm[0], nm[2]), 'TokenizerWorker.%s' % notify,
                                   '%s(%s) over the observers; send() returns %s' % (cname or x[0], show(elt)[:50], sorted(send_vals)), sample=dict(notify=show(t)[:80]))
                            break
        rep.floor('notification loop paths', looped, 1)
    # send = put on the receiver's own inbox
    sd = cx.model.find_method(MOD, wcls, 'send')
    for l in cx.leaves_dyn(sd):
        puts = [e[1] for e in l.effects if e[0] == 'call' and pr.is_inbox_call(e[1], ('put', 'put_nowait'))]
        rep.ob('F6: send(message) puts exactly that message into the inbox', len(puts) == 1 and puts[0][2] == (('p', sd[2].args.args[1].arg),) and not l.conds, cx.where(sd[0], sd[2]), 'Worker.send', 'puts %s' % [show(p_)[:60] for p_ in puts])
    # ---------------------------------------------------------------- F7 / F8
    st = cx.model.find_method(MOD, wcls, 'stop')
    for l in cx.leaves_dyn(st):
        cs = [e[1] for e in l.effects if e[0] == 'call' and e[1][0] == 'call' and e[1][1][0] == 'attr' and e[1][1][1] == ('self',)]
        names = [c[1][2] for c in cs]
        ok = 'send' in names and 'join' in names and names.index('send') < names.index('join') and pr.isstop(cs[names.index('send')][2][0]) and not l.conds
        if 'join' in names:
            jc = cs[names.index('join')]
            rep.ob('F7: stop() waits for the worker without a time limit (a bounded join lets the caller go on while the worker still runs)', not jc[2] and not jc[3], cx.where(st[0], st[2]), 'Worker.stop:bounded-join', 'join call is %s' % show(jc))
        rep.ob('F7: stop() = send(stop marker) and then join() (joining first would wait forever)', ok, cx.where(st[0], st[2]), 'Worker.stop', 'calls %s' % [show(c)[:50] for c in cs], sample=dict(stop=[show(c)[:50] for c in cs]))
    sa_ = cx.model.find_method(MOD, tk, 'start_all')
    if sa_ is None:
        rep.unknown('TokenizerWorker.start_all not found')
    else:
        anyloop = any(e[0] == 'loop-enter' and e[1][0] == 'attr' and e[1][2] in obs_f for l in cx.leaves_dyn(sa_) for e in l.effects)
        functional = any(any(x[0] == 'attr' and x[1] == ('self',) and x[2] in obs_f for x in walk(e[1])) and any(y[0] in ('gen', 'listcomp') or (y[0] == 'call' and term_name(y[1]).split('.')[-1] in ('map', 'filter')) for y in walk(e[1]))
                         for l in cx.leaves_dyn(sa_) for e in l.effects if e[0] in ('call', 'eval'))
        if not anyloop and functional:
            rep.unknown('TokenizerWorker.start_all: the observers are walked by map() / a comprehension, not by a loop statement; what is called on each of them is not followed')
        else:
            rep.ob('F8: start_all starts the observers (a loop over the observer list exists)', anyloop, cx.where(sa_[0], sa_[2]), 'TokenizerWorker.start_all:no-observer-loop')
        for l in cx.leaves_dyn(sa_):
            ins = [e for e in l.effects if e[0] == 'loop-enter']
            selfstart = [e for e in l.effects if e[0] == 'call' and e[1] == ('call', ('attr', ('self',), 'start'), (), ())]
            rep.ob('F8: start_all starts the tokenizer worker itself', len(selfstart) == 1, cx.where(sa_[0], sa_[2]), 'TokenizerWorker.start_all:self')
            if ins:
                it = ins[0][1]
                starts = [e for e in l.effects if e[0] == 'call' and e[1] == ('call', ('attr', ('elem', it), 'start'), (), ())]
                rep.ob('F8: start_all starts every observer', it[0] == 'attr' and it[2] in obs_f and len(starts) == 1 and not l.conds, cx.where(sa_[0], sa_[2]), 'TokenizerWorker.start_all:observers', 'iterates %s' % show(it))
    # ---------------------------------------------------------------- F9 no thread joins itself / observers join nobody
    for m, c in [(MOD, wcls)] + worker_subclasses(cx):
        own = cx.model.methods_of(c)
        entry = [n for n in ('run', '_process_message', '_post_process', '_get_message') if cx.model.find_method(m, c, n)]
        seen, stack = set(), list(entry)
        while stack:
            nm_ = stack.pop()
            r = cx.model.find_method(m, c, nm_)
            if r is None or r[2] in seen:
                continue
            seen.add(r[2])
            for n in ast.walk(r[2]):
                if isinstance(n, ast.Call) and isinstance(n.func, ast.Attribute) and isinstance(n.func.value, ast.Name) and n.func.value.id == 'self':
                    if n.func.attr in ('join', 'stop', 'stop_all'):
                        rep.ob('F9: code running on a worker\'s own thread never joins / stops that worker (self-join deadlock)', False, cx.where(r[0], n), '%s.%s:self-%s' % (c.name, r[2].name, n.func.attr))
                    else:
                        stack.append(n.func.attr)
        rep.ob('F9: thread code of %s never joins itself' % c.name, True, cx.where(m, c))
    # ---------------------------------------------------------------- F10 every concrete worker handles messages
    nconc = 0
    nfmt = [0]
    for m, c in worker_subclasses(cx):
        r = cx.model.find_method(m, c, 'run')
        inherits_run = r is not None and r[1] is wcls
        if cx.model.is_abstract(m, c):
            continue
        nconc += 1
        if inherits_run and hook:
            h = cx.model.find_method(m, c, hook)
            ok = h is not None and h[1] is not wcls and len(h[2].args.args) == 2
            rep.ob('F10: every concrete worker using the generic loop defines the message hook (self, message)', ok, cx.where(m, c), '%s:%s' % (c.name, hook), 'hook %s' % (('%s.%s%s' % (h[1].name, h[2].name, [a.arg for a in h[2].args.args])) if h else None))
            if ok and c.name != 'StreamSaverWorker':
                # observers unpack (id, region)
                lv = cx.leaves_dyn(h)
                pn = h[2].args.args[1].arg
                uses = {x[2][1] for l in lv for e in l.effects for t_ in (e[1], e[2]) if isinstance(t_, tuple) for x in walk(t_)
                        if x[0] == 'sub' and x[1] == ('p', pn) and x[2][0] == 'c' and isinstance(x[2][1], int)}
                uses |= {x[2][1] for l in lv for v_ in l.env.values() if isinstance(v_, tuple) for x in walk(v_) if x[0] == 'sub' and x[1] == ('p', pn) and x[2][0] == 'c' and isinstance(x[2][1], int)}
                # F11 text that str.format already expanded (it holds file names, commands: run-time data) is never a format template again:
                # braces in the data would make the handler raise and the observer thread die before the remaining detections
                from ..semantic import deep_leaves, Undecided
                try:
                    dlv = deep_leaves(cx, h[0], c, h[2])
                except Undecided:
                    dlv = lv
                for l in dlv:
                    for e in l.effects:
                        if e[0] != 'call' or not isinstance(e[1], tuple) or e[1][0] != 'call':
                            continue
                        f_ = e[1][1]
                        if isinstance(f_, tuple) and f_[0] == 'attr' and f_[2] == 'format':
                            nfmt[0] += 1
                            inner = [x for x in walk(f_[1]) if x[0] == 'call' and isinstance(x[1], tuple) and x[1][0] == 'attr' and x[1][2] in ('format', 'format_map')]
                            rep.ob('F11: an observer never uses already formatted text (run-time data) as a format template', not inner, cx.where(h[0], e[3]) if len(e) > 3 and isinstance(e[3], ast.AST) else cx.where(h[0], h[2]),
                                   '%s.%s:template' % (c.name, hook), 'template is %s' % show(f_[1])[:160])
                if not uses:
                    rep.unknown('%s.%s: how the message is taken apart was not recognised' % (c.name, hook))
                else:
                    rep.ob('F10: observers unpack the message as (id, region)', 1 in uses and uses <= {0, 1}, cx.where(h[0], h[2]), '%s.%s:unpack' % (c.name, hook), 'components used: %s' % sorted(uses))
    rep.floor('concrete worker classes', nconc, 7)
    rep.explanation = ('The property holds under every interleaving if ten facts hold, given queue.Queue (unbounded FIFO, thread-safe, put never blocks) and Thread.join; each fact is decided on the source by path '
                       'enumeration with the message abstracted to {NONE (timeout), STOP, DATA}: F1 inbox = queue.Queue() created once; F2 only self touches it, only via put/get/get_nowait, every blocking get has a '
                       'timeout; F3 worker loop: NONE -> keep waiting, STOP -> leave loop then post-process once, DATA -> process exactly once; F4 _get_message returns the message, None only on Empty; '
                       'F5 tokenizer worker: open, for (id, region) in enumerate(split(input=self), start=1): record then notify((id, region)) once and unconditionally, after the loop notify(STOP) then close; '
                       'F6 notify = send to every observer unconditionally, send = inbox.put(message); F7 stop = send(STOP) then join; F8 start_all starts all observers and itself; F9 no thread code joins/stops '
                       'its own worker; F10 every concrete worker using the generic loop defines the hook and unpacks (id, region). NOT decided: schedules are not enumerated; timing.')
    rep.assumptions = ['queue.Queue is an unbounded thread-safe FIFO whose put never blocks', 'threading.Thread.join returns once run() returns', 'split() yields the detections of C01-C08']
