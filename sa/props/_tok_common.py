TRUSTED = [
    "the analyser's model of the Python subset used by StreamTokenizer (sa/absint.py) and its integer "
    "Gauss/Fourier-Motzkin core (sa/linear.py); kept honest by the mutant/twin matrix (./check <id> --tier thorough)",
    "frames are opaque values and the validator is an arbitrary deterministic oracle of the frame",
    "Python list/tuple/int semantics",
]
ASSUME = [
    "data_source.read() returns a frame or None; validator(frame) returns a boolean and does not touch the tokenizer",
    "the tokenizer object is used by one generator at a time",
]
EXPL = ("Static proof by abstract interpretation of StreamTokenizer's source: the constructor is evaluated symbolically "
        "(accept region = parameter invariant), the loop body of the token generator is interpreted once per abstract "
        "state (automaton constant, boolean fields, ghost adjacency A, ghost first-frame validity V1) and input "
        "(valid / invalid / end of stream) with all five integer parameters symbolic; an inductive invariant is inferred "
        "by Houdini over unit-typed linear template atoms (entailment by Gaussian + Fourier-Motzkin elimination over the "
        "integers, no external solver) starting from an ARBITRARY object state (any earlier run); every obligation is an "
        "entailment query at an event (READ/APPEND/DROPTRAIL/DELIVER/loop head) under invariant + branch conditions. "
        "Covers every stream length (induction), every validity pattern and every accepted parameter tuple.")
