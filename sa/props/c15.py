"""C15 -- the command line reports exactly what the API detects (DESIGN 4.15, 3.7, B.4, B.5)"""
import ast
import os
import re

from ..facts import tuple_components, Ctx, norm_cmp, exc_name, const_value
from ..symex import show, walk, term_name, bind_call
from .. import pat as P

LEVEL = 'other'

# spec table B.4: flag -> (keyword group, key written by make_kwargs, type, default)
SPEC = {
    '-n': ('split', 'min_dur', 'float', 0.2),
    '-m': ('split', 'max_dur', 'float', 5),
    '-s': ('split', 'max_silence', 'float', 0.3),
    '-a': ('io', 'block_dur', 'float', 0.01),
    '-e': ('split', 'energy_threshold', 'float', 50),
    '-d': ('split', 'drop_trailing_silence', 'store_true', False),
    '-R': ('split', 'strict_min_dur', 'store_true', False),
    '-u': ('io', 'use_channel', 'str', None),
    '-M': ('io', 'max_read', 'float', None),
    '-r': ('io', 'sampling_rate', 'int', 16000),
    '-c': ('io', 'channels', 'int', 1),
    '-w': ('io', 'sample_width', 'int', 2),
    '-f': ('io', 'audio_format', 'str', None),
    '-L': ('io', 'large_file', 'store_true', False),
    '-O': ('io', 'save_stream', 'str', None),
    '-o': ('io', 'save_detections_as', 'str', None),
    '-j': ('io', 'join_detections', 'float', None),
    '-T': ('io', 'export_format', 'str', None),
    '-q': ('miscellaneous', 'quiet', 'store_true', False),
    '--printf': ('miscellaneous', 'printf', 'str', '{id} {start} {end}'),
    '--time-format': ('miscellaneous', 'time_format', 'str', '%S'),
    '--timestamp-format': ('miscellaneous', 'timestamp_format', 'str', '%Y/%m/%d %H:%M:%S'),
}
NAMED = ('-n', '-m', '-s', '-a', '-e', '-d', '-R', '-u', '-M', '-r', '-c', '-w', '-f', '-L')


def parser_table(mfn, extra_consts=None):
    """every add_argument call of main(): list of dict(flags, dest, type, default, action, node)"""
    out = []
    for n in ast.walk(mfn):
        if isinstance(n, ast.Call) and isinstance(n.func, ast.Attribute) and n.func.attr == 'add_argument':
            flags = [a.value for a in n.args if isinstance(a, ast.Constant) and isinstance(a.value, str)]
            kw = {k.arg: k.value for k in n.keywords if k.arg is not None}
            for k in n.keywords:
                if k.arg is None:
                    # **name : a dict literal / dict(...) bound to that name in main() (or at module level)
                    src = None
                    if isinstance(k.value, ast.Dict):
                        src = k.value
                    elif isinstance(k.value, ast.Name):
                        for m_ in ast.walk(mfn):
                            if isinstance(m_, ast.Assign) and any(isinstance(t, ast.Name) and t.id == k.value.id for t in m_.targets):
                                src = m_.value
                        if src is None and extra_consts and k.value.id in extra_consts:
                            src = extra_consts[k.value.id]
                    if isinstance(src, ast.Dict):
                        for kk, vv in zip(src.keys, src.values):
                            if isinstance(kk, ast.Constant) and kk.value not in kw:
                                kw[kk.value] = vv
                    elif isinstance(src, ast.Call) and isinstance(src.func, ast.Name) and src.func.id == 'dict':
                        for kk in src.keywords:
                            if kk.arg and kk.arg not in kw:
                                kw[kk.arg] = kk.value
                    else:
                        kw['__unresolved__'] = k.value
            dest = kw['dest'].value if 'dest' in kw and isinstance(kw['dest'], ast.Constant) else None
            if dest is None and flags:
                longs = [f for f in flags if f.startswith('--')]
                dest = (longs[0] if longs else flags[0]).lstrip('-').replace('-', '_')
            typ = ast.unparse(kw['type']) if 'type' in kw else None
            action = kw['action'].value if 'action' in kw and isinstance(kw['action'], ast.Constant) else None
            default = ('absent',)
            if 'default' in kw:
                try:
                    default = ast.literal_eval(kw['default'])
                except (ValueError, SyntaxError):
                    default = ('expr', ast.unparse(kw['default']))
            elif action == 'store_true':
                default = False
            elif action is None:
                default = None
            out.append(dict(flags=flags, dest=dest, type=typ if typ else ('store_true' if action == 'store_true' else None), default=default, action=action, node=n, unresolved='__unresolved__' in kw))
    return out


def parser_table_sym(cx):
    """the same table from the path evaluator's effects of main(): add_argument calls made through helper functions, loops over
    option tables and **dictionaries are seen as the calls they perform.  None when main() could not be evaluated that way."""
    try:
        lv = cx.leaves('cmdline', 'main')
    except Exception:
        return None
    best = []
    for l in lv:
        adds = [e for e in l.effects if e[0] == 'call' and e[1][0] == 'call' and e[1][1][0] == 'attr' and e[1][1][2] == 'add_argument']
        if len(adds) > len(best):
            best = adds
    out = []
    for e in best:
        t = e[1]
        if any(a[0] == 'star' for a in t[2]) or any(k == '**' for k, _ in t[3]):
            return None
        flags = [a[1] for a in t[2] if a[0] == 'c' and isinstance(a[1], str)]
        if len(flags) != len(t[2]):
            return None
        kw = dict(t[3])
        dv = kw.get('dest')
        dest = dv[1] if dv is not None and dv[0] == 'c' else None
        if dv is not None and dest is None:
            return None
        if dest is None and flags:
            longs = [f for f in flags if f.startswith('--')]
            dest = (longs[0] if longs else flags[0]).lstrip('-').replace('-', '_')
        av = kw.get('action')
        action = av[1] if av is not None and av[0] == 'c' else None
        if av is not None and action is None:
            return None
        typ = None
        if 'type' in kw:
            typ = term_name(kw['type']).split('.')[-1]
        default = ('absent',)
        if 'default' in kw:
            try:
                default = const_value(cx, kw['default'])
            except ValueError:
                default = ('expr', show(kw['default'])[:60])
        elif action == 'store_true':
            default = False
        elif action is None:
            default = None
        out.append(dict(flags=flags, dest=dest, type=typ if typ else ('store_true' if action == 'store_true' else None), default=default, action=action, node=e[3], unresolved=False))
    return out


def documented_defaults(root):
    """flag -> documented default string from the captured -h block of doc/command_line_usage.rst"""
    path = os.path.join(root, 'doc', 'command_line_usage.rst')
    if not os.path.exists(path):
        return None
    out = {}
    cur = None
    text = []
    with open(path) as fp:
        lines = fp.read().splitlines()

    def flush():
        if cur:
            m = re.search(r'\[Default:\s*([^\]]*)\]', ' '.join(text))
            if m:
                for f in cur:
                    out[f] = m.group(1).strip()
    for ln in lines:
        m = re.match(r'^\s{2,6}(-{1,2}[A-Za-z][\w-]*)(?:[ ,]|$)', ln)
        if m and not ln.strip().startswith('- '):
            flush()
            cur = re.findall(r'(?<![\w-])(-{1,2}[A-Za-z][\w-]*)', ln.split('  ' * 2 + ' ')[0] if False else ln)
            # keep only the flags of the header part (before two or more spaces followed by text)
            head = re.split(r'\s{2,}', ln.strip(), maxsplit=1)
            cur = re.findall(r'(?<![\w-])(-{1,2}[A-Za-z][\w-]*)', head[0])
            text = [head[1]] if len(head) > 1 else []
        elif cur is not None:
            if ln.strip() == '' or not ln.startswith(' '):
                flush()
                cur = None
                text = []
            else:
                text.append(ln.strip())
    flush()
    return out


def same_default(doc, val):
    doc = doc.strip()
    first = re.split(r'[ ,(]', doc, maxsplit=1)[0].strip("'\"")
    if isinstance(val, bool) or val is None:
        return first == str(val)
    if isinstance(val, (int, float)):
        try:
            return float(first) == float(val)
        except ValueError:
            return False
    return doc.strip("'\"") == val or first == val


def qr(t):
    """('q'|'r', base, divisor) for divmod(b, d)[0|1], b // d, b % d"""
    if t[0] == 'sub' and t[1][0] == 'call' and t[1][1] == ('b', 'divmod') and len(t[1][2]) == 2 and t[2] in (('c', 0), ('c', 1)):
        return ('q' if t[2] == ('c', 0) else 'r', t[1][2][0], t[1][2][1])
    if t[0] == 'bin' and t[1] in ('//', '%'):
        return ('q' if t[1] == '//' else 'r', t[2], t[3])
    return None


def check(repo, rep):
    cx = Ctx(repo)
    rep.cx = cx
    mfn = cx.fn('cmdline', 'main')
    tab = parser_table(mfn, cx.model.mods['cmdline']['consts'])
    tab_sym = parser_table_sym(cx)
    tab_incomplete = False
    if tab_sym is not None and len(tab_sym) >= len(tab):
        tab = tab_sym            # the evaluated calls (helpers, loops over option tables expanded) when that view is at least as complete
    else:
        # the syntactic table is complete only if every add_argument call of the module is a literal call inside main()
        in_main = {id(n) for n in ast.walk(mfn)}
        for n in ast.walk(cx.model.mods['cmdline']['tree']):
            if isinstance(n, ast.Call) and isinstance(n.func, ast.Attribute) and n.func.attr == 'add_argument':
                if id(n) not in in_main or any(not (isinstance(a, ast.Constant) and isinstance(a.value, str)) for a in n.args):
                    tab_incomplete = True
    # add_argument taken as a VALUE (partial(group.add_argument, ...), add = group.add_argument, a closure that calls it with computed
    # arguments): options may be declared through it with names the table extraction cannot compute
    for m_ in cx.code_mods():
        for n in ast.walk(cx.model.mods[m_]['tree']):
            if isinstance(n, ast.Attribute) and n.attr == 'add_argument' and not (isinstance(getattr(n, '_parent', None), ast.Call) and n._parent.func is n):
                tab_incomplete = True
            if isinstance(n, ast.Call) and isinstance(n.func, ast.Attribute) and n.func.attr == 'add_argument' and \
                    (any(not (isinstance(a, ast.Constant) and isinstance(a.value, str)) for a in n.args) or any(k.arg == 'dest' and not isinstance(k.value, ast.Constant) for k in n.keywords)) \
                    and (tab_sym is None or len(tab_sym) < len(parser_table(mfn, cx.model.mods['cmdline']['consts']))):
                tab_incomplete = True
    if not tab_incomplete:
        rep.floor('add_argument calls', len(tab), 25)
    byflag = {}
    for row in tab:
        for f in row['flags']:
            byflag[f] = row
    dests = {row['dest'] for row in tab if row['dest']}
    # ---------------------------------------------------------------- make_kwargs: dest -> key
    ml = cx.leaves('cmdline_util', 'make_kwargs')
    kfn = cx.fn('cmdline_util', 'make_kwargs')
    ns = ('p', kfn.args.args[0].arg)
    rets = [l for l in ml if l.outcome == 'return']
    rep.floor('make_kwargs returning paths', len(rets), 2)
    groups_fields = None
    ka = cx.model.mods['cmdline_util']['consts'].get('KeywordArguments')
    if isinstance(ka, ast.Call) and len(ka.args) == 2:
        try:
            groups_fields = list(ast.literal_eval(ka.args[1]))
        except (ValueError, SyntaxError):
            groups_fields = None
    kcls = cx.model.mods['cmdline_util']['classes'].get('KeywordArguments')
    if groups_fields is None and kcls is not None and any((isinstance(b, ast.Name) and b.id == 'NamedTuple') or (isinstance(b, ast.Attribute) and b.attr == 'NamedTuple') for b in kcls.bases):
        groups_fields = [n.target.id for n in kcls.body if isinstance(n, ast.AnnAssign) and isinstance(n.target, ast.Name)]      # class KeywordArguments(NamedTuple)
    if not groups_fields:
        rep.unknown('KeywordArguments namedtuple not understood')
        return
    keymap_all = []
    for l in rets:
        v = l.value
        comps = tuple_components(cx, v)
        if not (comps and len(comps) == len(groups_fields) and all(a[0] == 'dict' for a in comps)):
            rep.unknown('make_kwargs: return value %s is not KeywordArguments(dict, dict, dict)' % show(v)[:80])
            continue
        km = {}
        for g, dct in zip(groups_fields, comps):
            for k, val in dct[1]:
                if k[0] == 'c':
                    km[(g, k[1])] = val
        km['__leaf__'] = l
        keymap_all.append(km)
    # every args_ns.x read has a dest
    nreads = 0
    readers = [(kfn, kfn.args.args[0].arg)]
    for n in ast.walk(kfn):          # helpers of the module that are handed the namespace read options too
        if isinstance(n, ast.Call) and isinstance(n.func, ast.Name):
            hf = cx.fn('cmdline_util', n.func.id, required=False)
            if hf is not None and hf is not kfn:
                for i_, a_ in enumerate(n.args):
                    if isinstance(a_, ast.Name) and a_.id == kfn.args.args[0].arg and i_ < len(hf.args.args):
                        readers.append((hf, hf.args.args[i_].arg))
    seen_reads = set()
    for rf, pn_ in readers:
        for n in ast.walk(rf):
            if isinstance(n, ast.Attribute) and isinstance(n.value, ast.Name) and n.value.id == pn_:
                seen_reads.add(n.attr)
                if n.attr not in dests and tab_incomplete:
                    rep.unknown('args_ns.%s: no dest found, but the parser is built by constructs the table extraction does not follow' % n.attr)
                    continue
                rep.ob('every option read by make_kwargs is defined by the parser (else AttributeError at start-up)', n.attr in dests, cx.where('cmdline_util', n), 'make_kwargs:args_ns.%s' % n.attr, 'args_ns.%s has no add_argument dest' % n.attr)
    # reads that only exist after evaluation (getattr(args_ns, name) with names from a table, helpers inlined)
    for l in ml:
        terms = [l.value] + [c[0] for c in l.conds] + [x for e in l.effects for x in (e[1], e[2]) if isinstance(x, tuple)]
        for t_ in terms:
            if t_ is None:
                continue
            for x in walk(t_):
                if x[0] == 'attr' and x[1] == ns and x[2] not in seen_reads:
                    seen_reads.add(x[2])
                    rep.ob('every option read by make_kwargs is defined by the parser (else AttributeError at start-up)', x[2] in dests or tab_incomplete, cx.where('cmdline_util', kfn), 'make_kwargs:args_ns.%s' % x[2], 'args_ns.%s has no add_argument dest' % x[2])
    nreads = len(seen_reads)
    rep.floor('distinct options read by make_kwargs (and the helpers it hands the namespace to)', nreads, 25)
    for n in ast.walk(mfn):
        if isinstance(n, ast.Attribute) and isinstance(n.value, ast.Name) and n.value.id == 'args' and isinstance(n.ctx, ast.Load):
            rep.ob('every option read by main() is defined by the parser', n.attr in dests, cx.where('cmdline', n), 'main:args.%s' % n.attr)
    # ---------------------------------------------------------------- chain flag -> dest -> key, types, defaults
    docs = documented_defaults(repo.root)
    if docs is None:
        rep.unknown('doc/command_line_usage.rst not found: documented defaults cannot be compared')
        docs = {}
    rep.floor('documented defaults parsed from doc/command_line_usage.rst', len({k for k in docs}), 13 if docs else 0)
    split_fn = cx.fn('core', 'split')
    ar_init = cx.fn('util', 'AudioReader.__init__')
    for flag, (grp, key, typ, dflt) in SPEC.items():
        row = byflag.get(flag)
        if row is None:
            if tab_incomplete:
                rep.unknown('option %s not found, but the parser is built by constructs the table extraction does not follow' % flag)
            else:
                rep.ob('option %s exists' % flag, False, cx.where('cmdline', mfn), 'main:missing-option-%s' % flag)
            continue
        where = cx.where('cmdline', row['node'])
        dest = row['dest']
        if row.get('unresolved'):
            rep.unknown('option %s: add_argument uses **kwargs that could not be resolved' % flag)
            continue
        # chain
        for km in keymap_all:
            val = km.get((grp, key))
            uses = sorted({x[2] for x in walk(val) if x[0] == 'attr' and x[1] == ns}) if val is not None else []
            opaque = False
            if val is not None:
                for x in walk(val):
                    if x[0] == 'call' and x[1][0] == 'g' and any(a == ns for a in x[2]):
                        lk = cx.model.lookup(x[1])
                        if lk and lk[0] == 'func':
                            pn = lk[1].args.args[list(x[2]).index(ns)].arg if len(lk[1].args.args) > list(x[2]).index(ns) else None
                            uses = sorted(set(uses) | {n_.attr for n_ in ast.walk(lk[1]) if isinstance(n_, ast.Attribute) and isinstance(n_.value, ast.Name) and n_.value.id == pn})
                        else:
                            opaque = True
            if opaque:
                rep.unknown('make_kwargs: value of %s[%r] is computed by a helper that could not be resolved' % (grp, key))
                continue
            ok = val is not None and uses == [dest]
            extra = ''
            if val is not None and uses and uses != [dest]:
                src = [f for f, r in byflag.items() if r['dest'] in uses and f.startswith('-') and not f.startswith('--')]
                extra = ' (it is fed by option(s) %s)' % src
            rep.ob('option %s reaches the %s keyword %r (flag -> dest -> make_kwargs key)' % (flag, grp, key), ok, where, 'cli-chain[%s]' % flag,
                   '%s writes dest %r; make_kwargs fills %s[%r] from %s%s' % (flag, dest, grp, key, uses or None, extra), sample=dict(flag=flag, dest=dest, group=grp, key=key))
        # type
        got_t = row['type']
        rep.ob('option %s has type %s' % (flag, typ), got_t == typ, where, 'cli-type[%s]' % flag, 'type is %s' % got_t)
        # default vs spec table / documentation / API
        d = row['default']
        rep.ob('option %s defaults to %r' % (flag, dflt), d == dflt and type(d) == type(dflt) or (isinstance(d, (int, float)) and isinstance(dflt, (int, float)) and not isinstance(d, bool) and d == dflt), where, 'cli-default[%s]' % flag, 'default is %r' % (d,))
        first = re.split(r'[ ,(]', docs.get(flag, '').strip(), maxsplit=1)[0].strip("'\"")
        value_bearing = flag in docs and (re.match(r'^-?\d+(\.\d+)?$', first) or first == 'None' or (typ == 'str' and isinstance(dflt, str)))
        if flag in docs and value_bearing:
            rep.ob('option %s: parser default equals the documented default' % flag, same_default(docs[flag], d), where, 'cli-doc-default[%s]' % flag, 'parser %r, documented %r' % (d, docs[flag]), sample=dict(flag=flag, documented=docs[flag], parser=d))
    # -u VALUE: a value that int() accepts (also negative: -u -1 is the last channel) reaches split() as that int, any other value unchanged.
    # Decided on the paths of make_kwargs by evaluating, for a handful of -u values, the conditions that mention the option and the
    # term stored under the keyword (a try: int(x) except path applies exactly when int(x) fails).
    if '-u' in byflag and '-u' in SPEC:
        from ..semantic import evaluator, value, Undecided
        from ..termeval import NotEvaluable
        grp_u, key_u = SPEC['-u'][0], SPEC['-u'][1]
        udest = ('attr', ns, byflag['-u']['dest'])
        bad = None
        npts = 0
        conv_somewhere = any(e[0] == 'call' and e[1][0] == 'call' and e[1][1] == ('b', 'int') and e[1][2] == (udest,) for km in keymap_all for e in km['__leaf__'].effects)
        try:
            for km in keymap_all:
                l = km['__leaf__']
                vt = km.get((grp_u, key_u))
                if vt is None:
                    continue
                for uv in ('0', '1', '-1', '-2', '12', 'mix', 'avg', 'any', None):
                    a_ = {udest: uv}
                    def int_ok(x):
                        try:
                            int(x)
                            return True
                        except (ValueError, TypeError):
                            return False
                    # does this path apply to the value?  conditions that mention the option are evaluated; a path that passed through an
                    # except handler after int(<option>) applies exactly when that conversion fails, the one that did not when it succeeds
                    applies = True
                    pending = None
                    for ct, tr, _ in l.conds:
                        if not any(x == udest for x in walk(ct)):
                            continue
                        ev_ = evaluator(a_)
                        try:
                            got_c = ev_.ev(ct)
                        except NotEvaluable as exc:
                            pending = pending or 'condition %s: %s' % (show(ct)[:60], exc)
                            continue
                        if ev_.leaves:
                            pending = pending or 'condition %s depends on more than the option' % show(ct)[:60]
                            continue
                        if bool(got_c) != tr:
                            applies = False
                    conv = [e for e in l.effects if e[0] == 'call' and e[1][0] == 'call' and e[1][1] == ('b', 'int') and e[1][2] == (udest,)]
                    handled = [e for e in l.effects if e[0] == 'except']
                    if conv and not handled:
                        applies = applies and int_ok(uv)
                    elif handled and conv_somewhere:
                        applies = applies and not int_ok(uv)          # the handler of the try around int(<option>)
                    if applies and pending:
                        raise Undecided(pending)
                    if not applies:
                        continue
                    ev_ = evaluator(a_)
                    try:
                        got = ev_.ev(vt)
                    except NotEvaluable as exc:
                        raise Undecided('keyword term %s: %s' % (show(vt)[:60], exc))
                    if ev_.leaves:
                        raise Undecided('keyword term %s depends on more than the option' % show(vt)[:60])
                    want = int(uv) if int_ok(uv) else uv
                    npts += 1
                    if got != want or type(got) != type(want):
                        bad = bad or (l, '-u %s reaches split() as %r; it must be %r' % (uv, got, want))
            if npts == 0:
                raise Undecided('no path applied to any sample value')
            rep.ob('-u VALUE reaches split() as an int when int() accepts it (negative indices included), unchanged otherwise', bad is None, cx.where('cmdline_util', kfn), 'make_kwargs:use-channel-conversion',
                   bad[1] if bad else None, sample=dict(option='-u', grid_points=npts))
        except Undecided as exc:
            rep.unknown('make_kwargs: conversion of -u not decided (%s)' % exc)
    # API defaults that must agree with the CLI defaults
    sdef = {a.arg: dv for a, dv in zip(split_fn.args.args[-len(split_fn.args.defaults):], split_fn.args.defaults)}
    for flag, pn in (('-n', 'min_dur'), ('-m', 'max_dur'), ('-s', 'max_silence'), ('-d', 'drop_trailing_silence'), ('-R', 'strict_min_dur')):
        if flag in byflag and pn in sdef:
            try:
                api = ast.literal_eval(sdef[pn])
                rep.ob('CLI default of %s equals the API default of split(%s)' % (flag, pn), api == byflag[flag]['default'], cx.where('cmdline', byflag[flag]['node']), 'cli-api-default[%s]' % flag, 'CLI %r, API %r' % (byflag[flag]['default'], api))
            except (ValueError, SyntaxError):
                rep.unknown('split(): default of %s is not a literal' % pn)
    try:
        eth = const_value(cx, ('g', 'core', 'DEFAULT_ENERGY_THRESHOLD'))
        if '-e' in byflag:
            rep.ob('CLI default of -e equals DEFAULT_ENERGY_THRESHOLD', eth == byflag['-e']['default'], cx.where('cmdline', byflag['-e']['node']), 'cli-api-default[-e]', 'CLI %r, API %r' % (byflag['-e']['default'], eth))
    except ValueError:
        rep.unknown('DEFAULT_ENERGY_THRESHOLD is not a constant')
    adef = {a.arg: dv for a, dv in zip(ar_init.args.args[-len(ar_init.args.defaults):], ar_init.args.defaults)}
    if '-a' in byflag and 'block_dur' in adef:
        rep.ob('CLI default of -a equals the API default of AudioReader(block_dur)', ast.literal_eval(adef['block_dur']) == byflag['-a']['default'], cx.where('cmdline', byflag['-a']['node']), 'cli-api-default[-a]')
    for flag, cname in (('-r', 'DEFAULT_SAMPLING_RATE'), ('-w', 'DEFAULT_SAMPLE_WIDTH'), ('-c', 'DEFAULT_NB_CHANNELS')):
        try:
            api = const_value(cx, ('g', 'io', cname))
            if flag in byflag:
                rep.ob('CLI default of %s equals io.%s' % (flag, cname), api == byflag[flag]['default'], cx.where('cmdline', byflag[flag]['node']), 'cli-api-default[%s]' % flag, 'CLI %r, API %r' % (byflag[flag]['default'], api))
        except ValueError:
            pass
    # ---------------------------------------------------------------- consumers read the keys that are written
    split_params = {a.arg for a in split_fn.args.args}
    ar_params = {a.arg for a in ar_init.args.args}
    kw_reads = set()
    # every place of the package that can read a keyword by name: d["k"], d.get("k"), d.pop("k"), a parameter called k, and the
    # string tables at module level that name keywords (long/short alias pairs, option tables)
    for mod_, d_ in cx.model.mods.items():
        for n in ast.walk(d_['tree']):
            if isinstance(n, ast.Call) and isinstance(n.func, ast.Attribute) and n.func.attr in ('get', 'pop') and n.args and isinstance(n.args[0], ast.Constant) and isinstance(n.args[0].value, str):
                kw_reads.add(n.args[0].value)
            elif isinstance(n, ast.Subscript) and isinstance(n.slice, ast.Constant) and isinstance(n.slice.value, str) and isinstance(n.ctx, ast.Load):
                kw_reads.add(n.slice.value)
            elif isinstance(n, (ast.FunctionDef, ast.Lambda)) and mod_ != 'cmdline':
                kw_reads |= {a.arg for a in n.args.args + n.args.kwonlyargs}
        for cn_, cv_ in d_['consts'].items():
            if isinstance(cv_, (ast.Tuple, ast.List, ast.Dict, ast.Set)) and mod_ != 'cmdline':
                kw_reads |= {x.value for x in ast.walk(cv_) if isinstance(x, ast.Constant) and isinstance(x.value, str)}
    # the literal tuple of (long, short) pairs
    for n in ast.walk(cx.fn('io', '_get_audio_parameters')):
        if isinstance(n, ast.Constant) and isinstance(n.value, str):
            kw_reads.add(n.value)
    consumed = split_params | ar_params | kw_reads
    for flag, (grp, key, typ, dflt) in SPEC.items():
        rep.ob('the keyword %r written for %s is one its consumer reads' % (key, flag), key in consumed, cx.where('cmdline_util', kfn), 'cli-consumer[%s]' % key, '%r is read by no function of the package (no d[%r], d.get(%r) or parameter of that name)' % (key, key, key))
    # main wires the three groups into initialize_workers
    host = mfn
    iw = [n for n in ast.walk(mfn) if isinstance(n, ast.Call) and ast.unparse(n.func).endswith('initialize_workers')]
    if not iw:
        # main() delegates the set-up to a helper of the module: the wiring is looked for in the function that makes both calls
        for f_ in ast.walk(cx.model.mods['cmdline']['tree']):
            if isinstance(f_, ast.FunctionDef) and f_ is not mfn:
                c_ = [n for n in ast.walk(f_) if isinstance(n, ast.Call) and ast.unparse(n.func).endswith('initialize_workers')]
                if c_ and any(isinstance(n, ast.Call) and ast.unparse(n.func).endswith('make_kwargs') for n in ast.walk(f_)):
                    host, iw = f_, c_
    okw = False
    mk_vars = {t.id for n in ast.walk(host) if isinstance(n, ast.Assign) and isinstance(n.value, ast.Call) and ast.unparse(n.value.func).endswith('make_kwargs') for t in n.targets if isinstance(t, ast.Name)}
    for c in iw:
        stars = [k.value for k in c.keywords if k.arg is None]
        okw = len(stars) == len(groups_fields) and all(isinstance(v, ast.Attribute) and isinstance(v.value, ast.Name) and v.value.id in mk_vars for v in stars) and sorted(v.attr for v in stars) == sorted(groups_fields)
    rep.ob('main() hands all keyword groups of make_kwargs to initialize_workers', okw, cx.where('cmdline', mfn), 'main:initialize_workers-args')
    # ---------------------------------------------------------------- -q <-> no PrintWorker ; print format / time format reach the PrintWorker
    il = cx.leaves('cmdline_util', 'initialize_workers')
    ifn = cx.fn('cmdline_util', 'initialize_workers')
    npw = 0
    for l in il:
        if l.outcome == 'raise':
            continue                    # a path that raises builds no workers at all (whatever -q says)
        pw = [e for e in l.effects if e[0] == 'call' and e[1][0] == 'call' and e[1][1] == ('g', 'workers', 'PrintWorker')]
        qc = [c for c in l.conds if any(x == ('c', 'quiet') for x in walk(c[0]))]
        if not qc:
            rep.unknown('initialize_workers: a path does not test the quiet option')
            continue
        # which value of the quiet option takes this path: the option is given both values and taken through the path's tests on it
        from ..semantic import evaluator as _evq
        from ..termeval import NotEvaluable as _NEq
        poss = []
        try:
            for val_ in (True, False):
                ok_ = True
                for ct, tr, _ in qc:
                    qterm = next(x for x in walk(ct) if x[0] == 'sub' and x[2] == ('c', 'quiet'))
                    ev_ = _evq({qterm: val_})
                    got_ = ev_.ev(ct)
                    if ev_.leaves:
                        raise _NEq('depends on more than the option')
                    if bool(got_) != tr:
                        ok_ = False
                if ok_:
                    poss.append(val_)
        except (_NEq, StopIteration) as exc:
            rep.unknown('initialize_workers: a test on the quiet option could not be evaluated (%s)' % exc)
            continue
        if len(poss) != 1:
            rep.unknown('initialize_workers: a path is taken for %d values of the quiet option' % len(poss))
            continue
        quiet = poss[0]
        npw += 1
        rep.ob('-q prints nothing (no PrintWorker) and without -q exactly one PrintWorker observes', (len(pw) == 0) if quiet else (len(pw) == 1), cx.where('cmdline_util', ifn), 'initialize_workers:quiet=%s' % quiet, '%d PrintWorker(s) with quiet=%s' % (len(pw), quiet))
        if pw:
            c = pw[0][1]
            pinit = cx.fn('workers', 'PrintWorker.__init__')
            b = bind_call(c, pinit, skip_self=True)
            pf = b.get('print_format')
            okpf = pf is not None and any(x == ('sub', ('p', 'kwargs'), ('c', 'printf')) for x in walk(pf))
            rep.ob('--printf reaches the PrintWorker as its print format', okpf, cx.where('cmdline_util', pw[0][3]), 'initialize_workers:printf', 'print_format is %s' % (show(pf)[:80] if pf else None))
            if okpf:
                # what the template is turned into: the two-character sequences \\n \\t \\r become the control characters, every other
                # character (any script) stays as typed -- evaluated on sample templates
                from ..semantic import evaluator as _evp
                from ..termeval import NotEvaluable as _NEp
                PF = ('sub', ('p', 'kwargs'), ('c', 'printf'))
                badpf = None
                try:
                    for tpl in ('{id}: {start} -> {end}', 'a\\nb\\tc\\rd', '\u00e9v\u00e8nement n\u00b0{id} \u2192 {end}', '{id}\\n', 'x\\\\y', '100%'):
                        # the path must apply to this template (a fast path for templates without a backslash ...)
                        applies_ = True
                        for ct_, tr_, _n in l.conds:
                            if not any(x == PF for x in walk(ct_)):
                                continue
                            ec_ = _evp({PF: tpl})
                            gc_ = ec_.ev(ct_)
                            if ec_.leaves:
                                raise _NEp('condition %s depends on %s' % (show(ct_)[:40], [show(k)[:30] for k in ec_.leaves][:2]))
                            if bool(gc_) != tr_:
                                applies_ = False
                                break
                        if not applies_:
                            continue
                        e_ = _evp({PF: tpl})
                        got = e_.ev(pf)
                        if e_.leaves:
                            raise _NEp('depends on %s' % [show(k)[:30] for k in e_.leaves][:2])
                        want = tpl.replace('\\n', '\n').replace('\\t', '\t').replace('\\r', '\r')
                        if got != want and badpf is None:
                            badpf = 'the template %r becomes %r, expected %r' % (tpl, got, want)
                    rep.ob('the --printf template is used as typed but for \\n, \\t, \\r (which become newline, tab, carriage return)', badpf is None, cx.where('cmdline_util', pw[0][3]), 'initialize_workers:printf-escapes', badpf,
                           sample=dict(print_format=show(pf)[:80]))
                except _NEp as exc:
                    rep.unknown('initialize_workers: what becomes of the --printf template could not be evaluated (%s): %s' % (exc, show(pf)[:80]))
            rep.ob('--time-format reaches the PrintWorker', b.get('time_format') == ('sub', ('p', 'kwargs'), ('c', 'time_format')), cx.where('cmdline_util', pw[0][3]), 'initialize_workers:time-format', 'time_format is %s' % (show(b.get('time_format')) if b.get('time_format') else None))
            rep.ob('--timestamp-format reaches the PrintWorker', b.get('timestamp_format') == ('sub', ('p', 'kwargs'), ('c', 'timestamp_format')), cx.where('cmdline_util', pw[0][3]), 'initialize_workers:timestamp-format')
            app = [e for e in l.effects if e[0] == 'call' and e[1][0] == 'call' and e[1][1][0] == 'attr' and e[1][1][2] == 'append' and e[1][2] == (c,)]
            rep.ob('the PrintWorker is registered as an observer', len(app) == 1, cx.where('cmdline_util', pw[0][3]), 'initialize_workers:printworker-observer')
    rep.floor('initialize_workers paths testing quiet', npw, 2)
    # -o TEMPLATE / -T FORMAT reach the region saver in role
    rs_init = cx.fn('workers', 'RegionSaverWorker.__init__', required=False)
    nrs = 0
    for l in il:
        for e in l.effects:
            if e[0] == 'call' and e[1][0] == 'call' and e[1][1] == ('g', 'workers', 'RegionSaverWorker') and rs_init is not None:
                b = bind_call(e[1], rs_init, skip_self=True)
                ps = [a.arg for a in rs_init.args.args][1:]
                K = lambda k: ('sub', ('p', 'kwargs'), ('c', k))
                nrs += 1
                rep.ob('-o TEMPLATE is the region saver\'s file-name format and -T its audio format', b.get(ps[0]) == K('save_detections_as') and (len(ps) < 2 or b.get(ps[1]) in (K('export_format'), None)), cx.where('cmdline_util', e[3]),
                       'initialize_workers:region-saver-args', '%s=%s, %s=%s' % (ps[0], show(b.get(ps[0]))[:40] if b.get(ps[0]) else None, ps[1] if len(ps) > 1 else '-', show(b.get(ps[1]))[:40] if len(ps) > 1 and b.get(ps[1]) else None))
                break
    rep.floor('region saver constructions in initialize_workers', nrs, 1)
    # the observers list and the split/io keywords reach the TokenizerWorker
    tw = [e[1] for l in il for e in l.effects if e[0] == 'call' and e[1][0] == 'call' and e[1][1] == ('g', 'workers', 'TokenizerWorker')]
    if tw:
        rep.ob('initialize_workers builds the TokenizerWorker with all keywords (**kwargs)', all(dict(c[3]).get('**') == ('p', 'kwargs') for c in tw), cx.where('cmdline_util', ifn), 'initialize_workers:tokenizer-kwargs')
    else:
        rep.unknown('initialize_workers: no construction of the TokenizerWorker was found on its paths (built by code the evaluator does not follow, e.g. the methods of a builder object): what it is given is not decided')
    from .c12 import check_split_kwargs
    check_split_kwargs(cx, rep)
    # -O FILE saves the stream; -O FILE -j SILENCE saves the joined detections instead (any SILENCE >= 0, zero included): the
    # (save_stream, join_detections) options are taken through the tests of every path of initialize_workers
    from ..semantic import evaluator as _evs
    from ..termeval import NotEvaluable as _NEs
    SS, JD = ('sub', ('p', 'kwargs'), ('c', 'save_stream')), ('sub', ('p', 'kwargs'), ('c', 'join_detections'))
    nsv, sv_bad, sv_und = 0, None, None
    for l in il:
        if l.outcome == 'raise':
            continue
        made = {e[1][1][2] for e in l.effects if e[0] == 'call' and e[1][0] == 'call' and e[1][1][0] == 'g' and e[1][1][1] == 'workers'}
        if 'TokenizerWorker' not in made:
            sv_und = sv_und or 'a path does not build the tokenizer worker itself (workers are built by code that is not followed)'
            continue
        # the two options must be tested as kwargs["..."] values on this path, and every such test must be evaluable
        sees_ss = any(any(x == SS for x in walk(ct)) for ct, _, _ in l.conds)
        mentions = any(any(x in (('c', 'save_stream'), ('c', 'join_detections')) for x in walk(ct)) and not any(x in (SS, JD) for x in walk(ct)) for ct, _, _ in l.conds)
        derived = [ct for ct, _, _ in l.conds if not any(x[0] == 'sub' and x[1] == ('p', 'kwargs') for x in walk(ct)) and not any(x[0] == 'p' and x[1] == 'logger' for x in walk(ct)) and any(x[0] in ('g', 'call', 'b') for x in walk(ct))]
        if derived:
            # the path also tests a value computed from the options elsewhere (a mode code returned by a helper ...): whether it
            # agrees with the tests on the options themselves is not followed
            sv_und = sv_und or 'a path tests a derived value (%s)' % show(derived[0])[:60]
            continue
        if not sees_ss or mentions:
            sv_und = sv_und or 'the options are read in a form that is not evaluated (%s)' % ('kwargs.get / an alias' if mentions else 'no test of save_stream on a path')
            continue
        for ss_, jd_ in ((None, None), ('out.wav', None), ('out.wav', 0), ('out.wav', 0.5), ('out.wav', 0.0)):
            ok_ = True
            for ct, tr, _ in l.conds:
                if not any(x in (SS, JD) for x in walk(ct)):
                    continue
                try:
                    e_ = _evs({SS: ss_, JD: jd_})
                    got = e_.ev(ct)
                except _NEs as exc:
                    sv_und = sv_und or str(exc)
                    continue
                if e_.leaves:
                    continue
                if bool(got) != tr:
                    ok_ = False
                    break
            if not ok_:
                continue
            nsv += 1
            want_join = ss_ is not None and jd_ is not None
            want_stream = ss_ is not None and jd_ is None
            if ((('AudioEventsJoinerWorker' in made) != want_join) or (('StreamSaverWorker' in made) != want_stream)) and sv_bad is None:
                sv_bad = (l, 'with save_stream=%r and join_detections=%r the path builds %s' % (ss_, jd_, sorted(m_ for m_ in made if 'Saver' in m_ or 'Joiner' in m_) or 'no saver'))
    if sv_und:
        rep.unknown('initialize_workers: choice of the stream saver / joiner not evaluable (%s)' % sv_und)
    elif nsv:
        rep.ob('-O saves the stream, -O with -j (zero included) saves the joined detections, neither without -O', sv_bad is None, cx.where('cmdline_util', sv_bad[0].node) if sv_bad and sv_bad[0].node is not None else cx.where('cmdline_util', ifn),
               'initialize_workers:saver-choice', sv_bad[1] if sv_bad else None, sample=dict(rule='saver choice', points=nsv))
    # ---------------------------------------------------------------- PrintWorker: format keys
    pc = cx.cls('workers', 'PrintWorker')
    pm = cx.model.find_method('workers', pc, '_process_message')
    mp = ('p', pm[2].args.args[1].arg)
    idt, reg = ('sub', mp, ('c', 0)), ('sub', mp, ('c', 1))
    pdefs = cx.field_defs('workers', 'PrintWorker')
    fmtf = [f for f, ds in pdefs.items() if any(d['value'][0] == 'call' and d['value'][1] == ('g', 'util', 'make_duration_formatter') for d in ds)]
    pff = [f for f, ds in pdefs.items() if any(d['value'] == ('p', 'print_format') for d in ds)]
    for l in cx.leaves_dyn(pm):
        pr = [e[1] for e in l.effects if e[0] == 'call' and e[1][0] == 'call' and e[1][1] == ('b', 'print')]
        rep.ob('one line is printed per detection', len(pr) == 1, cx.where(pm[0], pm[2]), 'PrintWorker._process_message:print', '%d print calls' % len(pr))
        if not pr or not pr[0][2]:
            continue
        t = pr[0][2][0]
        okf = t[0] == 'call' and t[1][0] == 'attr' and t[1][2] == 'format' and t[1][1][0] == 'attr' and t[1][1][1] == ('self',) and t[1][1][2] in pff
        rep.ob('the printed line is the --printf template filled in', okf, cx.where(pm[0], pm[2]), 'PrintWorker._process_message:template', 'prints %s' % show(t)[:100])
        if not okf:
            continue
        kws = dict(t[3])
        F = lambda x: ('call', ('attr', ('self',), fmtf[0] if fmtf else '?'), (x,), ())
        want = dict(id=[idt], start=[F(('attr', ('attr', reg, 'meta'), 'start')), F(('attr', reg, 'start'))], end=[F(('attr', ('attr', reg, 'meta'), 'end')), F(('attr', reg, 'end'))], duration=[F(('attr', reg, 'duration'))])
        for k, alts in want.items():
            rep.ob('{%s} is the detection\'s %s%s' % (k, k, '' if k == 'id' else ' rendered by the time formatter'), kws.get(k) in alts, cx.where(pm[0], pm[2]), 'PrintWorker._process_message:%s' % k,
                   '{%s} = %s' % (k, show(kws[k])[:80] if k in kws else 'missing'), sample=dict(placeholder=k, value=show(kws[k])[:60] if k in kws else None))
        rep.ob('{timestamp} is provided', 'timestamp' in kws, cx.where(pm[0], pm[2]), 'PrintWorker._process_message:timestamp')
    mk_defs = [d for f_ in fmtf for d in pdefs[f_] if d['value'][0] == 'call' and term_name(d['value'][1]).endswith('make_duration_formatter')]
    rep.ob('the PrintWorker builds its time formatter from --time-format', len(fmtf) == 1 and any(d['value'][2][:1] in ((('p', 'time_format'),), ) or (d['value'][2][:1] and d['value'][2][0][0] == 'attr' and d['value'][2][0][1] == ('self',)) for d in mk_defs),
           cx.where('workers', pc), 'PrintWorker.__init__:formatter')
    for d in mk_defs:
        # an unknown directive in --time-format is an error of the command line: it is raised where the worker is built (main's thread,
        # before anything runs), not later inside the worker thread, where it would kill the printing silently
        rep.ob('the time formatter is built when the PrintWorker is constructed (a bad --time-format fails at start-up)', d['method'] == '__init__', cx.where('workers', d['node']), 'PrintWorker.%s:formatter-built-late' % d['method'],
               'make_duration_formatter is called in %s' % d['method'])
    # ---------------------------------------------------------------- formatter table (B.5)
    ffn = cx.fn('util', 'make_duration_formatter')
    fl = cx.leaves('util', 'make_duration_formatter')
    nested = {id(n): n for n in ast.walk(ffn) if isinstance(n, ast.FunctionDef) and n is not ffn}
    seen = dict(S=0, I=0, hmsi=0, err=0)
    for l in fl:
        cS = [c for c in l.conds if norm_cmp(c[0], True) and norm_cmp(c[0], True)[0] == '==' and norm_cmp(c[0], True)[2] == ('c', '%S')]
        cI = [c for c in l.conds if norm_cmp(c[0], True) and norm_cmp(c[0], True)[0] == '==' and norm_cmp(c[0], True)[2] == ('c', '%I')]
        where = cx.where('util', l.node) if l.node is not None else cx.where('util', ffn)
        if l.outcome == 'raise':
            seen['err'] += 1
            rep.ob('an unknown time directive raises TimeFormatError', exc_name(l) == 'TimeFormatError', where, 'make_duration_formatter:unknown-directive', 'raises %s' % exc_name(l))
            # raised when a % is left after the four replacements
            idx = [e[1] for e in l.effects if e[0] == 'call' and e[1][0] == 'call' and e[1][1][0] == 'attr' and e[1][1][2] in ('index', 'find') and e[1][2] == (('c', '%'),)]
            if idx:
                rep.ob('the error is raised exactly when a "%" is left after replacing %h %m %s %i', True, where, 'make_duration_formatter:leftover-test')
            else:
                # the left-over test is written some other way (partition, `in`, a scan over the pieces): the condition is on a value
                # the rule does not follow
                rep.unknown('make_duration_formatter: how the left-over "%" is detected before TimeFormatError is raised was not recognised')
            continue
        if l.outcome != 'return' or l.value[0] not in ('localfunc', 'lambda'):
            continue
        if l.value[0] == 'lambda':
            # a lambda, or a nested `def f(seconds): return <expr>` (same thing to the evaluator): the body is the term
            if len(l.value[1]) != 1:
                rep.unknown('make_duration_formatter: returned function takes %d parameters' % len(l.value[1]))
                continue
            sec = ('lp', l.value[1][0])
            v = l.value[2]
            fnode = next((n for n in nested.values() if [a.arg for a in n.args.args] == list(l.value[1])), ffn)
        else:
            fnode = nested.get(l.value[2])
            if fnode is None:
                rep.unknown('make_duration_formatter: returned function not found')
                continue
            sec = ('p', fnode.args.args[0].arg)
            env = {k: v for k, v in l.env.items()}
            flv = [x for x in cx.sx.run('util', fnode, args={k: v for k, v in env.items() if k not in (sec[1],) and isinstance(v, tuple) and v[0] != 'localfunc'}) if x.outcome == 'return']
            if len(flv) != 1:
                rep.unknown('make_duration_formatter: formatter body has %d returning paths' % len(flv))
                continue
            v = flv[0].value
        ms = P.call('int', P.prod(P.same(sec), P.const(1000)))
        if cS and cS[0][1]:
            seen['S'] += 1
            ok = v == ('call', ('attr', ('c', '{:.3f}'), 'format'), (sec,), ()) or v == ('call', ('attr', ('c', '{0:.3f}'), 'format'), (sec,), ())
            rep.ob('%S renders seconds with three decimals ("{:.3f}")', ok, cx.where('util', fnode), 'make_duration_formatter[%S]', 'returns %s' % show(v)[:80], sample=dict(directive='%S', formatter=show(v)[:60]))
        elif cI and cI[0][1]:
            seen['I'] += 1
            ok = v[0] == 'call' and v[1][0] == 'attr' and v[1][2] == 'format' and v[1][1] in (('c', '{0}'), ('c', '{}'), ('c', '{:d}'), ('c', '{0:d}')) and len(v[2]) == 1 and ms(v[2][0])
            ok = ok or (v[0] == 'call' and v[1] == ('b', 'str') and len(v[2]) == 1 and ms(v[2][0]))
            rep.ob('%I renders whole milliseconds int(seconds * 1000)', ok, cx.where('util', fnode), 'make_duration_formatter[%I]', 'returns %s' % show(v)[:80], sample=dict(directive='%I', formatter=show(v)[:60]))
        else:
            seen['hmsi'] += 1
            okc = v[0] == 'call' and v[1][0] == 'attr' and v[1][2] == 'format'
            if not okc:
                rep.unknown('make_duration_formatter: general formatter does not end in str.format')
                continue
            kws = dict(v[3])
            tmpl = v[1][1]
            # the template: four replacements on fmt
            reps = {}
            cur = tmpl
            while cur[0] == 'call' and cur[1][0] == 'attr' and cur[1][2] == 'replace' and len(cur[2]) == 2 and cur[2][0][0] == 'c' and cur[2][1][0] == 'c':
                reps[cur[2][0][1]] = cur[2][1][1]
                cur = cur[1][1]
            want_rep = {'%h': 'hrs', '%m': 'mins', '%s': 'secs', '%i': 'millis'}
            names = {}
            for d_, fld in reps.items():
                m = re.match(r'^\{(\w+):0(\d)d\}$', fld)
                if m:
                    names[d_] = (m.group(1), int(m.group(2)))
            if not reps:
                # the template is not built by a chain of str.replace calls on the format (a table-driven / piecewise compiler): what each
                # directive becomes is not followed
                rep.unknown('make_duration_formatter: how the %%h/%%m/%%s/%%i directives are turned into fields was not recognised (template is %s)' % show(tmpl)[:70])
                continue
            for d_ in want_rep:
                width = 3 if d_ == '%i' else 2
                rep.ob('%s is replaced by a zero-padded %d-digit field' % (d_, width), d_ in names and names[d_][1] == width, cx.where('util', ffn), 'make_duration_formatter[%s]:field' % d_, 'replacement %r' % reps.get(d_))
            # the divmod chain in role
            def val(d_):
                return kws.get(names[d_][0]) if d_ in names else None
            H, M, S_, I_ = val('%h'), val('%m'), val('%s'), val('%i')
            chain_ok = False
            detail = 'hrs=%s mins=%s secs=%s millis=%s' % tuple(show(x)[:70] if x else None for x in (H, M, S_, I_))
            if all(x is not None for x in (H, M, S_, I_)):
                h, m_, s2, i2 = qr(H), qr(M), qr(S_), qr(I_)
                if all(x is not None for x in (h, m_, s2, i2)):
                    r1 = qr(m_[1])
                    r2 = qr(s2[1])
                    chain_ok = (h[0] == 'q' and ms(h[1]) and h[2] == ('c', 3600000)
                                and m_[0] == 'q' and r1 is not None and r1[0] == 'r' and ms(r1[1]) and r1[2] == ('c', 3600000) and m_[2] == ('c', 60000)
                                and s2[0] == 'q' and r2 is not None and r2[0] == 'r' and r2[1] == m_[1] and r2[2] == ('c', 60000) and s2[2] == ('c', 1000)
                                and i2[0] == 'r' and i2[1] == s2[1] and i2[2] == ('c', 1000))
            if not chain_ok and all(x is not None for x in (H, M, S_, I_)):
                # not the textbook chain: compare the four field terms with the reference decomposition on test durations
                from ..termeval import evaluate, NotEvaluable
                verdict = True
                for secs_v in (0, 0.9996, 59.9996, 61.5, 3599.999, 3723.25, 86399.999, 86400.0, 110662.5, 360000.001):
                    total = int(secs_v * 1000)
                    ref = (total // 3600000, total % 3600000 // 60000, total % 60000 // 1000, total % 1000)
                    try:
                        got = []
                        extra = []
                        for term_ in (H, M, S_, I_):
                            val_, lv_ = evaluate(term_, {sec: secs_v}, mode='frac')
                            got.append(val_)
                            extra += lv_
                    except NotEvaluable:
                        verdict = None
                        break
                    if extra:
                        verdict = None
                        break
                    if tuple(got) != ref:
                        verdict = False
                        detail += ' ; for %r s the fields are %s, the whole-millisecond decomposition is %s' % (secs_v, tuple(got), ref)
                        break
                if verdict is None:
                    rep.unknown('make_duration_formatter: the h/m/s/i fields (%s) are computed in a way the analyser cannot evaluate' % detail[:160])
                    continue
                chain_ok = verdict
            rep.ob('%h/%m/%s/%i decompose int(seconds*1000) by 3 600 000, 60 000 and 1 000 in that order (minutes, seconds < 60, millis < 1000, recomposing to the whole-millisecond value)', chain_ok,
                   cx.where('util', fnode), 'make_duration_formatter[hmsi]:chain', detail, sample=dict(directive='%h:%m:%s.%i', fields=detail[:200]))
    for k, n in seen.items():
        rep.ob('make_duration_formatter has a %s case' % k, n >= 1, cx.where('util', ffn), 'make_duration_formatter:missing-%s' % k)
    # ---------------------------------------------------------------- main(): argv -> parser -> make_kwargs; the wait loop ends when only the main thread is left
    try:
        mlv = cx.leaves('cmdline', 'main')
    except Exception as exc:
        mlv = []
        rep.unknown('main(): not analysable (%s)' % exc)
    from ..semantic import evaluator, Undecided
    from ..termeval import NotEvaluable
    nparse = 0
    SYSARGV = ('prog', '-a', 'b')
    for l in mlv:
        mk = [e[1] for e in l.effects if e[0] == 'call' and e[1][0] == 'call' and e[1][1] == ('g', 'cmdline_util', 'make_kwargs')]
        if not mk:
            continue
        pa = [e[1] for e in l.effects if e[0] == 'call' and e[1][0] == 'call' and e[1][1][0] == 'attr' and e[1][1][2] == 'parse_args']
        nparse += 1
        rep.ob('make_kwargs receives the parsed namespace', len(pa) == 1 and mk[0][2][:1] == (pa[0],), cx.where('cmdline', mfn), 'main:make_kwargs-arg', 'make_kwargs(%s)' % (show(mk[0][2][0])[-60:] if mk[0][2] else ''))
        if len(pa) != 1 or not pa[0][2]:
            rep.ob('main(argv): the parser reads argv, or sys.argv[1:] when argv is None', False, cx.where('cmdline', mfn), 'main:argv', 'parse_args calls on the path: %s' % [show(x)[-60:] for x in pa])
            continue
        # decided by evaluating the argument of parse_args for argv = None and for a given list, on the paths those values take
        try:
            for given, want in ((None, SYSARGV[1:]), (('x', 'y'), ('x', 'y'))):
                a_ = {('p', 'argv'): given, ('ext', 'sys.argv'): SYSARGV}
                applies = True
                for ct, tr, _ in l.conds:
                    if not any(x == ('p', 'argv') for x in walk(ct)):
                        continue
                    ev_ = evaluator(a_)
                    gotc = ev_.ev(ct)
                    if ev_.leaves:
                        raise Undecided('condition %s' % show(ct)[:50])
                    if bool(gotc) != tr:
                        applies = False
                if not applies:
                    continue
                ev_ = evaluator(a_)
                got = ev_.ev(pa[0][2][0])
                if ev_.leaves:
                    raise Undecided('argument %s' % show(pa[0][2][0])[:60])
                rep.ob('main(argv): the parser reads argv, or sys.argv[1:] when argv is None', tuple(got) == tuple(want) if isinstance(got, (tuple, list)) else False, cx.where('cmdline', mfn),
                       'main:argv[%s]' % ('None' if given is None else 'given'), 'with argv=%r and sys.argv=%r the parser is given %r' % (given, SYSARGV, got), sample=dict(argv=repr(given), parsed=repr(want)))
        except (Undecided, NotEvaluable) as exc:
            rep.unknown('main(): what the parser is given could not be evaluated (%s)' % exc)
    rep.floor('main() paths that build the keyword groups', nparse, 2)
    # the polling loop: EndOfProcessing exactly when threading.enumerate() holds one thread (the main one)
    NTHREADS = ('call', ('b', 'len'), (('call', ('ext', 'threading.enumerate'), (), ()),), ())
    ACTIVE = ('call', ('ext', 'threading.active_count'), (), ())          # by definition len(threading.enumerate())
    ends = [l for l in mlv if l.outcome == 'raise' and exc_name(l) == 'EndOfProcessing']
    goes = [l for l in mlv if l.outcome == 'loop-back']
    counted = any(x in (NTHREADS, ACTIVE) for l in ends + goes for ct, _, _ in l.conds for x in walk(ct))
    if not ends or not goes:
        rep.unknown('main(): the wait loop (raise EndOfProcessing / keep waiting) was not recognised')
    elif not counted:
        rep.unknown('main(): the wait loop does not test the number of live threads in a recognised way (len(threading.enumerate()) / threading.active_count())')
    else:
        try:
            bad = None
            for k_ in (1, 2, 3, 5):
                def takes(l):
                    for ct, tr, _ in l.conds:
                        if not any(x in (NTHREADS, ACTIVE) for x in walk(ct)):
                            continue
                        ev_ = evaluator({NTHREADS: k_, ACTIVE: k_})
                        got = ev_.ev(ct)
                        if ev_.leaves:
                            raise Undecided('condition %s depends on more than the number of threads' % show(ct)[:60])
                        if bool(got) != tr:
                            return False
                    return True
                e_, g_ = any(takes(l) for l in ends), any(takes(l) for l in goes)
                if (k_ == 1) != e_ or (k_ == 1) == g_:
                    bad = bad or 'with %d live thread(s) the loop %s' % (k_, 'ends' if e_ else 'keeps waiting')
            rep.ob('the program ends (status 0 path) exactly when only the main thread is left', bad is None, cx.where('cmdline', mfn), 'main:wait-loop', bad, sample=dict(rule='wait loop'))
        except (Undecided, NotEvaluable) as exc:
            rep.unknown('main(): wait loop condition not evaluable (%s)' % exc)
    # ---------------------------------------------------------------- exit codes
    rets1 = rets0 = False
    for n in ast.walk(mfn):
        if isinstance(n, ast.ExceptHandler) and n.type is not None and 'ArgumentError' in ast.unparse(n.type):
            r = [x for x in ast.walk(n) if isinstance(x, ast.Return)]
            rets1 = bool(r) and all(isinstance(x.value, ast.Constant) and x.value.value == 1 for x in r)
            rep.ob('-j without -O (ArgumentError from make_kwargs) exits with status 1', rets1, cx.where('cmdline', n), 'main:argument-error-status')
        if isinstance(n, ast.ExceptHandler) and n.type is not None and 'EndOfProcessing' in ast.unparse(n.type):
            r = [x for x in n.body if isinstance(x, ast.Return)]
            rets0 = bool(r) and all(isinstance(x.value, ast.Constant) and x.value.value == 0 for x in r)
            rep.ob('the normal end of processing exits with status 0', rets0, cx.where('cmdline', n), 'main:normal-status')
    has1 = any(isinstance(n, ast.ExceptHandler) and n.type is not None and 'ArgumentError' in ast.unparse(n.type) for n in ast.walk(mfn))
    has0 = any(isinstance(n, ast.ExceptHandler) and n.type is not None and 'EndOfProcessing' in ast.unparse(n.type) for n in ast.walk(mfn))
    if has1 and has0:
        rep.ob('main() has the ArgumentError -> 1 and end-of-processing -> 0 exits', rets1 and rets0, cx.where('cmdline', mfn), 'main:exit-paths')
    else:
        # the errors are handled some other way than by except clauses of main() (a context manager, a helper): their exit
        # status is not decided here
        rep.unknown('main(): the handlers that turn ArgumentError into status 1 and the end of processing into status 0 are not except clauses of main() (handled elsewhere: not decided)')
    # -j without -O raises ArgumentError in make_kwargs
    raising = [l for l in ml if l.outcome == 'raise']
    okj = False
    for l in raising:
        cj = any((g := norm_cmp(c[0], c[1])) and g[0] == 'is not' and g[1] == ('attr', ns, byflag['-j']['dest'] if '-j' in byflag else '') and g[2] == ('c', None) for c in l.conds)
        co = any((g := norm_cmp(c[0], c[1])) and g[0] == 'is' and g[1] == ('attr', ns, byflag['-O']['dest'] if '-O' in byflag else '') and g[2] == ('c', None) for c in l.conds)
        if exc_name(l) == 'ArgumentError' and cj and co:
            okj = True
    rep.ob('make_kwargs raises ArgumentError exactly for -j given (is not None) without -O', okj, cx.where('cmdline_util', kfn), 'make_kwargs:join-without-save', 'raising conditions %s' % [[(show(c[0])[:40], c[1]) for c in l.conds] for l in raising][:2])
    for l in rets:
        bad = any((g := norm_cmp(c[0], c[1])) and g[0] == 'is not' and g[1] == ('attr', ns, byflag['-j']['dest'] if '-j' in byflag else '') for c in l.conds) and \
            any((g := norm_cmp(c[0], c[1])) and g[0] == 'is' and g[1] == ('attr', ns, byflag['-O']['dest'] if '-O' in byflag else '') for c in l.conds)
        rep.ob('no accepting path of make_kwargs has -j without -O', not bad, cx.where('cmdline_util', kfn), 'make_kwargs:join-without-save-accepted')
    # (the conversion of -u is decided above by evaluating the paths of make_kwargs for sample values)
    rep.explanation = ('CLI tables extracted from the source on every run and compared with the spec table of the property: 33 add_argument calls -> (flags, dest, type, default); make_kwargs evaluated on all paths -> '
                       '(group, key) <- args_ns.<dest>; for the 14 named options and for -O -o -j -T -q --printf --time-format --timestamp-format the chain flag -> dest -> key is the specified one, with the '
                       'specified type and default; parser defaults equal the documented defaults parsed from the captured -h block of doc/command_line_usage.rst and the API defaults (split signature, '
                       'DEFAULT_ENERGY_THRESHOLD, AudioReader.block_dur, io.DEFAULT_*); every key written is read by a consumer and every args_ns read has a dest; -q <-> no PrintWorker; printf / time-format reach '
                       'the PrintWorker, whose line is the template filled with id and formatter(start/end/duration); formatter table: %S "{:.3f}", %I int(seconds*1000), %h%m%s%i zero-padded fields fed by the '
                       'divmod chain 3600000 / 60000 / 1000 in role, leftover % -> TimeFormatError; -j without -O -> ArgumentError -> return 1, normal end -> return 0. '
                       'main(): the parser is given argv, or sys.argv[1:] when argv is None (evaluated), its result goes to make_kwargs, the wait loop ends exactly when one thread is left (condition evaluated for 1..5 threads); -u VALUE reaches split() as int(VALUE) when int() accepts it (evaluated on the paths of make_kwargs, negative indices included); -o/-T reach the region saver in role. The parser table is read from the evaluated add_argument calls (helpers, loops over option tables, partial() expanded). NOT decided: stdout for all recordings; int(seconds*1000) float truncation.')
    rep.assumptions = ['argparse semantics', 'C12 (ids from 1, every detection once, in order) and C05-C08 for what split() returns']
