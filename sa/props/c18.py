"""C18 -- audio survives save/load unchanged; load(skip, max_read) equals slicing (DESIGN 4.18)"""
import ast

from ..facts import Ctx, norm_cmp, exc_name, tuple_components
from ..symex import show, walk, term_name, bind_call
from .. import pat as P
from .c05 import check_roles
from .c10 import check_nullness

LEVEL = 'other'
SELF = P.Pat(lambda t: t == ('self',), 'self')


def is_exists_test(ct):
    """os.path.exists(x) / x.exists() / os.path.isfile(x)"""
    return ct[0] == 'call' and ((ct[1][0] == 'attr' and ct[1][2] in ('exists', 'is_file')) or term_name(ct[1]) in ('os.path.exists', 'os.path.isfile', 'os.path.lexists'))


def check(repo, rep):
    cx = Ctx(repo)
    rep.cx = cx
    W = lambda n: cx.where('core', n)
    # ---------------------------------------------------------------- nullness of read results reaching a region (D4)
    sites, opt = check_nullness(cx, rep, lambda f: cx.in_module(f['mod'], 'core'))
    # ---------------------------------------------------------------- save()
    sl = cx.leaves('core', 'AudioRegion.save')
    sfn = cx.fn('core', 'AudioRegion.save')
    nsave = 0
    for l in sl:
        tf = [e for e in l.effects if e[0] == 'call' and e[1][0] == 'call' and e[1][1] == ('g', 'io', 'to_file')]
        where = W(l.node) if l.node is not None else W(sfn)
        if l.outcome == 'raise':
            rep.ob('refusing to overwrite raises FileExistsError', exc_name(l) == 'FileExistsError', where, 'AudioRegion.save:exception', 'raises %s' % exc_name(l))
            rep.ob('nothing is written when save() refuses', not tf, where, 'AudioRegion.save:write-before-refusal', 'to_file is called on a refusing path')
            ok = any(c[0] == ('p', 'exists_ok') and not c[1] for c in l.conds) and any(is_exists_test(c[0]) and c[1] for c in l.conds)
            rep.ob('save() refuses only when exists_ok is False and the file exists', ok, where, 'AudioRegion.save:refusal-condition', 'refuses under %s' % [(show(c[0])[:40], c[1]) for c in l.conds])
            continue
        if not tf:
            rep.ob('every accepting path of save() writes the file', False, where, 'AudioRegion.save:no-write')
            continue
        nsave += 1
        t = tf[0]
        call = t[1]
        b = bind_call(call, cx.fn('io', 'to_file'))
        fname = b.get('filename')
        rep.ob('save() writes the region\'s own bytes', b.get('data') == ('attr', ('self',), 'data'), cx.where('core', t[3]), 'AudioRegion.save:data', 'writes %s' % (show(b.get('data'))[:60] if b.get('data') else None))
        rep.ob('save() passes the requested audio format on', b.get('audio_format') == ('p', 'audio_format'), cx.where('core', t[3]), 'AudioRegion.save:format')
        # exists_ok=False: the existence test precedes the write on this path
        nok = [c for c in l.conds[:t[4]] if c[0] == ('p', 'exists_ok')]
        if any(not c[1] for c in l.conds if c[0] == ('p', 'exists_ok')):
            tests = [c for c in l.conds[:t[4]] if is_exists_test(c[0]) and not c[1]]
            on_this_name = [c for c in tests if fname is not None and (fname in c[0][2] or c[0][1][1] == fname or (c[0][1][0] == 'attr' and c[0][1][1] == fname))]
            is_path = any(c[0][0] == 'call' and c[0][1] == ('b', 'isinstance') and term_name(c[0][2][1]).endswith('Path') and c[1] for c in l.conds)
            is_str = any(c[0][0] == 'call' and c[0][1] == ('b', 'isinstance') and c[0][2][1] == ('b', 'str') and c[1] for c in l.conds)
            if is_path or is_str:
                rep.ob('with exists_ok=False the existence of the target is tested BEFORE writing (Path and str names)', bool(on_this_name), cx.where('core', t[3]),
                       'AudioRegion.save:exists-test[%s]' % ('Path' if is_path and not is_str else 'str' if is_str and not is_path else 'Path+str'),
                       'exists_ok=False path writes %s after tests %s' % (show(fname)[:60] if fname else None, [show(c[0])[:60] for c in tests]), sample=dict(path='exists_ok=False', tests=[show(c[0])[:70] for c in on_this_name]))
        # placeholders
        is_str = any(c[0][0] == 'call' and c[0][1] == ('b', 'isinstance') and c[0][2][1] == ('b', 'str') and c[1] for c in l.conds)
        if is_str:
            okf = fname is not None and fname[0] == 'call' and fname[1] == ('attr', ('p', 'filename'), 'format')
            rep.ob('a str file name is expanded with str.format before writing', okf, cx.where('core', t[3]), 'AudioRegion.save:format-call', 'target is %s' % (show(fname)[:100] if fname else None))
            if okf:
                from ..facts import kwargs_of
                kws = kwargs_of(fname)
                if '**' in kws:
                    rep.unknown('AudioRegion.save: format arguments passed through an unresolved **mapping')
                    continue
                for k in ('start', 'end', 'duration'):
                    rep.ob('{%s} in the file name is filled from the region\'s %s' % (k, k), kws.get(k) == ('attr', ('self',), k), cx.where('core', t[3]), 'AudioRegion.save:placeholder-%s' % k,
                           '{%s} is %s' % (k, show(kws[k])[:60] if k in kws else 'missing'), sample=dict(placeholder=k, value=show(kws[k])[:40] if k in kws else None))
                rep.ob('save() returns the expanded file name', l.outcome == 'return' and l.value == fname, where, 'AudioRegion.save:return', 'returns %s' % show(l.value)[:80])
    rep.floor('accepting paths of AudioRegion.save', nsave, 4)
    # ---------------------------------------------------------------- to_file dispatch and the writers
    tl = cx.leaves('io', 'to_file')
    tfn = cx.fn('io', 'to_file')
    guess = [e[1] for l in tl for e in l.effects if e[0] == 'call' and e[1][0] == 'call' and e[1][1] == ('g', 'io', '_guess_audio_format')]
    rep.ob('to_file guesses the format from (filename, audio_format)', bool(guess) and all(g[2] == (('p', 'filename'), ('p', 'audio_format')) for g in guess), cx.where('io', tfn), 'to_file:guess-args')
    # decided by taking each format through the path conditions of to_file (the guessed format is the value of the guess call)
    from ..semantic import evaluator, Undecided
    from ..termeval import NotEvaluable
    if not guess:
        rep.unknown('to_file: the call that guesses the format was not found')
    else:
        gterm = guess[0]
        try:
            for fmt_, want in ((None, '_save_raw'), ('raw', '_save_raw'), ('wav', '_save_wave')):
                hit = []
                for l in tl:
                    ok_ = True
                    for ct, tr, _ in l.conds:
                        if not any(x == gterm or x == ('p', 'audio_format') for x in walk(ct)):
                            continue
                        ev_ = evaluator({gterm: fmt_, ('p', 'audio_format'): fmt_})
                        got = ev_.ev(ct)
                        if ev_.leaves:
                            raise Undecided('condition %s' % show(ct)[:60])
                        if bool(got) != tr:
                            ok_ = False
                            break
                    if ok_:
                        hit.append(l)
                if not hit:
                    raise Undecided('no path applies to format %r' % (fmt_,))
                for l in hit:
                    if l.outcome == 'raise' and want == '_save_wave' and exc_name(l) == 'AudioParameterError':
                        continue        # missing audio parameters for wav: a documented error
                    calls = [e[1] for e in l.effects if e[0] == 'call' and e[1][0] == 'call' and e[1][1][0] == 'g' and e[1][1][2].startswith('_save')]
                    ok = len(calls) == 1 and calls[0][1][2] == want and calls[0][2][:2] == (('p', 'data'), ('p', 'filename'))
                    if want == '_save_raw':
                        rep.ob('to_file: raw (or no) format writes the bytes unchanged to the named file', ok, cx.where('io', tfn), 'to_file[%s]' % fmt_, 'format %r: calls %s' % (fmt_, [show(c)[:80] for c in calls]),
                               sample=dict(format=fmt_, calls=[show(c)[:70] for c in calls]))
                    else:
                        rep.ob('to_file: wav format goes to the wave writer with the same data and name', ok, cx.where('io', tfn), 'to_file[%s]' % fmt_, 'format %r: calls %s' % (fmt_, [show(c)[:80] for c in calls]),
                               sample=dict(format=fmt_, calls=[show(c)[:70] for c in calls]))
        except (Undecided, NotEvaluable) as exc:
            rep.unknown('to_file: dispatch on the format could not be evaluated (%s)' % exc)
    from ..semantic import deep_leaves as _dl18, Undecided as _U18

    def _deep(name):
        try:
            f_ = cx.fn('io', name)
            return _dl18(cx, getattr(f_, '_home', 'io'), None, f_)
        except _U18:
            return cx.leaves('io', name)
    wl = _deep('_save_wave')
    for l in wl:
        if l.outcome == 'raise':
            continue
        wr = [e[1] for e in l.effects if e[0] == 'call' and e[1][0] == 'call' and e[1][1][0] == 'attr' and e[1][1][2] in ('writeframes', 'writeframesraw')]
        rep.ob('the wave writer writes exactly the given bytes', len(wr) == 1 and wr[0][2] == (('p', 'data'),), cx.where('io', cx.fn('io', '_save_wave')), '_save_wave:writeframes', 'writes %s' % [show(w)[:60] for w in wr])
        sets = {e[1][1][2] for e in l.effects if e[0] == 'call' and e[1][0] == 'call' and e[1][1][0] == 'attr' and e[1][1][2] in ('setframerate', 'setsampwidth', 'setnchannels')}
        rep.ob('the wave header gets rate, width and channel count', sets == {'setframerate', 'setsampwidth', 'setnchannels'}, cx.where('io', cx.fn('io', '_save_wave')), '_save_wave:header', 'setters called: %s' % sorted(sets))
    rl = _deep('_save_raw')
    for l in rl:
        wr = [e[1] for e in l.effects if e[0] == 'call' and e[1][0] == 'call' and e[1][1][0] == 'attr' and e[1][1][2] == 'write']
        rep.ob('the raw writer writes exactly the given bytes', len(wr) == 1 and wr[0][2] == (('p', 'data'),), cx.where('io', cx.fn('io', '_save_raw')), '_save_raw:write', 'writes %s' % [show(w)[:60] for w in wr])
    # ---------------------------------------------------------------- _read_offline / load
    from ..facts import split_ites
    ol = split_ites(cx.leaves('core', '_read_offline'))
    ofn = cx.fn('core', '_read_offline')
    nol = 0
    for l in ol:
        if l.outcome != 'return':
            continue
        nol += 1
        reads = [e for e in l.effects if e[0] == 'call' and e[1][0] == 'call' and e[1][1][0] == 'attr' and e[1][1][2] == 'read']
        src = reads[-1][1][1][1] if reads else None
        oksrc = src is not None and src[0] == 'call' and src[1] == ('g', 'io', 'get_audio_source') and src[2][:1] == (('p', 'input'),)
        rep.ob('load() reads from get_audio_source(input, **kwargs)', oksrc, W(l.node), '_read_offline:source', 'source is %s' % (show(src)[:80] if src else None))
        rate = P.role('sampling_rate', P.same(src)) if src else P.ANY
        skipping = any((g := norm_cmp(c[0], c[1])) and g[0] == '>' and g[1] == ('p', 'skip') and g[2] == ('c', 0) for c in l.conds)
        limited = any((g := norm_cmp(c[0], c[1])) and g[0] == '>=' and g[1] == ('p', 'max_read') and g[2] == ('c', 0) for c in l.conds)
        # which values of max_read take this path: None, a negative one, zero and a positive one are taken through the path's tests on it
        from ..semantic import evaluator as _ev18
        from ..termeval import NotEvaluable as _NE18
        takers = []
        undecided_mr = False
        for mr_ in (None, -1.0, 0, 2.5):
            ok_ = True
            for ct, tr, _ in l.conds:
                if not any(x == ('p', 'max_read') for x in walk(ct)):
                    continue
                try:
                    e_ = _ev18({('p', 'max_read'): mr_})
                    got_ = e_.ev(ct)
                except _NE18:
                    continue                       # e.g. None < 0 after an `is None` test that already excluded the value
                if e_.leaves:
                    continue                       # a test on something computed from max_read (the result of the read), not on max_read itself
                if bool(got_) != tr:
                    ok_ = False
                    break
            if ok_:
                takers.append(mr_)
        if takers and not undecided_mr:
            if set(takers) <= {0, 2.5}:
                limited = True
            elif set(takers) <= {None, -1.0}:
                limited = False
            else:
                rep.unknown('_read_offline: a path is taken both with and without a max_read limit (%s)' % takers)
                continue
        exp = (1 if skipping else 0) + 1
        rep.ob('load(): one skip read (only when skip > 0) then exactly one data read', len(reads) == exp, W(l.node), '_read_offline:reads[skip=%s]' % skipping, '%d reads on the path' % len(reads))
        if len(reads) != exp:
            continue
        if skipping:
            a = reads[0][1][2][0] if reads[0][1][2] else None
            rep.ob('skip is converted to round(skip * rate) samples', a is not None and P.call('round', P.prod(P.param('skip'), rate))(a), cx.where('core', reads[0][3]), '_read_offline:skip-samples', 'skips %s' % (show(a)[:100] if a else None),
                   sample=dict(step='skip', samples=show(a)[:80] if a else None))
        a = reads[-1][1][2][0] if reads[-1][1][2] else None
        if limited:
            rep.ob('max_read is converted to round(max_read * rate) samples', a is not None and P.call('round', P.prod(P.param('max_read'), rate))(a), cx.where('core', reads[-1][3]), '_read_offline:max-samples',
                   'reads %s' % (show(a)[:100] if a else None), sample=dict(step='data', samples=show(a)[:80] if a else None))
        else:
            isnone = a == ('c', None) or (a == ('p', 'max_read') and any((g := norm_cmp(c[0], c[1])) and g[0] == 'is' and g[1] == ('p', 'max_read') and g[2] == ('c', None) for c in l.conds)) \
                or (a == ('p', 'max_read') and takers and not undecided_mr and set(takers) <= {None, -1.0})        # read(None) / read(negative) both mean: everything
            rep.ob('without max_read (None or negative) everything that remains is read', isnone, cx.where('core', reads[-1][3]), '_read_offline:read-all', 'reads %s' % (show(a)[:60] if a else None))
        v = l.value
        R_ = reads[-1][1]
        comps = tuple_components(cx, v)
        d0 = comps[0] if comps else None
        okv = d0 is not None and (d0 == R_ or d0 == ('c', b'') or d0 == ('or', (R_, ('c', b''))) or
                                  (d0[0] == 'ite' and ((norm_cmp(d0[1], True) == ('is', R_, ('c', None)) and d0[2] == ('c', b'') and d0[3] == R_) or
                                                       (norm_cmp(d0[1], True) == ('is not', R_, ('c', None)) and d0[2] == R_ and d0[3] == ('c', b'')))))
        rep.ob('load() returns the data of the LAST read (after the skip) or empty bytes', okv, W(l.node), '_read_offline:result', 'returns %s' % show(v)[:100])
        opens = [i for i, e in enumerate(l.effects) if e[0] == 'call' and e[1][0] == 'call' and e[1][1][0] == 'attr' and e[1][1][2] == 'open']
        firstread = min(i for i, e in enumerate(l.effects) if e in reads)
        rep.ob('the source is opened before it is read', bool(opens) and opens[0] < firstread, W(l.node), '_read_offline:open-first')
    rep.floor('_read_offline returning paths', nol, 6)
    # load / AudioRegion.load delegation
    ll = cx.leaves('core', 'load')
    for l in ll:
        if l.outcome == 'return':
            v = l.value
            ok = v[0] == 'call' and v[1][0] == 'attr' and v[1][2] == 'load' and v[2] == (('p', 'input'), ('p', 'skip'), ('p', 'max_read')) and dict(v[3]).get('**') == ('p', 'kwargs')
            rep.ob('load() delegates (input, skip, max_read, **kwargs) in role', ok, W(l.node), 'load:delegation', 'returns %s' % show(v)[:100])
    al = cx.leaves('core', 'AudioRegion.load')
    for l in al:
        if l.outcome != 'return':
            continue
        v = l.value
        off = [e[1] for e in l.effects if e[0] == 'call' and e[1][0] == 'call' and e[1][1] == ('g', 'core', '_read_offline')]
        if off:
            b = bind_call(off[0], ofn)
            ok = b.get('input') == ('p', 'input') and b.get('skip') == ('p', 'skip') and b.get('max_read') == ('p', 'max_read')
            rep.ob('AudioRegion.load passes input / skip / max_read in role to the offline reader', ok, W(l.node), 'AudioRegion.load:args', 'call is %s' % show(off[0])[:100])
            okr = v[0] == 'call' and v[1] == ('p', 'cls') and ((len(v[2]) == 4 and all(v[2][i] == ('sub', off[0], ('c', i)) for i in range(4))) or v[2] == (('star', off[0]),))
            rep.ob('the loaded region is built from (data, rate, width, channels) in that order', okr, W(l.node), 'AudioRegion.load:result', 'returns %s' % show(v)[:120])
    # numpy export
    nl = cx.leaves('core', 'AudioRegion.numpy')
    for l in nl:
        if l.outcome == 'return':
            v = l.value
            ok = v[0] == 'call' and term_name(v[1]).endswith('to_array') and v[2][:1] == (('attr', ('self',), 'data'),)
            rep.ob('numpy() decodes the region\'s own bytes with to_array (C07: shape (channels, samples), signed integers)', ok, W(l.node), 'AudioRegion.numpy', 'returns %s' % show(v)[:100])
    from .c11 import check_no_memoised_io
    check_no_memoised_io(cx, rep)          # load after save of the same name must see the new file
    from .c09 import check_guess_format
    check_guess_format(cx, rep)          # savers and loaders dispatch on the normalised format name
    check_roles(cx, rep, lambda p: p['func'] in ('AudioRegion.save', 'to_file', '_save_wave', '_save_with_pydub', '_load_wave', '_load_raw', 'from_file', 'WaveAudioSource.__init__', '_read_offline', '_read_chunks_online',
                                                 'AudioRegion.load', 'AudioRegion.numpy', 'get_audio_source', '_get_audio_parameters'), floor=40)
    from . import c09
    rep.explanation = ('Decided from provenance terms and the role rule: writer and reader agree on roles (setframerate/getframerate <-> rate, setsampwidth/getsampwidth <-> width, setnchannels/getnchannels <-> channels '
                       'at every hand-over); to_file guesses the format from (filename, audio_format) and sends raw/None to the raw writer and wav to the wave writer with the same bytes and name, the writers write '
                       'exactly those bytes; save(): {start}/{end}/{duration} filled from the same-named attributes, with exists_ok=False the existence test on the FINAL name precedes the write on the Path and the str '
                       'branch and raises FileExistsError without writing; load: source from get_audio_source(input, **kwargs), opened first, one skip read of round(skip*rate) samples only when skip > 0, then one '
                       'data read of round(max_read*rate) samples (all when None/negative), the result is that last read and is never None where it reaches AudioRegion (nullness, finding D4); numpy() = to_array(own bytes). '
                       'The lazy/eager loader dispatch is decided in C09. NOT decided: round-trip equality as a value.')
    rep.assumptions = ['wave and open() round-trip bytes faithfully', 'C11 (sources deliver successive whole-sample chunks)']
