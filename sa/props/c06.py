"""C06 -- durations in seconds are honoured, counted in analysis windows (DESIGN 4.6, B.2)"""
import ast

from ..facts import Ctx, norm_cmp, exc_name, const_value
from ..symex import show, walk, term_name, bind_call
from .. import pat as P
from ._split import SplitWiring, is_attr_of

LEVEL = 'other'

SPEC = {'min_length': ('min_dur', 'ceil', -1), 'max_length': ('max_dur', 'floor', +1), 'max_continuous_silence': ('max_silence', 'floor', +1)}


def conversion(cx, v):
    """decompose a window-count term into (duration term, window term, rounding name, epsilon value|None|'?')
    accepts a call of the conversion helper (bound to its parameters) or the inline formula"""
    if v is None:
        return None
    if v[0] == 'call' and v[1][0] == 'g':
        lk = cx.model.lookup(v[1])
        if lk and lk[0] == 'func':
            fn = lk[1]
            b = bind_call(v, fn)
            # evaluate the helper on its general path with the arguments bound
            args = {k: x for k, x in b.items() if not k.startswith('*')}
            params = [a.arg for a in fn.args.args]
            for i, pn in enumerate(params):
                if pn not in args:
                    j = i - (len(params) - len(fn.args.defaults))
                    if j >= 0:
                        args[pn] = cx.sx.term(fn.args.defaults[j], {}, v[1][1])
            lv = [l for l in cx.sx.run(v[1][1], fn, args=args) if l.outcome == 'return']
            gen = [l for l in lv if l.value != ('c', 0)]
            if len(gen) == 1:
                return conversion_inline(cx, gen[0].value)
            return None
    return conversion_inline(cx, v)


def conversion_inline(cx, v):
    # int(round_fn(duration / window + eps))   (int optional)
    if v[0] == 'call' and v[1] == ('b', 'int') and len(v[2]) == 1:
        v = v[2][0]
    if v[0] != 'call' or len(v[2]) != 1:
        return None
    rn = term_name(v[1]).split('.')[-1]
    inner = v[2][0]
    eps = None
    if inner[0] == 'bin' and inner[1] in ('+', '-') and not (inner[2][0] == 'bin' and inner[2][1] == '/' and False):
        a, b = inner[2], inner[3]
        quo = None
        if a[0] == 'bin' and a[1] == '/':
            quo, e = a, b
            sign = 1 if inner[1] == '+' else -1
        elif b[0] == 'bin' and b[1] == '/' and inner[1] == '+':
            quo, e = b, a
            sign = 1
        if quo is None:
            return None
        try:
            eps = sign * const_value(cx, e)
        except ValueError:
            eps = '?'
        inner = quo
    if inner[0] == 'bin' and inner[1] == '/':
        return dict(duration=inner[2], window=inner[3], rounding=rn, eps=eps)
    return None


def check(repo, rep):
    cx = Ctx(repo)
    rep.cx = cx
    sw = SplitWiring(cx)
    fn = sw.fn
    rep.floor('returning paths of split()', len(sw.paths), 4)
    # ---------------------------------------------------------------- conversions
    nconv = 0
    for d in sw.paths:
        w = d['where']
        tag = 'split[%s]' % ('AudioReader input' if d['reader_branch'] else 'other input')
        ta = sw.tokenizer_args(d) if d['tok'] is not None else None
        if ta is None or d['src'] is None:
            rep.unknown('split(): tokenizer construction not resolved on a returning path')
            continue
        args, ctor = ta
        windows = []
        for pn, (dur, rnd, sign) in SPEC.items():
            v = args.get(pn)
            cv = conversion(cx, v)
            if cv is None:
                rep.unknown('split(): %s = %s is not a recognised duration/window conversion' % (pn, show(v)[:120] if v else None))
                continue
            nconv += 1
            rep.ob('%s is converted from %s' % (pn, dur), cv['duration'] == ('p', dur), w, '%s:%s-duration' % (tag, pn), '%s converts %s' % (pn, show(cv['duration'])[:80]))
            rep.ob('%s is rounded with %s (%s)' % (pn, rnd, 'smallest count covering min_dur' if rnd == 'ceil' else 'never beyond the duration'), cv['rounding'] == rnd, w,
                   '%s:%s-rounding' % (tag, pn), '%s is rounded with %s' % (pn, cv['rounding']), sample=dict(path=tag, count=pn, conversion='%s(%s / W %+g)' % (cv['rounding'], dur, cv['eps'] or 0) if cv['eps'] != '?' else '?'))
            e = cv['eps']
            if e == '?':
                rep.unknown('split(): tolerance of the %s conversion is not a constant' % pn)
            else:
                ok = e is not None and e != 0 and (e < 0) == (sign < 0) and abs(e) <= 1e-6
                rep.ob('%s conversion carries a small non-zero tolerance whose sign opposes the rounding direction (%s)' % (rnd, 'negative for ceil' if sign < 0 else 'positive for floor'),
                       ok, w, '%s:%s' % ('split', pn), 'tolerance of the %s conversion is %r' % (pn, e))
                # magnitude: it has to absorb the rounding error of the float quotient, about 2**-53 * q for q windows;
                # below 1e-12 it fails for a few thousand windows (machine epsilon already fails for 0.07/0.01)
                if e is not None and e != 0:
                    rep.ob('the tolerance is large enough to absorb the rounding error of duration / window (|eps| >= 1e-12)', abs(e) >= 1e-12, w, 'split:%s-tolerance-magnitude' % pn,
                           'tolerance of the %s conversion is %r: smaller than the rounding error of quotients such as 0.07/0.01 = 7.000000000000001' % (pn, e))
            windows.append((pn, cv['window']))
        if windows:
            same = all(wt == windows[0][1] for _, wt in windows)
            rep.ob('all three durations are divided by the same window', same, w, tag + ':same-window', 'windows: %s' % [(a, show(b)[:60]) for a, b in windows])
            W0 = windows[0][1]
            src = d['src']
            if d['reader_branch']:
                ok = is_attr_of(src, names=['block_dur'])(W0) or P.binop('/', is_attr_of(src, names=['block_size']), is_attr_of(src, roles=['sampling_rate']))(W0)
                rep.ob('for an AudioReader input the window is the reader\'s block duration', ok, w, tag + ':window-source', 'window is %s' % show(W0)[:100], sample=dict(path=tag, window=show(W0)[:80]))
            else:
                kw = P.param('kwargs')
                fo = P.first_of(kw, 'analysis_window', 'aw', P.ANY)
                ok = fo(W0)
                rep.ob('otherwise the window is the analysis_window argument (alias aw, long name wins)', ok, w, tag + ':window-source', 'window is %s' % show(W0)[:160], sample=dict(path=tag, window=show(W0)[:120]))
                # the reader is built with that very window
                if src[0] == 'call':
                    bd = dict(src[3]).get('block_dur')
                    rep.ob('the reader built by split() frames the input with the same window', bd == W0, w, tag + ':reader-window', 'reader block_dur is %s' % (show(bd)[:100] if bd else None))
    rep.floor('duration->window conversions on paths', nconv, 12)
    # the helper itself
    h = cx.fn('core', '_duration_to_nb_windows', required=False)
    if h is not None:
        hl = cx.leaves('core', '_duration_to_nb_windows')
        gen = [l for l in hl if l.outcome == 'return' and l.value != ('c', 0)]
        for l in gen:
            cv = conversion_inline(cx, l.value)
            ok = cv is not None and cv['duration'] == ('p', 'duration') and cv['window'] == ('p', 'analysis_window') and cv['rounding'] == 'round_fn' \
                and l.value[0] == 'call' and l.value[1] == ('b', 'int')
            rep.ob('conversion helper returns int(round_fn(duration / analysis_window + epsilon))', ok, cx.where('core', l.node), '_duration_to_nb_windows:formula', 'returns %s' % show(l.value)[:160],
                   sample=dict(helper='_duration_to_nb_windows', returns=show(l.value)[:120]))
        rep.floor('conversion helper general return paths', len(gen), 1)

    # ---------------------------------------------------------------- guard table of split()
    raising = [l for l in sw.leaves if l.outcome == 'raise']
    spec_guards = {
        'min_dur<=0': lambda g, l: g and g[0] == '<=' and g[1] == ('p', 'min_dur') and g[2] == ('c', 0),
        'max_dur<=0': lambda g, l: g and g[0] == '<=' and g[1] == ('p', 'max_dur') and g[2] == ('c', 0),
        'max_silence<0': lambda g, l: g and g[0] == '<' and g[1] == ('p', 'max_silence') and g[2] == ('c', 0),
        'analysis_window<=0': lambda g, l: g and g[0] == '<=' and P.first_of(P.param('kwargs'), 'analysis_window', 'aw', P.ANY)(g[1]) and g[2] == ('c', 0),
        'too-small-window': lambda g, l: any(e[0] == 'except' and term_name(e[1]).endswith('TooSmallBlockDuration') for e in l.effects),
        'min_length>max_length': lambda g, l: g and ((g[0] == '>' and is_count(cx, g[1], 'min_dur') and is_count(cx, g[2], 'max_dur')) or (g[0] == '<' and is_count(cx, g[1], 'max_dur') and is_count(cx, g[2], 'min_dur'))),
        'max_continuous_silence>=max_length': lambda g, l: g and ((g[0] == '>=' and is_count(cx, g[1], 'max_silence') and is_count(cx, g[2], 'max_dur')) or (g[0] == '<=' and is_count(cx, g[1], 'max_dur') and is_count(cx, g[2], 'max_silence'))),
    }
    found = {k: [] for k in spec_guards}
    opaque_raise = False
    for l in raising:
        depth_ = 0
        for e in l.effects:
            depth_ += 1 if e[0] == 'loop-enter' else (-1 if e[0] == 'loop-exit' else 0)
        if depth_ > 0 or any(e[0] == 'loop-exit' and e[1] == 'raise' for e in l.effects):
            # raised from inside a loop (a table of checks walked by a for statement, a generator of failed checks): which
            # parameter values lead there is not a condition of the path
            opaque_raise = True
            rep.unknown('split(): a raise inside a loop at %s -- the parameter check it implements was not recognised' % cx.where('core', l.node))
            continue
        g = norm_cmp(l.conds[-1][0], l.conds[-1][1]) if l.conds else None
        hit = [k for k, f in spec_guards.items() if f(g, l)]
        en = exc_name(l)
        where = cx.where('core', l.node)
        if not hit:
            # a near miss on a spec'd variable is a violation (comparator changed); anything else is an extra guard
            cond = show(l.conds[-1][0]) if l.conds else '(unconditional)'
            rep.ob('split() raises only for the documented parameter errors', False, where, 'split:guard[%s is %s]' % (cond[:60], l.conds[-1][1] if l.conds else ''),
                   'split() raises %s when %s is %s -- not one of: %s' % (en, cond[:100], l.conds[-1][1] if l.conds else '', ', '.join(spec_guards)))
            continue
        for k in hit:
            found[k].append(l)
            rep.ob('split() raises ValueError for %s' % k, en == 'ValueError', where, 'split:guard-type[%s]' % k, 'raises %s for %s' % (en, k), sample=dict(guard=k, raises=en))
    for k, ls in found.items():
        if not ls and opaque_raise:
            continue                    # may be one of the checks done in the loop (already INCONCLUSIVE)
        rep.ob('split() rejects %s' % k, bool(ls), cx.where('core', fn), 'split:missing-guard[%s]' % k, 'no raising path of split() has the guard %s' % k)
    # order: the parameter checks precede the construction of the reader/tokenizer (they must not be skipped on some path)
    rets = [l for l in sw.leaves if l.outcome == 'return']
    for l in rets:
        gs = [norm_cmp(c[0], c[1]) for c in l.conds]
        need = [('>', ('p', 'min_dur')), ('>', ('p', 'max_dur')), ('>=', ('p', 'max_silence'))]
        for op, v in need:
            ok = any(g and g[0] == op and g[1] == v and g[2] == ('c', 0) for g in gs)
            if not ok and opaque_raise:
                continue
            rep.ob('every successful path of split() has passed the %s %s 0 check' % (v[1], op), ok, cx.where('core', l.node), 'split:unchecked-path[%s]' % v[1])
    # too-small window in the framing reader (shared with C10)
    fl = cx.leaves('util', '_FixedSizeAudioReader.__init__')
    small = [l for l in fl if l.outcome == 'raise' and exc_name(l) == 'TooSmallBlockDuration']
    for l in small:
        g = norm_cmp(l.conds[-1][0], l.conds[-1][1]) if l.conds else None
        ok = (g is not None and g[2] == ('c', 0) and g[0] == '==') or (l.conds and l.conds[-1][0][0] == 'attr' and l.conds[-1][1] is False) or (g is not None and (g[0], g[2]) in (('<', ('c', 1)), ('<=', ('c', 0))))
        if not ok and l.conds:
            from .c10 import small_block_guard_ok
            sem_ = small_block_guard_ok(l.conds[-1][0], l.conds[-1][1], lambda x: (x[0] == 'attr' and x[1] == ('self',) and 'block_size' in x[2]) or P.call('int', P.prod(P.param('block_dur'), P.role('sampling_rate')))(x))
            if sem_ is None:
                rep.unknown('_FixedSizeAudioReader.__init__: the condition under which TooSmallBlockDuration is raised (%s) could not be evaluated' % show(l.conds[-1][0])[:80])
                continue
            ok = sem_
        rep.ob('a window shorter than one sample (int(window*rate) == 0) is rejected', ok, cx.where('util', l.node), '_FixedSizeAudioReader.__init__:TooSmallBlockDuration', 'raised under %s' % (show(l.conds[-1][0]) if l.conds else None))
    rep.ob('a window shorter than one sample is rejected', bool(small), cx.where('util', cx.fn('util', '_FixedSizeAudioReader.__init__')), '_FixedSizeAudioReader.__init__:no-too-small-guard')
    from .c10 import check_reported_durations
    check_reported_durations(cx, rep)          # the window split() uses for reader inputs is the reader's reported block duration
    rep.explanation = ('Conversion sites and guard table of split() decided from provenance terms on every path: min_dur -> ceil with a NEGATIVE tolerance, max_dur and max_silence -> floor with a '
                       'POSITIVE tolerance, all three over the same window; the window is the reader\'s block duration for AudioReader inputs, otherwise FirstOf(kwargs; analysis_window, aw; default), '
                       'and the reader is framed with that same window; split() raises ValueError exactly for the 7 documented guards and for nothing else, and every successful path has passed the '
                       'three sign checks. NOT decided: float numerics, nor whether the magnitude 1e-10 honours the "within 1e-9" wording (only: non-zero, right sign, 1e-12 <= |eps| <= 1e-6).')
    rep.assumptions = ['C02/C03 bound token lengths and silence runs by the window counts passed here']
    rep.analysed['functions'] = ['core.split', 'core._duration_to_nb_windows', 'util._FixedSizeAudioReader.__init__']


def is_count(cx, t, dur):
    cv = conversion(cx, t)
    return cv is not None and cv['duration'] == ('p', dur)
