"""C11 -- audio sources hand out successive whole-sample chunks, then None (DESIGN 4.11)"""
import ast

from ..facts import Ctx, norm_cmp, exc_name
from ..symex import show, walk, term_name, ROLE_OF
from .. import pat as P
from .c05 import check_roles

LEVEL = 'other'
SELF = P.Pat(lambda t: t == ('self',), 'self')


def concrete_sources(cx):
    m = cx.model
    base = cx.cls('io', 'AudioSource')
    out = []
    for mod, c in m.subclasses('io', base):
        if not m.is_abstract(mod, c):
            out.append((mod, c))
    return sorted(out, key=lambda x: x[1].lineno)


def open_check(ct):
    """is this condition an 'is the source open' test?  -> (True, polarity) polarity = truth value meaning OPEN"""
    if ct[0] == 'call' and ct[1][0] == 'attr' and ct[1][1] == ('self',) and ct[1][2] == 'is_open':
        return True
    if ct[0] == 'attr' and ct[1] == ('self',) and 'open' in ct[2]:
        return True
    if ct[0] == 'cmp' and ct[1] in ('is', 'is not') and ct[3] == ('c', None) and ct[2][0] == 'attr' and ct[2][1] == ('self',):
        return True
    return False


def bps_fields(cx, mod, c):
    out = []
    for m2, c2 in cx.model.mro(mod, c):
        if c2.name in cx.model.mods[m2]['classes']:
            for f, defs in cx.field_defs(m2, c2.name).items():
                if defs and all(P.prod(P.role('sample_width'), P.role('channels'))(d['value']) for d in defs):
                    out.append(f)
    return out


def getter_setter(cx, mod, c, name):
    g = s = None
    for m2, c2 in cx.model.mro(mod, c):
        for n in c2.body:
            if isinstance(n, ast.FunctionDef) and n.name == name:
                if any(isinstance(d, ast.Attribute) and d.attr == 'setter' for d in n.decorator_list):
                    s = s or (m2, c2, n)
                elif any(isinstance(d, ast.Name) and d.id == 'property' for d in n.decorator_list):
                    g = g or (m2, c2, n)
    return g, s


def check(repo, rep):
    cx = Ctx(repo)
    srcs = concrete_sources(cx)
    rep.floor('concrete AudioSource classes', len(srcs), 5)
    listed = {'BufferAudioSource', 'RawAudioSource', 'WaveAudioSource', 'StdinAudioSource'}
    nread = 0
    for mod, c in srcs:
        r = cx.model.find_method(mod, c, 'read')
        if r is None:
            rep.unknown('%s has no read()' % c.name)
            continue
        rm, rc, rfn = r
        lv = cx.leaves_of(rm, rc, rfn)
        tag = c.name
        W = lambda n, _m=rm: cx.where(_m, n)
        nread += 1
        bps = bps_fields(cx, mod, c)
        isbps = P.Pat(lambda t, _b=bps: (t[0] == 'attr' and t[1] == ('self',) and t[2] in _b) or P.prod(P.role('sample_width'), P.role('channels'))(t), 'bytes_per_sample')
        # ---- R1 open check first, I/O error when not open
        raised_not_open = False
        for l in lv:
            if not l.conds:
                rep.ob('read() tests that the source is open before anything else', False, W(rfn), '%s.read:no-open-check' % tag, 'a path of read() has no condition at all')
                continue
            first = l.conds[0]
            isoc = open_check(first[0])
            rep.ob('read() tests that the source is open before anything else', isoc, W(first[2]), '%s.read:first-test' % tag, 'first test is %s' % show(first[0])[:80])
            calls_before = [e for e in l.effects if e[0] == 'call' and e[4] == 0 and not open_check(e[1])]
            rep.ob('no stream access before the open test', not calls_before, W(rfn), '%s.read:access-before-open-test' % tag, 'calls before the test: %s' % [show(e[1])[:60] for e in calls_before])
            if l.outcome == 'raise' and len(l.conds) == 1 and isoc:
                en = exc_name(l)
                raised_not_open = True
                if c.name in listed:
                    rep.ob('reading a source that is not open raises AudioIOError', en == 'AudioIOError', W(l.node), '%s.read:not-open-exception' % tag, 'raises %s' % en, sample=dict(source=tag, not_open_raises=en))
                else:
                    rep.info.append('%s.read raises %s when not open (class outside the property\'s list of source kinds)' % (tag, en))
        rep.ob('reading a source that is not open raises an I/O error', raised_not_open, W(rfn), '%s.read:never-raises-when-closed' % tag)
        # ---- R2 never an empty bytes object: every returned value is None or was tested truthy / non-empty on that path
        for l in lv:
            if l.outcome != 'return' or l.value == ('c', None):
                continue
            v = l.value
            if v[0] == 'or' and len(v[1]) == 2 and v[1][1] == ('c', None):
                rep.ob('read() returns None, never an empty bytes object (every returned value was tested non-empty)', True, W(l.node))     # `x or None`
                continue
            ok = any(ct == v and tr for ct, tr, _ in l.conds)
            if not ok:
                # len(v) >= 1 form
                for ct, tr, _ in l.conds:
                    g = norm_cmp(ct, tr)
                    if g and g[1] == ('call', ('b', 'len'), (v,), ()) and ((g[0] == '>=' and g[2] == ('c', 1)) or (g[0] == '>' and g[2] == ('c', 0))):
                        ok = True
            if not ok and v[0] == 'call' and v[1][0] == 'attr' and v[1][1] == ('self',):
                # delegated to a helper of the class: the helper's own returns must be None-or-truthy
                h = cx.model.find_method(mod, c, v[1][2])
                if h:
                    ok = all(hl.outcome != 'return' or hl.value == ('c', None) or any(ct == hl.value and tr for ct, tr, _ in hl.conds) for hl in cx.leaves_of(h[0], h[1], h[2]))
            rep.ob('read() returns None, never an empty bytes object (every returned value was tested non-empty)', ok, W(l.node), '%s.read:may-return-empty' % tag,
                   'returns %s without a truthiness test on that value' % show(v)[:100], sample=dict(source=tag, returns=show(v)[:80], guarded=True))
        # ---- R3/R4 byte count = size * width * channels ; None / negative size = everything (buffer, raw, wav)
        impl = [(rm, rc, rfn)]
        for x in walk(('tuple', tuple(l.value for l in lv if l.value is not None))):
            if x[0] == 'call' and x[1][0] == 'attr' and x[1][1] == ('self',):
                h = cx.model.find_method(mod, c, x[1][2])
                if h and h[2] is not rfn:
                    impl.append(h)
        got_scaled = False
        got_all = False
        for im, ic, ifn in impl:
            for l in cx.leaves_of(im, ic, ifn):
                size_none = any((ct == ('cmp', 'is', ('p', 'size'), ('c', None)) and tr) or ((g := norm_cmp(ct, tr)) and g[0] == '<' and g[1] == ('p', 'size') and g[2] == ('c', 0)) for ct, tr, _ in l.conds)
                for e in l.effects:
                    t = e[1]
                    if e[0] == 'call' and t[0] == 'call' and t[1][0] == 'attr' and t[1][2] in ('read', 'readframes') and t[1][1] != ('self',) and t[2]:
                        a = t[2][0]
                        if t[1][2] == 'readframes':
                            ok = a == ('p', 'size') or (size_none and a in (('c', -1), ('c', None)))
                            if a == ('p', 'size'):
                                got_scaled = True
                            if size_none:
                                got_all = True
                            rep.ob('wave reads ask for `size` frames (or all when size is None/negative)', ok, cx.where(im, e[3]), '%s.%s:request' % (tag, ifn.name), 'asks %s' % show(a)[:80])
                        elif c.name == 'PyAudioSource':
                            got_scaled = True
                        else:
                            if size_none:
                                got_all = True
                                rep.ob('None / negative size reads everything that remains', a == ('c', None) or a == ('c', -1), cx.where(im, e[3]), '%s.%s:read-all' % (tag, ifn.name), 'asks %s' % show(a)[:80])
                            else:
                                ok = P.prod(P.param('size'), isbps)(a)
                                got_scaled = got_scaled or ok
                                rep.ob('stream reads ask for size * sample_width * channels bytes (whole samples)', ok, cx.where(im, e[3]), '%s.%s:request-bytes' % (tag, ifn.name), 'asks %s bytes' % show(a)[:100],
                                       sample=dict(source=tag, request=show(a)[:80]))
                # buffer source: slice of the data
                if l.outcome == 'return' and l.value is not None and l.value[0] == 'sub' and l.value[2][0] == 'slice':
                    lo, hi = l.value[2][1], l.value[2][2]
                    cur = lo
                    okc = cur is not None and cur[0] == 'attr' and cur[1] == ('self',)
                    rep.ob('buffer read starts at the cursor', okc, cx.where(im, l.node), '%s.read:slice-start' % tag, 'slice starts at %s' % (show(lo) if lo else None))
                    if size_none:
                        got_all = True
                        rep.ob('None / negative size reads everything that remains', hi is None or hi == ('c', None), cx.where(im, l.node), '%s.read:read-all' % tag, 'slice ends at %s' % (show(hi) if hi else None))
                    else:
                        ok = hi is not None and okc and P.summ(P.same(cur), P.prod(P.param('size'), isbps))(hi)
                        got_scaled = got_scaled or ok
                        rep.ob('buffer read ends at cursor + size * sample_width * channels (whole samples)', ok, cx.where(im, l.node), '%s.read:slice-end' % tag, 'slice ends at %s' % (show(hi)[:120] if hi else None),
                               sample=dict(source=tag, slice='[%s : %s]' % (show(lo), show(hi)[:80] if hi else '')))
                    # cursor advanced by the bytes returned
                    ups = [e for e in l.effects if e[0] == 'store' and e[1] == cur]
                    oku = any(P.summ(P.same(cur), P.call('len', P.same(l.value)))(u[2]) for u in ups)
                    rep.ob('cursor advances by exactly the bytes returned', oku, cx.where(im, l.node), '%s.read:cursor-advance' % tag, 'cursor updates: %s' % [show(u[2])[:100] for u in ups])
        rep.ob('read(size) requests size whole samples from the underlying stream', got_scaled, W(rfn), '%s.read:no-scaled-request' % tag)
        if c.name in ('BufferAudioSource', 'RawAudioSource', 'WaveAudioSource'):
            rep.ob('None / negative size means all remaining samples', got_all, W(rfn), '%s.read:no-read-all' % tag)
    # ---------------------------------------------------------------- read() never changes whether the source is open (after the end: None on EVERY further call)
    from ..effects import Effects
    ef = Effects(cx.model)
    for mod, c in srcs:
        r = cx.model.find_method(mod, c, 'read')
        io_ = cx.model.find_method(mod, c, 'is_open')
        if r is None or io_ is None:
            continue
        open_fields = {n.attr for n in ast.walk(io_[2]) if isinstance(n, ast.Attribute) and isinstance(n.value, ast.Name) and n.value.id == 'self'}
        eff = ef.transitive(r[0], r[1], r[2])
        touched = sorted({e[1] for e in eff if e[0] == 'self' and e[1] in open_fields})
        calls_close = [n for fn_ in [r[2]] for n in ast.walk(fn_) if isinstance(n, ast.Call) and isinstance(n.func, ast.Attribute) and isinstance(n.func.value, ast.Name) and n.func.value.id == 'self' and n.func.attr in ('close', 'open')]
        rep.ob('read() leaves the open state alone: an exhausted source keeps answering None (it does not close itself)', not touched and not calls_close, cx.where(r[0], r[2]), '%s.read:changes-open-state' % c.name,
               'read() may write %s (read by is_open) / calls %s' % (touched, [ast.unparse(n.func) for n in calls_close]), sample=dict(source=c.name, open_state_fields=sorted(open_fields), written_by_read=touched))
    # ---------------------------------------------------------------- BufferAudioSource position / rewind / close
    bc = cx.cls('io', 'BufferAudioSource')
    bps = bps_fields(cx, 'io', bc)
    isbps = P.Pat(lambda t: (t[0] == 'attr' and t[1] == ('self',) and t[2] in bps) or P.prod(P.role('sample_width'), P.role('channels'))(t), 'bytes_per_sample')
    g, st = getter_setter(cx, 'io', bc, 'position')
    if g is None or st is None:
        rep.unknown('BufferAudioSource.position getter/setter not found')
    else:
        cursor = None
        for l in cx.leaves_of(*g):
            if l.outcome == 'return':
                ok = l.value[0] == 'bin' and l.value[1] == '//' and l.value[2][0] == 'attr' and isbps(l.value[3])
                if ok:
                    cursor = l.value[2]
                rep.ob('position reads back the cursor in whole samples (cursor // bytes_per_sample)', ok, cx.where(g[0], l.node), 'BufferAudioSource.position:getter', 'returns %s' % show(l.value)[:100])
        sl = cx.leaves_of(*st)
        pname = st[2].args.args[1].arg
        scaled = P.prod(P.param(pname), isbps)
        datalen = P.call('len', P.attr(SELF, 'data') | P.attr(SELF, '_data'))
        raising = [l for l in sl if l.outcome == 'raise']
        storing = [l for l in sl if l.outcome != 'raise']
        for l in raising:
            rep.ob('out-of-range positions raise IndexError', exc_name(l) == 'IndexError', cx.where(st[0], l.node), 'BufferAudioSource.position:exception', 'raises %s' % exc_name(l))
        low = high = False
        for l in raising:
            gd = norm_cmp(l.conds[-1][0], l.conds[-1][1])
            if gd and gd[0] == '<' and gd[2] == ('c', 0):
                low = True
            if gd and gd[0] == '>' and datalen(gd[2]):
                high = True
            if gd and gd[0] == '>=' and datalen(gd[2]):
                rep.ob('a position equal to the length is allowed (end of data)', False, cx.where(st[0], l.node), 'BufferAudioSource.position:upper-guard', 'rejects under %s' % show(l.conds[-1][0])[:100])
        rep.ob('positions below 0 (after counting from the end) raise IndexError', low, cx.where(st[0], st[2]), 'BufferAudioSource.position:no-lower-guard')
        rep.ob('positions beyond the data raise IndexError', high, cx.where(st[0], st[2]), 'BufferAudioSource.position:no-upper-guard')
        for l in storing:
            ups = [e for e in l.effects if e[0] == 'store' and (cursor is None or e[1] == cursor)]
            neg = any((gd := norm_cmp(ct, tr)) and gd[0] == '<' and scaled(gd[1]) and gd[2] == ('c', 0) for ct, tr, _ in l.conds)
            for u in ups:
                ok = P.summ(scaled, datalen)(u[2]) if neg else scaled(u[2])
                rep.ob('position setter stores position * bytes_per_sample (+ len(data) for negative positions)', ok, cx.where(st[0], u[3]), 'BufferAudioSource.position:store[%s]' % ('negative' if neg else 'non-negative'),
                       'stores %s' % show(u[2])[:120], sample=dict(setter='position', negative=neg, stores=show(u[2])[:100]))
            rep.ob('position setter writes the cursor on every accepting path', bool(ups), cx.where(st[0], st[2]), 'BufferAudioSource.position:no-store')
    # seconds / milliseconds setters go through position
    for nm, pat_desc in (('position_s', 's'), ('position_ms', 'ms')):
        g2, s2 = getter_setter(cx, 'io', bc, nm)
        if s2 is None:
            rep.unknown('BufferAudioSource.%s setter not found' % nm)
            continue
        pn = s2[2].args.args[1].arg
        for l in cx.leaves_of(*s2):
            if l.outcome == 'raise':
                continue
            ups = [e for e in l.effects if e[0] == 'store' and e[1] == ('attr', ('self',), 'position')]
            if nm == 'position_s':
                want = P.call('int', P.prod(P.role('sampling_rate'), P.param(pn)))
            else:
                want = P.call('int', P.binop('/', P.prod(P.role('sampling_rate'), P.param(pn)), P.const(1000))) | P.call('int', P.prod(P.role('sampling_rate'), P.binop('/', P.param(pn), P.const(1000))))
            ok = len(ups) == 1 and want(ups[0][2])
            rep.ob('%s setter assigns position = int(rate * t%s)' % (nm, '' if nm == 'position_s' else ' / 1000'), ok, cx.where(s2[0], s2[2]), 'BufferAudioSource.%s:setter' % nm,
                   'stores %s' % [show(u[2])[:100] for u in ups], sample=dict(setter=nm, stores=[show(u[2])[:80] for u in ups]))
    # rewind / close
    rw = cx.model.find_method('io', bc, 'rewind')
    okr = any(e[0] == 'store' and e[2] == ('c', 0) and e[1][0] == 'attr' and e[1][1] == ('self',) for l in cx.leaves_of(*rw) for e in l.effects)
    rep.ob('rewind() returns to position 0', okr, cx.where(rw[0], rw[2]), 'BufferAudioSource.rewind')
    cl = cx.model.find_method('io', bc, 'close')
    okc = all(any((e[0] == 'call' and P.method(SELF, 'rewind')(e[1])) or (e[0] == 'store' and e[2] == ('c', 0) and e[1][0] == 'attr' and 'pos' in e[1][2]) for e in l.effects) for l in cx.leaves_of(*cl))
    rep.ob('close() returns to the start (rewinds) on every path', okc, cx.where(cl[0], cl[2]), 'BufferAudioSource.close:rewind')
    # ---------------------------------------------------------------- whole-sample check
    cad = cx.leaves('io', 'check_audio_data')
    raises = [l for l in cad if l.outcome == 'raise']
    ok = False
    for l in raises:
        gd = norm_cmp(l.conds[-1][0], l.conds[-1][1]) if l.conds else None
        if gd and gd[0] == '!=':
            sides = [gd[1], gd[2]]
            ln = P.call('len', P.param('data'))
            bpsl = P.call('int', P.prod(P.role('sample_width'), P.role('channels'))) | P.prod(P.role('sample_width'), P.role('channels'))
            whole = P.prod(P.binop('//', ln, bpsl), bpsl)
            if (ln(sides[0]) and whole(sides[1])) or (ln(sides[1]) and whole(sides[0])):
                ok = True
            mod0 = P.binop('%', ln, bpsl)
            if (mod0(sides[0]) and sides[1] == ('c', 0)):
                ok = True
    rep.ob('check_audio_data rejects data that is not a whole number of samples', ok, cx.where('io', cx.fn('io', 'check_audio_data')), 'check_audio_data:condition',
           'raising conditions: %s' % [show(l.conds[-1][0])[:100] for l in raises if l.conds])
    for mod, qual in (('io', 'BufferAudioSource.__init__'), ('core', 'AudioRegion.__post_init__')):
        lv = cx.leaves(mod, qual)
        okall = all(l.outcome == 'raise' or any(e[0] == 'call' and e[1][0] == 'call' and e[1][1] == ('g', 'io', 'check_audio_data') and e[4] == 0 for e in l.effects) for l in lv)
        rep.ob('%s calls check_audio_data unconditionally' % qual, okall, cx.where(mod, cx.fn(mod, qual)), '%s:check_audio_data' % qual)
    rep.floor('read() implementations analysed', nread, 5)
    check_roles(cx, rep, lambda p: p['where'].startswith('auditok/io.py'), floor=60)
    rep.explanation = ('Sibling agreement of the read() implementations of every concrete AudioSource subclass found in the class table (5 today), each resolved through its MRO and decided on every path: '
                       'the open test is the first test and its failing branch raises AudioIOError; every returned value is None or was tested non-empty on that path (never b""); the underlying request is '
                       'size * sample_width * channels bytes (size frames for wave), None/negative size reads all (buffer, raw, wav); buffer cursor: slice [cursor : cursor + size*bps], cursor += len(returned); '
                       'position getter cursor // bps, setter position*bps (+ len(data) when negative) with IndexError exactly for < 0 or > len; position_s/ms go through position; rewind -> 0; close -> rewind; '
                       'check_audio_data rejects partial samples and both constructors call it unconditionally; audio-parameter role agreement at every hand-over in io.py. '
                       'NOT decided: equivalence over whole operation histories (argued from these per-operation facts).')
    rep.assumptions = ['file objects, wave.Wave_read.readframes and sys.stdin.buffer.read return at most the requested amount and b"" at end of data']
