"""C11 -- audio sources hand out successive whole-sample chunks, then None (DESIGN 4.11)"""
import ast

from ..facts import Ctx, norm_cmp, exc_name, split_ites, path_cond
from ..termeval import evaluate, NotEvaluable
from ..symex import show, walk, term_name, ROLE_OF
from .. import pat as P
from .c05 import check_roles

LEVEL = 'other'
SELF = P.Pat(lambda t: t == ('self',), 'self')


def concrete_sources(cx):
    m = cx.model
    base = cx.cls('io', 'AudioSource')
    out = []
    for mod, c in m.subclasses('io', base):
        if not m.is_abstract(mod, c):
            out.append((mod, c))
    return sorted(out, key=lambda x: x[1].lineno)


def open_check(ct, open_fields=None):
    """is this condition an 'is the source open' test?  Either one of the usual spellings, or (open_fields given: the self fields
    that is_open() reads) any test that mentions only those fields and constants -- a state kept as an enum member, a constant ..."""
    if open_fields:
        attrs = [x for x in walk(ct) if x[0] == 'attr' and x[1] == ('self',)]
        other = [x for x in walk(ct) if x[0] in ('p', 'lp', 'call', 'loopvar', 'unk', 'elem') and not (x[0] == 'call' and x[1][0] == 'attr' and x[1][1] == ('self',) and x[1][2] == 'is_open')]
        if attrs and all(a[2] in open_fields for a in attrs) and not other:
            return True
    if ct[0] == 'call' and ct[1][0] == 'attr' and ct[1][1] == ('self',) and ct[1][2] == 'is_open':
        return True
    if ct[0] == 'attr' and ct[1] == ('self',) and 'open' in ct[2]:
        return True
    if ct[0] == 'cmp' and ct[1] in ('is', 'is not') and ct[3] == ('c', None) and ct[2][0] == 'attr' and ct[2][1] == ('self',):
        return True
    return False


def bps_fields(cx, mod, c):
    out = []
    for m2, c2 in cx.model.mro(mod, c):
        if c2.name in cx.model.mods[m2]['classes']:
            for f, defs in cx.field_defs(m2, c2.name).items():
                if defs and all(P.prod(P.role('sample_width'), P.role('channels'))(d['value']) for d in defs):
                    out.append(f)
    return out


def getter_setter(cx, mod, c, name):
    g = s = None
    for m2, c2 in cx.model.mro(mod, c):
        for n in c2.body:
            if isinstance(n, ast.FunctionDef) and n.name == name:
                if any(isinstance(d, ast.Attribute) and d.attr == 'setter' for d in n.decorator_list):
                    s = s or (m2, c2, n)
                elif any(isinstance(d, ast.Name) and d.id == 'property' for d in n.decorator_list):
                    g = g or (m2, c2, n)
    return g, s



def buffer_semantics(cx, rep):
    """BufferAudioSource decided operation by operation, path-wise and semantically: on a grid of small buffers / cursors /
    arguments the path whose condition holds is selected and its result and field updates are evaluated as formulas."""
    from ..facts import self_field_exprs
    from ..semantic import deep_leaves, evaluator, holds, value, Undecided
    mod, cname = 'io', 'BufferAudioSource'
    bc = cx.cls(mod, cname)
    S = ('self',)
    W = lambda n: cx.where(mod, n)
    defs = cx.field_defs(mod, cname)
    fields = dict(self_field_exprs(cx, mod, cname))
    data_f = [f for f, ds in defs.items() if any(d['method'] == '__init__' and d['value'] == ('p', 'data') for d in ds)]
    meth = lambda name: cx.model.find_method(mod, bc, name)

    def dl(m):
        return deep_leaves(cx, m[0], bc, m[2])          # inherited methods are evaluated with self of the concrete class

    def stores(l, ev, only=None):
        out = {}
        for e in l.effects:
            if e[0] == 'store' and e[1][0] == 'attr' and e[1][1] == S and (only is None or e[1][2] in only):
                out[e[1][2]] = value(e[2], ev)
        return out
    try:
        rw = meth('rewind')
        rdm = meth('read')
        cur_f = sorted({e[1][2] for l in dl(rdm) for e in l.effects if e[0] == 'store' and e[1][0] == 'attr' and e[1][1] == S})
        op = meth('open')
        # the open state: the constant(s) open() stores, and what the constructor stored in the same field(s) (closed)
        open_vals = {e[1][2]: e[2][1] for l in dl(op) for e in l.effects if e[0] == 'store' and e[1][0] == 'attr' and e[1][1] == S and e[2][0] == 'c' and e[2][1] is not None}
        closed_vals = {e[1][2]: e[2][1] for l in dl(meth('__init__')) for e in l.effects if e[0] == 'store' and e[1][0] == 'attr' and e[1][1] == S and e[2][0] == 'c' and e[1][2] in open_vals}
        open_f = sorted(f for f in open_vals if f in closed_vals)
    except Undecided as exc:
        rep.unknown('BufferAudioSource: %s' % exc)
        return
    if len(data_f) != 1 or len(cur_f) != 1:
        rep.unknown('BufferAudioSource: data field %s / cursor field %s (the one field read() updates) not identified uniquely' % (data_f, cur_f))
        return
    data_f, cur_f = data_f[0], cur_f[0]
    fields.pop(cur_f, None)
    fields.pop(data_f, None)
    rep.info.append('BufferAudioSource: data field %s, cursor field %s, open flag %s' % (data_f, cur_f, open_f))

    def A(n, c, sw, ch, rate=10, is_open=True, **params):
        d = bytes(range(n * sw * ch)) if n * sw * ch < 256 else bytes(n * sw * ch)
        a = {('attr', S, data_f): d, ('p', 'data'): d, ('attr', S, cur_f): c, ('p', 'sample_width'): sw, ('p', 'channels'): ch, ('p', 'sampling_rate'): rate,
             ('attr', S, 'sample_width'): sw, ('attr', S, 'channels'): ch, ('attr', S, 'sampling_rate'): rate}
        for f in open_f:
            a[('attr', S, f)] = open_vals[f] if is_open else closed_vals[f]
        for k, v in params.items():
            a[('p', k)] = v
        return d, a

    def one(lv, a, what):
        hit = [l for l in lv if holds(l, evaluator(a, fields=fields))]
        if len(hit) != 1:
            raise Undecided('%d paths apply to %s' % (len(hit), what))
        return hit[0]
    # ------------------------------------------------------------ read(size)
    rd = meth('read')
    pn = rd[2].args.args[1].arg
    bad = None
    npts = 0
    try:
        lv = dl(rd)
        big = rep.tier == 'thorough'          # the thorough tier evaluates the same obligations on a larger grid
        for sw in ((1, 2, 4) if big else (1, 2)):
            for ch in ((1, 2, 3) if big else (1, 2)):
                bps = sw * ch
                for n in ((0, 1, 2, 3, 4, 7, 10) if big else (0, 1, 3, 4)):
                    for k in range(n + 1):
                        for size in ((None, -1, -3, 1, 2, 3, 4, 5, 9, 10, 11, 100) if big else (None, -1, -3, 1, 2, 3, 10)):
                            d, a = A(n, k * bps, sw, ch, **{pn: size})
                            what = 'read(%s) at sample %d of %d (%d-byte samples, %d channel(s))' % (size, k, n, sw, ch)
                            l = one(lv, a, what)
                            chunk = d[k * bps:] if (size is None or size < 0) else d[k * bps: (k + size) * bps]
                            want = chunk or None
                            npts += 1
                            if l.outcome != 'return':
                                bad = bad or (l, '%s: %s %s' % (what, l.outcome, exc_name(l) if l.outcome == 'raise' else ''))
                                continue
                            ev = evaluator(a, fields=fields)
                            got = value(l.value, ev) if l.value is not None else None
                            if got != want or (got is not None and not isinstance(got, bytes)):
                                bad = bad or (l, '%s returns %r; the next min(size, remaining) whole samples are %r (None once nothing remains, never b"")' % (what, got, want))
                                continue
                            st = stores(l, evaluator(a, fields=fields), {cur_f})
                            newc = st.get(cur_f, k * bps)
                            if newc != k * bps + len(chunk):
                                bad = bad or (l, '%s leaves the cursor at byte %r; it must advance by the %d bytes returned (to %d)' % (what, newc, len(chunk), k * bps + len(chunk)))
        rep.ob('buffer read(size): returns the next min(size, remaining) whole samples (all remaining for None / negative size), None at the end, and advances the cursor by what it returned',
               bad is None, W(bad[0].node) if bad and bad[0].node is not None else W(rd[2]), 'BufferAudioSource.read:semantics', bad[1] if bad else None, sample=dict(operation='read', grid_points=npts))
        rep.floor('grid points of the buffer read rule', npts, 300)
        # not open
        d, a = A(3, 0, 2, 1, is_open=False, **{pn: 1})
        if open_f:
            l = one(lv, a, 'read(1) on a closed buffer source')
            rep.ob('reading a source that is not open raises an I/O error', l.outcome == 'raise' and exc_name(l) in ('AudioIOError', 'IOError', 'OSError'), W(l.node) if l.node is not None else W(rd[2]),
                   'BufferAudioSource.read:closed', 'outcome %s %s' % (l.outcome, exc_name(l) if l.outcome == 'raise' else ''))
    except Undecided as exc:
        rep.unknown('BufferAudioSource.read: %s' % exc)
    # ------------------------------------------------------------ position getter / setter
    g, st_ = getter_setter(cx, mod, bc, 'position')
    if g is None or st_ is None:
        rep.unknown('BufferAudioSource.position getter/setter not found')
    else:
        try:
            bad = None
            npts = 0
            glv = dl(g)
            for sw in (1, 2):
                for ch in (1, 2):
                    for n in (0, 2, 5):
                        for k in range(n + 1):
                            d, a = A(n, k * sw * ch, sw, ch)
                            l = one(glv, a, 'position with the cursor at sample %d' % k)
                            got = value(l.value, evaluator(a, fields=fields)) if l.outcome == 'return' and l.value is not None else None
                            npts += 1
                            if got != k or isinstance(got, float):
                                bad = bad or (l, 'with the cursor at byte %d (%d-byte samples, %d channel(s)) position reads %r, not %d' % (k * sw * ch, sw, ch, got, k))
            rep.ob('position reads back the number of samples consumed', bad is None, W(g[2]), 'BufferAudioSource.position:getter', bad[1] if bad else None, sample=dict(operation='position (get)', grid_points=npts))
            bad = None
            bad_rej = None
            npts = 0
            slv = dl(st_)
            spn = st_[2].args.args[1].arg
            for sw in (1, 2):
                for ch in (1, 2):
                    bps = sw * ch
                    for n in (0, 2, 5):
                        for v in range(-8, 9):
                            d, a = A(n, 0, sw, ch, **{spn: v})
                            what = 'position = %d on %d samples (%d-byte samples, %d channel(s))' % (v, n, sw, ch)
                            l = one(slv, a, what)
                            idx = v if v >= 0 else v + n
                            npts += 1
                            if idx < 0 or idx > n:
                                if not (l.outcome == 'raise' and exc_name(l) == 'IndexError'):
                                    bad = bad or (l, '%s is out of range and must raise IndexError; outcome %s %s' % (what, l.outcome, exc_name(l) if l.outcome == 'raise' else ''))
                                else:
                                    # a rejected assignment leaves the cursor where it was: the next read continues from there
                                    try:
                                        moved = stores(l, evaluator(a, fields=fields), {cur_f}).get(cur_f)
                                    except Undecided:
                                        moved = None
                                    if moved is not None and moved != 0:
                                        bad_rej = bad_rej or (l, '%s is rejected with IndexError but has already moved the cursor to byte %r' % (what, moved))
                                continue
                            if l.outcome == 'raise':
                                bad = bad or (l, '%s is in range (sample %d) but raises %s' % (what, idx, exc_name(l)))
                                continue
                            newc = stores(l, evaluator(a, fields=fields), {cur_f}).get(cur_f)
                            if newc != idx * bps:
                                bad = bad or (l, '%s puts the cursor at byte %r; sample %d is byte %d' % (what, newc, idx, idx * bps))
            rep.ob('position = v moves the cursor to sample v (v + length when negative); values outside 0..length raise IndexError', bad is None, W(bad[0].node) if bad and bad[0].node is not None else W(st_[2]),
                   'BufferAudioSource.position:setter', bad[1] if bad else None, sample=dict(operation='position (set)', grid_points=npts))
            rep.ob('a position assignment that is rejected leaves the cursor unchanged (the source is still usable where it was)', bad_rej is None, W(bad_rej[0].node) if bad_rej and bad_rej[0].node is not None else W(st_[2]),
                   'BufferAudioSource.position:rejected-assignment', bad_rej[1] if bad_rej else None)
            rep.floor('grid points of the position rules', npts, 100)
        except Undecided as exc:
            rep.unknown('BufferAudioSource.position: %s' % exc)
    # ------------------------------------------------------------ seconds / milliseconds setters go through position
    for nm, scale in (('position_s', 1), ('position_ms', 1000)):
        g2, s2 = getter_setter(cx, mod, bc, nm)
        if s2 is None:
            rep.unknown('BufferAudioSource.%s setter not found' % nm)
            continue
        try:
            lv2 = dl(s2)
            pn2 = s2[2].args.args[1].arg
            bad = None
            npts = 0
            NS = 100000
            for rate in (10, 100, 16000, 44100, 48000):
                for t in ((0, 1, 2, -1, 0.5, 1.26, -0.35, 0.29, 1.001, 3) if scale == 1 else (0, 1, 9, 18, 250, 290, 570, 1001, 1003, 1500, -100, -999, -1001, 3000)):
                    d, a = A(NS, 0, 2, 1, rate=rate, **{pn2: t})
                    what = '%s = %r at %d Hz' % (nm, t, rate)
                    l = one(lv2, a, what)
                    want = int(rate * t / scale) if scale != 1 else int(rate * t)
                    idx = want if want >= 0 else want + NS
                    npts += 1
                    if l.outcome == 'raise':
                        if not (exc_name(l) == 'IndexError' and (idx < 0 or idx > NS)):
                            bad = bad or (l, '%s (sample %d of %d) raises %s' % (what, want, NS, exc_name(l)))
                        continue
                    ev = evaluator(a, fields=fields, mode='frac')
                    st = {}
                    for e in l.effects:
                        if e[0] == 'store' and e[1][0] == 'attr' and e[1][1] == S:
                            st[e[1][2]] = value(e[2], ev)
                    if 'position' in st:
                        if st['position'] != want or isinstance(st['position'], float):
                            bad = bad or (l, '%s assigns position = %r; int(rate * t%s) = %d' % (what, st['position'], '' if scale == 1 else ' / 1000', want))
                    elif cur_f in st:
                        if idx < 0 or idx > NS:
                            bad = bad or (l, '%s (sample %d of %d) is out of range and must raise IndexError' % (what, want, NS))
                        elif st[cur_f] != idx * 2:
                            bad = bad or (l, '%s puts the cursor at byte %r; sample %d is byte %d' % (what, st[cur_f], idx, idx * 2))
                    else:
                        raise Undecided('%s writes neither position nor the cursor (%s)' % (what, sorted(st)))
            rep.ob('%s = t moves to sample int(rate * t%s) through position' % (nm, '' if scale == 1 else ' / 1000'), bad is None, W(bad[0].node) if bad and bad[0].node is not None else W(s2[2]),
                   'BufferAudioSource.%s:setter' % nm, bad[1] if bad else None, sample=dict(operation=nm, grid_points=npts))
        except Undecided as exc:
            rep.unknown('BufferAudioSource.%s: %s' % (nm, exc))
    # ------------------------------------------------------------ rewind() returns to position 0
    try:
        for state_, is_open_ in (('an open', True), ('a closed', False)):
            ok, seen = True, 0
            for l in dl(rw):
                if l.outcome == 'raise':
                    continue
                d, a = A(3, 4, 2, 1, is_open=is_open_)
                if not holds(l, evaluator(a, fields=fields)):
                    continue
                seen += 1
                ok = ok and stores(l, evaluator(a, fields=fields), {cur_f}).get(cur_f) == 0
            if not seen:
                raise Undecided('no path of rewind() applies to %s source' % state_)
            # histories include close/open and position assignments in any order: a rewind between close and open counts too
            rep.ob('rewind() returns to position 0 (on %s source)' % state_, ok, W(rw[2]), 'BufferAudioSource.rewind[%s]' % ('open' if is_open_ else 'closed'))
    except Undecided as exc:
        rep.unknown('BufferAudioSource.rewind: %s' % exc)
    # ------------------------------------------------------------ close() returns to the start
    cl = meth('close')
    try:
        ok = True
        for l in dl(cl):
            if l.outcome == 'raise':
                continue
            d, a = A(3, 4, 2, 1)
            try:
                if not holds(l, evaluator(a, fields=fields)):
                    continue
            except Undecided:
                pass
            st = stores(l, evaluator(a, fields=fields), {cur_f})
            ok = ok and st.get(cur_f) == 0
        rep.ob('close() returns to the start (rewinds) on every path', ok, W(cl[2]), 'BufferAudioSource.close:rewind')
    except Undecided as exc:
        rep.unknown('BufferAudioSource.close: %s' % exc)

def check_stdin_not_closed(cx, rep):
    """closing the standard-input source ends the source, not the process's standard input: a history may close and reopen it
    (and a second source may be built on it); so the effective close() never calls close() on the stream object taken from sys.stdin"""
    c = cx.cls('io', 'StdinAudioSource', required=False)
    if c is None:
        return
    from ..semantic import deep_leaves, Undecided
    is_stdin = lambda t: any(x[0] == 'ext' and x[1].startswith('sys.stdin') for x in walk(t))
    fields = set()
    for f, ds in cx.field_defs('io', 'StdinAudioSource').items():
        if any(is_stdin(d['value']) for d in ds):
            fields.add(f)
    if not fields:
        rep.unknown('StdinAudioSource: no field holds the standard-input stream')
        return
    cl = cx.model.find_method('io', c, 'close')
    dl = cx.model.find_method('io', c, '__del__')
    n = 0
    for tag, r in (('close', cl), ('__del__', dl)):
        if r is None:
            continue
        try:
            lv = deep_leaves(cx, r[0], c, r[2], inline_super=True)
        except Undecided as exc:
            rep.unknown('StdinAudioSource.%s: %s' % (tag, exc))
            continue
        n += 1
        closes = [e for l in lv for e in l.effects if e[0] == 'call' and e[1][0] == 'call' and e[1][1][0] == 'attr' and e[1][1][2] == 'close' and (is_stdin(e[1][1][1]) or (e[1][1][1][0] == 'attr' and e[1][1][1][1] == ('self',) and e[1][1][1][2] in fields))]
        rep.ob('closing (or discarding) the standard-input source does not close the process\'s standard input', not closes, cx.where(r[0], closes[0][3]) if closes else cx.where(r[0], r[2]), 'StdinAudioSource.%s:closes-stdin' % tag,
               '%s() calls %s' % (tag, show(closes[0][1])[:60]) if closes else None, sample=dict(source='StdinAudioSource', method=tag, stdin_fields=sorted(fields)))
    rep.floor('stdin source shutdown paths examined', n, 1)


def check_no_memoised_io(cx, rep):
    """a function whose result depends on what a file contains NOW (it opens / reads a file) is not memoised across calls: a cached
    header or content goes stale when the file is rewritten (save, then load the same name again), so what is loaded is no longer
    what was saved"""
    CACHES = ('lru_cache', 'cache', 'cached_property')
    n = 0
    for mod in cx.code_mods():
        tree = cx.model.mods[mod]['tree']
        for fn in ast.walk(tree):
            if not isinstance(fn, (ast.FunctionDef, ast.AsyncFunctionDef)):
                continue
            n += 1
            decos = []
            for d in fn.decorator_list:
                d0 = d.func if isinstance(d, ast.Call) else d
                decos.append(d0.id if isinstance(d0, ast.Name) else (d0.attr if isinstance(d0, ast.Attribute) else ''))
            if not any(d in CACHES for d in decos):
                continue
            opens = [c for c in ast.walk(fn) if isinstance(c, ast.Call) and ((isinstance(c.func, ast.Name) and c.func.id == 'open') or (isinstance(c.func, ast.Attribute) and c.func.attr in ('open', 'read', 'readframes', 'getsize', 'getmtime', 'stat')))]
            rep.ob('no result that depends on the current content of a file is memoised across calls', not opens, cx.where(mod, fn), '%s:%s' % (mod, fn.name),
                   '%s is cached (%s) and reads the file system (%s)' % (fn.name, [d for d in decos if d in CACHES], ast.unparse(opens[0])[:50] if opens else ''))
    rep.floor('functions scanned for memoised file access', n, 50)


def check_read_state_reset(cx, rep, srcs):
    """what read() leaves in the object (a cursor, an end-of-stream latch, a count) is re-initialised when the source is closed or
    opened again: a source that is closed and re-opened delivers its samples from the beginning again (C11 histories, C20 reuse).
    The stream handle itself is exempt (close drops it, open makes a new one)."""
    from .c19 import effective_stores
    n = 0
    for mod, c in srcs:
        rd = effective_stores(cx, mod, c, 'read')
        if not rd:
            continue
        reset = {}
        restartable = False
        for m_ in ('open', 'close', 'rewind'):
            for f, vs in effective_stores(cx, mod, c, m_).items():
                reset.setdefault(f, []).append(m_)
                if m_ in ('open', 'rewind') and any(v[0] != 'c' for v in vs):
                    restartable = True          # open() makes a new stream / rewind moves a cursor: the samples come again
                if m_ == 'rewind':
                    restartable = True
        if not restartable:
            continue        # open() only raises a flag over a stream that exists once (standard input): what was consumed is gone anyway
        r = cx.model.find_method(mod, c, 'read')
        for f in sorted(rd):
            n += 1
            rep.ob('a field that read() writes is re-initialised by open(), close() or rewind() (a re-opened source starts again)', f in reset, cx.where(r[0], r[2]), '%s.read:state-%s' % (c.name, f),
                   '%s.%s is written by read() and by none of open / close / rewind' % (c.name, f), sample=dict(source=c.name, field=f, reset_by=reset.get(f)))
    rep.floor('fields written by read() of a source', n, 1)


def check_buffered_open(cx, rep):
    """the byte stream a file source reads from is a BUFFERED binary reader: read(n) of io.BufferedReader returns n bytes unless
    the stream ends, whereas a raw (buffering=0) file object returns whatever one system call delivers -- short chunks on pipes,
    which the framing reader would hand on as short windows"""
    n = 0
    for mod in cx.code_mods():
        for node in ast.walk(cx.model.mods[mod]['tree']):
            if not (isinstance(node, ast.Call) and isinstance(node.func, ast.Name) and node.func.id == 'open'):
                continue
            mode = node.args[1] if len(node.args) > 1 else next((k.value for k in node.keywords if k.arg == 'mode'), None)
            if not (isinstance(mode, ast.Constant) and isinstance(mode.value, str) and 'b' in mode.value and 'r' in mode.value):
                continue
            n += 1
            buf = node.args[2] if len(node.args) > 2 else next((k.value for k in node.keywords if k.arg == 'buffering'), None)
            unbuffered = isinstance(buf, ast.Constant) and buf.value in (0, False) and buf.value is not None
            if buf is not None and not isinstance(buf, ast.Constant):
                rep.unknown('open() at %s: the buffering argument %s is not a constant' % (cx.where(mod, node), ast.unparse(buf)))
                continue
            rep.ob('a file read as audio is opened buffered (read(n) returns n bytes until the stream ends)', not unbuffered, cx.where(mod, node), 'open:%s' % ast.unparse(node)[:60],
                   'opened with buffering=%s' % (ast.unparse(buf) if buf is not None else 'default'), sample=dict(call=ast.unparse(node)[:80]))
    rep.floor('binary files opened for reading', n, 2)


def check(repo, rep):
    from ..semantic import deep_leaves, evaluator, Undecided
    cx = Ctx(repo)
    rep.cx = cx
    srcs = concrete_sources(cx)
    rep.floor('concrete AudioSource classes', len(srcs), 5)
    listed = {'BufferAudioSource', 'RawAudioSource', 'WaveAudioSource', 'StdinAudioSource'}
    nread = 0
    for mod, c in srcs:
        r = cx.model.find_method(mod, c, 'read')
        if r is None:
            rep.unknown('%s has no read()' % c.name)
            continue
        rm, rc, rfn = r
        lv = split_ites(cx.leaves_of(rm, rc, rfn))
        tag = c.name
        W = lambda n, _m=rm: cx.where(_m, n)
        nread += 1
        bps = bps_fields(cx, mod, c)
        isbps = P.Pat(lambda t, _b=bps: (t[0] == 'attr' and t[1] == ('self',) and t[2] in _b) or P.prod(P.role('sample_width'), P.role('channels'))(t), 'bytes_per_sample')
        # ---- R1 open check first, I/O error when not open
        raised_not_open = False
        io_m = cx.model.find_method(mod, c, 'is_open')
        ofields = {n.attr for n in ast.walk(io_m[2]) if isinstance(n, ast.Attribute) and isinstance(n.value, ast.Name) and n.value.id == 'self'} if io_m else set()
        for l in lv:
            if not l.conds:
                rep.ob('read() tests that the source is open before anything else', False, W(rfn), '%s.read:no-open-check' % tag, 'a path of read() has no condition at all')
                continue
            first = l.conds[0]
            isoc = open_check(first[0], ofields)
            rep.ob('read() tests that the source is open before anything else', isoc, W(first[2]), '%s.read:first-test' % tag, 'first test is %s' % show(first[0])[:80])
            calls_before = [e for e in l.effects if e[0] == 'call' and e[4] == 0 and not open_check(e[1], ofields)]
            rep.ob('no stream access before the open test', not calls_before, W(rfn), '%s.read:access-before-open-test' % tag, 'calls before the test: %s' % [show(e[1])[:60] for e in calls_before])
            if l.outcome == 'raise' and len(l.conds) == 1 and isoc:
                en = exc_name(l)
                raised_not_open = True
                if c.name in listed:
                    rep.ob('reading a source that is not open raises AudioIOError', en == 'AudioIOError', W(l.node), '%s.read:not-open-exception' % tag, 'raises %s' % en, sample=dict(source=tag, not_open_raises=en))
                else:
                    rep.info.append('%s.read raises %s when not open (class outside the property\'s list of source kinds)' % (tag, en))
        rep.ob('reading a source that is not open raises an I/O error', raised_not_open, W(rfn), '%s.read:never-raises-when-closed' % tag)
        # ---- R2 never an empty bytes object: every returned value is None or was tested truthy / non-empty on that path
        for l in lv:
            if l.outcome != 'return' or l.value == ('c', None):
                continue
            v = l.value
            if v[0] == 'or' and len(v[1]) == 2 and v[1][1] == ('c', None):
                rep.ob('read() returns None, never an empty bytes object (every returned value was tested non-empty)', True, W(l.node))     # `x or None`
                continue
            ok = any(ct == v and tr for ct, tr, _ in l.conds)
            if not ok:
                # len(v) >= 1 form
                for ct, tr, _ in l.conds:
                    g = norm_cmp(ct, tr)
                    if g and g[1] == ('call', ('b', 'len'), (v,), ()) and ((g[0] == '>=' and g[2] == ('c', 1)) or (g[0] == '>' and g[2] == ('c', 0))):
                        ok = True
            if not ok and v[0] == 'call' and v[1][0] == 'attr' and v[1][1] == ('self',):
                # delegated to a helper of the class: the helper's own returns must be None-or-truthy
                h = cx.model.find_method(mod, c, v[1][2])
                if h:
                    ok = all(hl.outcome != 'return' or hl.value == ('c', None) or any(ct == hl.value and tr for ct, tr, _ in hl.conds) for hl in cx.leaves_of(h[0], h[1], h[2]))
            rep.ob('read() returns None, never an empty bytes object (every returned value was tested non-empty)', ok, W(l.node), '%s.read:may-return-empty' % tag,
                   'returns %s without a truthiness test on that value' % show(v)[:100], sample=dict(source=tag, returns=show(v)[:80], guarded=True))
        # ---- R3/R4 byte count = size * width * channels ; None / negative size = everything (buffer, raw, wav)
        impl = [(rm, rc, rfn)]
        for x in walk(('tuple', tuple(l.value for l in lv if l.value is not None))):
            if x[0] == 'call' and x[1][0] == 'attr' and x[1][1] == ('self',):
                h = cx.model.find_method(mod, c, x[1][2])
                if h and h[2] is not rfn:
                    impl.append(h)
        got_scaled = False
        got_all = False
        for im, ic, ifn in impl:
            for l in split_ites(cx.leaves_of(im, ic, ifn)):
                size_none = any((ct == ('cmp', 'is', ('p', 'size'), ('c', None)) and tr) or ((g := norm_cmp(ct, tr)) and g[0] == '<' and g[1] == ('p', 'size') and g[2] == ('c', 0)) for ct, tr, _ in l.conds)
                # ... or decided by values: None, a negative and a positive size are taken through the path's tests on `size`
                try:
                    takers_ = []
                    tested_ = False
                    for sz_ in (None, -1, 0, 3):
                        ok_ = True
                        for ct, tr, _ in l.conds:
                            if not any(x == ('p', 'size') for x in walk(ct)):
                                continue
                            try:
                                e_ = evaluator({('p', 'size'): sz_})
                                got_ = e_.ev(ct)
                            except NotEvaluable:
                                continue
                            if e_.leaves:
                                continue
                            tested_ = True
                            if bool(got_) != tr:
                                ok_ = False
                                break
                        if ok_:
                            takers_.append(sz_)
                    if not tested_:
                        takers_ = []                  # the path does not test the size at all: nothing to classify by values
                    if takers_ and set(takers_) <= {None, -1}:
                        size_none = True
                    elif takers_ and set(takers_) <= {0, 3}:
                        size_none = False
                    elif takers_ and 0 in takers_ and (None in takers_ or -1 in takers_):
                        # read(0) shares a path with "read everything": a zero-size request would return all that remains
                        reads_all_ = any(e[0] == 'call' and e[1][0] == 'call' and e[1][1][0] == 'attr' and e[1][1][2] in ('read', 'readframes') and e[1][1][1] != ('self',) and e[1][2] and e[1][2][0] in (('c', None), ('c', -1)) for e in l.effects)
                        if reads_all_:
                            rep.ob('a zero-size read does not take the read-everything path (only None / negative sizes do)', False, cx.where(im, l.node if l.node is not None else ifn), '%s.%s:zero-reads-all' % (tag, ifn.name),
                                   'sizes %s take the path that asks the stream for everything' % takers_)
                        size_none = True
                except Undecided:
                    pass
                for e in l.effects:
                    t = e[1]
                    if e[0] == 'call' and t[0] == 'call' and t[1][0] == 'attr' and t[1][2] in ('read', 'readframes') and t[1][1] != ('self',) and t[2]:
                        a = P._resolve_const(t[2][0])          # a named constant for -1 is -1
                        if t[1][2] == 'readframes':
                            ok = a == ('p', 'size') or (size_none and a in (('c', -1), ('c', None)))
                            if a == ('p', 'size'):
                                got_scaled = True
                            if size_none:
                                got_all = True
                            rep.ob('wave reads ask for `size` frames (or all when size is None/negative)', ok, cx.where(im, e[3]), '%s.%s:request' % (tag, ifn.name), 'asks %s' % show(a)[:80])
                        elif c.name == 'PyAudioSource':
                            got_scaled = True
                        else:
                            if size_none:
                                got_all = True
                                rep.ob('None / negative size reads everything that remains', a == ('c', None) or a == ('c', -1), cx.where(im, e[3]), '%s.%s:read-all' % (tag, ifn.name), 'asks %s' % show(a)[:80])
                            else:
                                ok = P.prod(P.param('size'), isbps)(a)
                                got_scaled = got_scaled or ok
                                rep.ob('stream reads ask for size * sample_width * channels bytes (whole samples)', ok, cx.where(im, e[3]), '%s.%s:request-bytes' % (tag, ifn.name), 'asks %s bytes' % show(a)[:100],
                                       sample=dict(source=tag, request=show(a)[:80]))
        if c.name != 'BufferAudioSource':        # the buffer source is decided semantically below (buffer_semantics)
            rep.ob('read(size) requests size whole samples from the underlying stream', got_scaled, W(rfn), '%s.read:no-scaled-request' % tag)
        if c.name in ('RawAudioSource', 'WaveAudioSource'):
            rep.ob('None / negative size means all remaining samples', got_all, W(rfn), '%s.read:no-read-all' % tag)
    # ---------------------------------------------------------------- read() never changes whether the source is open (after the end: None on EVERY further call)
    from ..effects import Effects
    ef = Effects(cx.model)
    for mod, c in srcs:
        r = cx.model.find_method(mod, c, 'read')
        io_ = cx.model.find_method(mod, c, 'is_open')
        if r is None or io_ is None:
            continue
        open_fields = {n.attr for n in ast.walk(io_[2]) if isinstance(n, ast.Attribute) and isinstance(n.value, ast.Name) and n.value.id == 'self'}
        eff = ef.transitive(r[0], r[1], r[2])
        touched = sorted({e[1] for e in eff if e[0] == 'self' and e[1] in open_fields})
        calls_close = [n for fn_ in [r[2]] for n in ast.walk(fn_) if isinstance(n, ast.Call) and isinstance(n.func, ast.Attribute) and isinstance(n.func.value, ast.Name) and n.func.value.id == 'self' and n.func.attr in ('close', 'open')]
        rep.ob('read() leaves the open state alone: an exhausted source keeps answering None (it does not close itself)', not touched and not calls_close, cx.where(r[0], r[2]), '%s.read:changes-open-state' % c.name,
               'read() may write %s (read by is_open) / calls %s' % (touched, [ast.unparse(n.func) for n in calls_close]), sample=dict(source=c.name, open_state_fields=sorted(open_fields), written_by_read=touched))
    buffer_semantics(cx, rep)
    # ---------------------------------------------------------------- open() of an open file source does not start over (a history may open twice)
    nopen = 0
    for mod, c in srcs:
        o = cx.model.find_method(mod, c, 'open')
        if o is None or c.name not in ('RawAudioSource', 'WaveAudioSource', 'StdinAudioSource'):
            continue            # the property's source kinds; the buffer source has no stream to recreate
        for l in split_ites(cx.leaves_dyn(o)):
            st = [e for e in l.effects if e[0] == 'store' and e[1][0] == 'attr' and e[1][1] == ('self',) and e[2][0] == 'call'
                  and term_name(e[2][1]).split('.')[-1] in ('open', 'Wave_read', 'PyAudio', 'BufferedReader')]
            for e in st:
                nopen += 1
                fld = e[1]
                pre = l.conds[:e[4]] if e[4] is not None else l.conds
                guarded = any((g := norm_cmp(ct, tr)) and g[0] == 'is' and g[1] == fld and g[2] == ('c', None) for ct, tr, _ in pre) or \
                    any(open_check(ct) and not tr for ct, tr, _ in pre if not (ct[0] == 'cmp'))
                if guarded:
                    rep.ob('open() (re)creates the stream only when the source is not open: opening an open source does not start over', True, cx.where(o[0], e[3]), sample=dict(source=c.name, guard='%s is None' % show(fld)))
                elif not pre:
                    rep.ob('open() (re)creates the stream only when the source is not open: opening an open source does not start over', False, cx.where(o[0], e[3]), '%s.open:unguarded' % c.name,
                           '%s is assigned %s without testing whether the source is already open (an open; read; open; read history restarts at the beginning)' % (show(fld), show(e[2])[:60]))
                else:
                    rep.unknown('%s.open: the test guarding the creation of the stream (%s) was not recognised' % (c.name, [(show(ct)[:40], tr) for ct, tr, _ in pre]))
    rep.floor('stream creations in open() of the file sources', nopen, 2)
    # ---------------------------------------------------------------- file sources hand out exactly what the stream gave them (None when it gave nothing)
    from ..semantic import deep_leaves as _dl, evaluator as _evl, Undecided as _Und
    from ..termeval import NotEvaluable as _NE
    nret = 0
    for mod, c in srcs:
        if c.name not in ('RawAudioSource', 'WaveAudioSource', 'StdinAudioSource'):
            continue
        r = cx.model.find_method(mod, c, 'read')
        try:
            lv_ = _dl(cx, r[0], c, r[2])
            inner = [e[1] for l in lv_ for e in l.effects if e[0] == 'call' and e[1][0] == 'call' and e[1][1][0] == 'attr' and e[1][1][2] in ('read', 'readframes') and e[1][1][1] != ('self',)]
            inner = [t for i_, t in enumerate(inner) if t not in inner[:i_]]
            if not inner:
                raise _Und('no read of the underlying stream found')
            for given, want in ((b'abcd', b'abcd'), (b'', None)):
                a_ = {t: given for t in inner}
                a_.update({('p', 'size'): 2})
                hit = []
                for l in lv_:
                    if l.outcome == 'raise':
                        continue
                    ok_ = True
                    for ct, tr, _ in l.conds:
                        if not any(x in inner for x in walk(ct)):
                            continue
                        ev_ = _evl(a_)
                        got = ev_.ev(ct)
                        if ev_.leaves:
                            raise _Und('condition %s' % show(ct)[:60])
                        if bool(got) != tr:
                            ok_ = False
                            break
                    if ok_:
                        hit.append(l)
                if not hit:
                    raise _Und('no path applies when the stream gives %r' % (given,))
                for l in hit:
                    if not any(x in inner for e in l.effects for x in walk(e[1]) if e[0] == 'call' and isinstance(e[1], tuple)):
                        continue          # a path that does not read the stream at all (size handling ...)
                    ev_ = _evl(a_)
                    got = ev_.ev(l.value) if l.value is not None else None
                    if ev_.leaves:
                        raise _Und('returned value %s' % show(l.value)[:60])
                    nret += 1
                    rep.ob('read() hands out exactly the bytes the underlying stream returned, and None when it returned nothing', got == want, cx.where(r[0], l.node) if l.node is not None else cx.where(r[0], r[2]),
                           '%s.read:returns[%s]' % (c.name, 'data' if given else 'end'), 'when the stream returns %r, read() returns %r' % (given, got), sample=dict(source=c.name, stream_gives=repr(given), read_returns=repr(got)))
        except (_Und, _NE) as exc:
            rep.unknown('%s.read: what is returned could not be evaluated (%s)' % (c.name, exc))
    rep.floor('file-source read results evaluated', nret, 4)
    # ---------------------------------------------------------------- a source is closed until open() is called (reading it raises the I/O error)
    from ..semantic import deep_leaves, evaluator, Undecided
    from ..termeval import NotEvaluable
    nclosed = 0
    for mod, c in srcs:
        if c.name not in ('BufferAudioSource', 'RawAudioSource', 'WaveAudioSource', 'StdinAudioSource'):
            continue
        ini = cx.model.find_method(mod, c, '__init__')
        iso = cx.model.find_method(mod, c, 'is_open')
        if ini is None or iso is None:
            continue
        try:
            # constant field values after construction (stores of constants on every non-raising constructor path, base constructors inlined)
            consts = None
            for l in deep_leaves(cx, ini[0], c, ini[2], inline_super=True):
                if l.outcome == 'raise':
                    continue
                cur = {}
                for e in l.effects:
                    if e[0] == 'store' and e[1][0] == 'attr' and e[1][1] == ('self',):
                        cur[e[1][2]] = e[2]
                consts = cur if consts is None else {k: v for k, v in consts.items() if cur.get(k) == v}
            consts = {k: v for k, v in (consts or {}).items() if v[0] == 'c'}
            for l in deep_leaves(cx, iso[0], c, iso[2], inline_super=True):
                if l.outcome != 'return' or l.conds:
                    raise Undecided('is_open() has several paths')
                ev_ = evaluator({('attr', ('self',), k): v[1] for k, v in consts.items()})
                got = ev_.ev(l.value)
                if ev_.leaves:
                    raise Undecided('is_open() reads %s, which the constructor does not set to a constant' % [show(k)[:40] for k in ev_.leaves][:2])
                nclosed += 1
                rep.ob('a newly constructed source is not open (read() before open() raises the I/O error)', not got, cx.where(ini[0], ini[2]), '%s.__init__:open-at-construction' % c.name,
                       'after construction is_open() = %s evaluates to %r' % (show(l.value)[:60], got), sample=dict(source=c.name, is_open_after_init=bool(got)))
        except (Undecided, NotEvaluable) as exc:
            rep.unknown('%s: open state after construction not decided (%s)' % (c.name, exc))
    rep.floor('sources whose state after construction was evaluated', nclosed, 3)
    # ---------------------------------------------------------------- open() opens, close() closes (a closed source raises on read; a history may close and reopen)
    class _Obj:          # what a call that creates a stream evaluates to: some object that is not None
        def __repr__(self):
            return '<stream object>'
    nopenclose = 0
    for mod, c in srcs:
        if c.name not in ('BufferAudioSource', 'RawAudioSource', 'WaveAudioSource', 'StdinAudioSource'):
            continue
        ini, iso, opn, cls_ = (cx.model.find_method(mod, c, m_) for m_ in ('__init__', 'is_open', 'open', 'close'))
        if None in (ini, iso, opn, cls_):
            continue
        try:
            state = None
            for l in deep_leaves(cx, ini[0], c, ini[2], inline_super=True):
                if l.outcome == 'raise':
                    continue
                cur = {}
                for e in l.effects:
                    if e[0] == 'store' and e[1][0] == 'attr' and e[1][1] == ('self',):
                        cur[e[1][2]] = e[2]
                state = cur if state is None else {k: v for k, v in state.items() if cur.get(k) == v}
            PAR = {('p', 'sample_width'): 2, ('p', 'channels'): 1, ('p', 'sampling_rate'): 10, ('p', 'data'): bytes(8), ('attr', ('self',), 'sample_width'): 2, ('attr', ('self',), 'channels'): 1,
                   ('attr', ('self',), 'sampling_rate'): 10}

            def val_of(t):
                if t[0] == 'c':
                    return t[1]
                try:
                    ev_ = evaluator(dict(PAR))
                    v_ = ev_.ev(t)
                    return v_ if not ev_.leaves else _Obj()
                except NotEvaluable:
                    return _Obj()
            state = {k: val_of(v) for k, v in (state or {}).items()}

            def ov(st):
                d_ = dict(PAR)
                d_.update({('attr', ('self',), k): v for k, v in st.items()})
                return d_

            def apply(meth, st):
                hit = []
                for l in deep_leaves(cx, meth[0], c, meth[2], inline_super=True):
                    ok_ = True
                    for ct, tr, _ in l.conds:
                        ev_ = evaluator(ov(st))
                        got = ev_.ev(ct)
                        if ev_.leaves:
                            raise Undecided('%s tests %s, which is not tracked' % (meth[2].name, show(ct)[:50]))
                        if bool(got) != tr:
                            ok_ = False
                            break
                    if ok_:
                        hit.append(l)
                if len(hit) != 1 or hit[0].outcome == 'raise':
                    raise Undecided('%d paths of %s apply' % (len(hit), meth[2].name))
                st2 = dict(st)
                for e in hit[0].effects:
                    if e[0] == 'call' and e[1][0] == 'call' and e[1][1][0] == 'attr' and (e[1][1][1] == ('self',) or (e[1][1][1][0] == 'call' and e[1][1][1][1] == ('b', 'super'))):
                        raise Undecided('%s calls %s, which was not followed (it may change the state)' % (meth[2].name, show(e[1])[:50]))
                for e in hit[0].effects:
                    if e[0] == 'store' and e[1][0] == 'attr' and e[1][1] == ('self',):
                        try:
                            ev2 = evaluator(ov(st2))
                            v2 = ev2.ev(e[2])
                            st2[e[1][2]] = v2 if not ev2.leaves else _Obj()
                        except NotEvaluable:
                            st2[e[1][2]] = _Obj()
                return st2

            def is_open(st):
                lv_ = [l for l in deep_leaves(cx, iso[0], c, iso[2], inline_super=True) if l.outcome == 'return']
                if len(lv_) != 1 or lv_[0].conds:
                    raise Undecided('is_open() has several paths')
                ev_ = evaluator(ov(st))
                got = ev_.ev(lv_[0].value)
                if ev_.leaves:
                    raise Undecided('is_open() reads %s' % [show(k)[:40] for k in ev_.leaves][:2])
                return bool(got)
            s1 = apply(opn, state)
            s2 = apply(cls_, s1)
            s3 = apply(opn, s2)
            nopenclose += 1
            seq = [('open()', is_open(s1), True), ('open(); close()', is_open(s2), False), ('open(); close(); open()', is_open(s3), True), ('open(); open()', is_open(apply(opn, s1)), True), ('close()', is_open(apply(cls_, state)), False)]
            badseq = [(h, g) for h, g, w in seq if g != w]
            rep.ob('open() opens and close() closes the source (is_open() after open / close / reopen)', not badseq, cx.where(mod, c), '%s:open-close' % c.name,
                   'after %s is_open() is %s' % badseq[0] if badseq else None, sample=dict(source=c.name, histories=[h for h, _, _ in seq]))
        except (Undecided, NotEvaluable) as exc:
            rep.unknown('%s: open/close typestate not decided (%s)' % (c.name, exc))
    rep.floor('sources whose open/close typestate was evaluated', nopenclose, 3)
    # ---------------------------------------------------------------- whole-sample check
    cad = cx.leaves('io', 'check_audio_data')
    raises = [l for l in cad if l.outcome == 'raise']
    # decided semantically: the disjunction of the raising paths' conditions, evaluated as a formula over (len(data), width, channels) on a
    # grid of small values, must be true exactly when len(data) is not a multiple of width * channels
    rc_term = ('or', tuple(path_cond(l) for l in raises)) if raises else ('c', False)
    LEN = ('call', ('b', 'len'), (('p', 'data'),), ())
    ok, bad, unk = True, None, None
    for sw_ in (1, 2, 3, 4):
        for ch_ in (1, 2, 3):
            for n_ in range(0, 4 * sw_ * ch_ + 2):
                try:
                    got, other = evaluate(rc_term, {LEN: n_, ('p', 'sample_width'): sw_, ('p', 'channels'): ch_})
                except NotEvaluable as exc:
                    unk = str(exc)
                    break
                if other:
                    unk = 'depends on %s' % [show(o)[:60] for o in other][:3]
                    break
                if bool(got) != (n_ % (sw_ * ch_) != 0):
                    ok, bad = False, (n_, sw_, ch_, bool(got))
                    break
            if unk or not ok:
                break
        if unk or not ok:
            break
    if unk:
        rep.unknown('check_audio_data: raising condition %s not evaluable as a formula of len(data), sample_width, channels (%s)' % (show(rc_term)[:120], unk))
    else:
        rep.ob('check_audio_data rejects data that is not a whole number of samples', ok, cx.where('io', cx.fn('io', 'check_audio_data')), 'check_audio_data:condition',
               'raises iff %s; for len(data)=%s sample_width=%s channels=%s it %s' % ((show(rc_term)[:140],) + ((bad[0], bad[1], bad[2], 'raises' if bad[3] else 'does not raise') if bad else ('', '', '', ''))),
               sample=dict(function='check_audio_data', raises_iff=show(rc_term)[:140]))
    for mod, qual in (('io', 'BufferAudioSource.__init__'), ('core', 'AudioRegion.__post_init__')):
        lv = cx.leaves(mod, qual)
        okall = all(l.outcome == 'raise' or any(e[0] == 'call' and e[1][0] == 'call' and e[1][1] == ('g', 'io', 'check_audio_data') and e[4] == 0 for e in l.effects) for l in lv)
        rep.ob('%s calls check_audio_data unconditionally' % qual, okall, cx.where(mod, cx.fn(mod, qual)), '%s:check_audio_data' % qual)
    rep.floor('read() implementations analysed', nread, 5)
    check_buffered_open(cx, rep)
    check_no_memoised_io(cx, rep)
    check_stdin_not_closed(cx, rep)
    check_read_state_reset(cx, rep, srcs)
    check_roles(cx, rep, lambda p: cx.in_module(p['where'], 'io'), floor=60)
    rep.explanation = ('Sibling agreement of the read() implementations of every concrete AudioSource subclass found in the class table (5 today), each resolved through its MRO and decided on every path: '
                       'the open test is the first test and its failing branch raises AudioIOError; every returned value is None or was tested non-empty on that path (never b""); file sources request '
                       'size * sample_width * channels bytes (size frames for wave), None/negative size reads all. The buffer source is decided operation by operation, semantically: its paths (helpers, '
                       'property getters and setters inlined) are evaluated on grids of small buffers / cursors / arguments -- read(size) returns the next min(size, remaining) whole samples, None at the end, '
                       'and advances the one field it updates by what it returned; position reads back samples consumed; position = v (v + length when negative), IndexError exactly outside 0..length; '
                       'position_s / position_ms = int(rate * t [/ 1000]) through position (grid includes the (rate, time) pairs where the float product lands off an integer); rewind and close return to 0. '
                       'For the four source kinds is_open() is evaluated after construction (False), after open (True), close (False), reopen (True), double open; open() of a file source recreates the stream '
                       'only under a not-open test. check_audio_data raises exactly for lengths that are not a multiple of width*channels (grid) and both constructors call it unconditionally; audio-parameter '
                       'role agreement at every hand-over in io.py. NOT decided: equivalence over whole operation histories (argued from these per-operation facts).')
    rep.assumptions = ['file objects, wave.Wave_read.readframes and sys.stdin.buffer.read return at most the requested amount and b"" at end of data']
