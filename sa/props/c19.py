"""C19 -- a recorder returns exactly what was read, and replays it identically (DESIGN 4.19)"""
import ast

from ..facts import Ctx, norm_cmp, exc_name
from ..symex import show, walk, term_name
from .. import pat as P
from .c05 import check_roles

LEVEL = 'other'
SELF = P.Pat(lambda t: t == ('self',), 'self')
WRAPPERS = ('_AudioReadingProxy', '_Recorder', '_Limiter', '_FixedSizeAudioReader', '_OverlapAudioReader')


def effective_stores(cx, mod, c, mname):
    """field -> values stored by the method `mname` that runs for class c (MRO-resolved, self-calls inlined with dynamic
    dispatch on c, helpers known to the rules included); {} when it cannot be evaluated"""
    from ..semantic import deep_leaves, Undecided
    key = ('effstores', id(c), mname)
    if key in cx._leaves:
        return cx._leaves[key]
    out = {}
    r = cx.model.find_method(mod, c, mname)
    if r is not None:
        try:
            for l in deep_leaves(cx, r[0], c, r[2], inline_super=False):
                if l.outcome == 'raise':
                    continue
                for e in l.effects:
                    if e[0] == 'store' and e[1][0] == 'attr' and e[1][1] == ('self',):
                        if e[2] not in out.setdefault(e[1][2], []):
                            out[e[1][2]].append(e[2])
        except Undecided:
            out = {}
    cx._leaves[key] = out
    return out


def check(repo, rep):
    cx = Ctx(repo)
    rep.cx = cx
    mod = 'util'
    W = lambda n: cx.where(mod, n)
    rc = cx.cls(mod, '_Recorder')
    defs = cx.field_defs(mod, '_Recorder')
    # ---------------------------------------------------------------- 0. the recorder's typestate on a finite abstract machine
    # (representation-independent: whatever fields / flags / method pointers the class uses; see sa/typestate.py)
    from ..typestate import Machine
    tm = Machine(cx, mod, '_Recorder')
    tm.explore()
    machine_decided = not tm.undecided
    CLAUSES = ['data before the first rewind raises an error instead of returning partial data',
               'after a rewind, data is exactly what was read before the first rewind',
               'read() reads the wrapped source exactly once',
               'read() hands out the wrapped source\'s block unchanged',
               'before the first rewind, blocks come from the original source',
               'every block handed out while recording is recorded exactly once, end of stream is not',
               'after a rewind, reads replay the recorded data',
               'after a rewind the replay source is open and at its start',
               'a recording reader can be rewound']
    seen_cl = set()
    for clause, trace, msg in tm.violations:
        if clause in seen_cl:
            continue
        seen_cl.add(clause)
        rep.ob('recorder typestate: %s' % clause, False, W(rc), '_Recorder:typestate:%s' % clause[:40], 'after the operations [%s]: %s' % (trace, msg))
    if machine_decided:
        for clause in CLAUSES:
            if clause not in seen_cl:
                rep.ob('recorder typestate: %s' % clause, True, W(rc), sample=dict(clause=clause, abstract_states=tm.states_seen))
    else:
        rep.info.append('recorder typestate machine undecided: %s' % tm.undecided[0][:200])
    rep.extra['recorder_typestate'] = dict(abstract_states=tm.states_seen, decided=machine_decided, undecided=tm.undecided[:3])
    # The rules below look at HOW the class does it (which field is the cache, which flag, which pointer is switched).  When the
    # representation-independent machine above has decided every clause and found nothing, a shape these rules do not recognise is
    # not a violation of the property: their failures are then reported as "not recognised" (INCONCLUSIVE), never as VIOLATION.
    machine_clean = machine_decided and not tm.violations

    def rob(rule, ok, where, construct=None, message=None, **kw):
        if ok or not machine_clean:
            return rep.ob(rule, ok, where, construct, message, **kw)
        rep.unknown('%s [%s at %s]: the recorder is written in a form this rule does not recognise (%s); the typestate machine found every clause satisfied' % (rule, construct or '', where, (message or '')[:120]))
        return None
    # ---------------------------------------------------------------- 1. read-and-cache
    cache_fields = set()
    caching = None
    for fn in rc.body:
        if not isinstance(fn, ast.FunctionDef):
            continue
        for l in cx.leaves_of(mod, rc, fn):
            for e in l.effects:
                if e[0] == 'call' and e[1][0] == 'call' and e[1][1][0] == 'attr' and e[1][1][2] == 'append' and e[1][1][1][0] == 'attr' and e[1][1][1][1] == ('self',):
                    cache_fields.add(e[1][1][1][2])
                    caching = fn
    if caching is None or len(cache_fields) != 1:
        if not machine_decided:
            rep.unknown('_Recorder: caching read method / cache field not identified (%s) and the typestate machine is undecided (%s)' % (sorted(cache_fields), tm.undecided[0][:120]))
        return
    cache = sorted(cache_fields)[0]
    ncache = 0
    for l in cx.leaves_of(mod, rc, caching):
        if l.outcome != 'return':
            continue
        ncache += 1
        v = l.value
        isread = v[0] == 'call' and v[1][0] == 'attr' and v[1][2] == 'read' and v[2] == (('p', caching.args.args[1].arg),)
        rob('the recording read returns the inner block unchanged (same size request)', isread, W(l.node), '_Recorder.%s:returns' % caching.name, 'returns %s' % show(v)[:100])
        apps = [e for e in l.effects if e[0] == 'call' and e[1][0] == 'call' and e[1][1] == ('attr', ('attr', ('self',), cache), 'append')]
        notnone = any((g := norm_cmp(c[0], c[1])) and g[0] == 'is not' and g[1] == v and g[2] == ('c', None) for c in l.conds) or any(c[0] == v and c[1] for c in l.conds)
        isnone = any((g := norm_cmp(c[0], c[1])) and g[0] == 'is' and g[1] == v and g[2] == ('c', None) for c in l.conds) or any(c[0] == v and not c[1] for c in l.conds)
        if notnone:
            ok = len(apps) == 1 and apps[0][1][2] == (v,)
            rob('every block handed out is appended to the cache exactly once, unmodified', ok, W(l.node), '_Recorder.%s:append' % caching.name, 'appends: %s' % [show(a[1])[:80] for a in apps],
                   sample=dict(path='data', appends=[show(a[1])[:70] for a in apps]))
        elif isnone:
            rob('end of stream (None) is not recorded', not apps, W(l.node), '_Recorder.%s:append-none' % caching.name)
        else:
            rob('a block is cached only after it was tested against None', not apps, W(l.node), '_Recorder.%s:unguarded-append' % caching.name)
    rep.floor('recording read paths', ncache, 2)
    # the read() of the recorder goes through the switchable reader field, initially the caching method
    rb = [f for f, ds in defs.items() if any(d['method'] == '__init__' and d['value'] == ('attr', ('self',), caching.name) for d in ds)]
    rl = cx.leaves(mod, '_Recorder.read')
    for l in rl:
        if caching.name == 'read':
            break           # read() is itself the recording read decided above
        if l.outcome == 'return':
            v = l.value
            ok = v[0] == 'call' and ((v[1][0] == 'attr' and v[1][1] == ('self',) and (v[1][2] in rb or v[1][2] == caching.name))) and v[2] == (('p', 'size'),)
            rob('_Recorder.read(size) delegates to the current reader (caching first, cache source after rewind)', ok, W(l.node), '_Recorder.read', 'returns %s' % show(v)[:80])
    # ---------------------------------------------------------------- 2. rewind
    wl = cx.leaves(mod, '_Recorder.rewind')
    wfn = cx.fn(mod, '_Recorder.rewind')
    tested_in_rewind = {x[2] for l in wl for c in l.conds for x in walk(c[0]) if x[0] == 'attr' and x[1] == ('self',)}
    flags = [f for f, ds in defs.items() if any(d['method'] == '__init__' and d['value'] == ('c', False) for d in ds)
             and (any(d['method'] == 'rewind' and d['value'] == ('c', True) for d in ds) or f in tested_in_rewind)]
    datafields = [f for f, ds in defs.items() if any(d['method'] == 'rewind' and P.method(P.const(b''), 'join', P.field(cache))(d['value']) for d in ds)]
    rob('rewind freezes the recording as b"".join(cache) (blocks in read order)', len(datafields) == 1, W(wfn), '_Recorder.rewind:data', 'fields assigned b"".join(cache): %s' % datafields)
    if len(flags) == 1:
        rob('a first-rewind flag exists (False at construction, True after the first rewind)', True, W(wfn), '_Recorder.rewind:flag', 'candidates %s' % flags)
    elif not machine_decided:
        rep.unknown('_Recorder.rewind: how the recorder remembers that it was rewound (a boolean field False at construction, True after the first rewind) was not recognised: candidates %s; the typestate machine is undecided too (%s)' % (flags, tm.undecided[0][:120]))
    nfirst = nlater = 0
    if len(flags) == 1 and len(datafields) == 1:
        flag, dfield = flags[0], datafields[0]
        for l in wl:
            fc = [c for c in l.conds if c[0] == ('attr', ('self',), flag)]
            if not fc:
                rep.unknown('_Recorder.rewind: a path does not test the first-rewind flag')
                continue
            if fc[0][1]:
                nlater += 1
                calls = [e[1] for e in l.effects if e[0] == 'call']
                ok = any(P.method(P.attr(SELF, '_audio_source'), 'rewind')(c) or (c[0] == 'call' and c[1][0] == 'attr' and c[1][2] == 'rewind') for c in calls)
                stores = [e for e in l.effects if e[0] == 'store' and e[1][2] in (dfield, cache)]
                rob('later rewinds rewind the in-memory source and keep the recorded data', ok and not stores, W(wfn), '_Recorder.rewind[later]', 'calls %s, stores %s' % ([show(c)[:50] for c in calls], [show(s_[1]) for s_ in stores]),
                       sample=dict(path='later rewind', calls=[show(c)[:60] for c in calls]))
            else:
                nfirst += 1
                stores = {e[1][2]: e for e in l.effects if e[0] == 'store' and e[1][0] == 'attr' and e[1][1] == ('self',)}
                newsrc = [(f, e) for f, e in stores.items() if e[2][0] == 'call' and e[2][1][0] == 'g' and e[2][1][2] == 'BufferAudioSource']
                ok = len(newsrc) == 1 and newsrc[0][1][2][2][:1] in ((('attr', ('self',), dfield),), (stores[dfield][2],) if dfield in stores else ())
                rob('the first rewind replaces the source by an in-memory source over the recorded data', ok, W(wfn), '_Recorder.rewind[first]:source', 'new source: %s' % [show(e[2])[:100] for _, e in newsrc],
                       sample=dict(path='first rewind', new_source=[show(e[2])[:90] for _, e in newsrc]))
                if newsrc:
                    sf = newsrc[0][0]
                    # the switchable reader now reads from the new source
                    sw_ok = any(f in rb and (e[2] == ('attr', ('attr', ('self',), sf), 'read') or e[2] == ('attr', newsrc[0][1][2], 'read')) for f, e in stores.items())
                    rob('after the first rewind reads come from the recorded data (reader switched to the new source)', sw_ok, W(wfn), '_Recorder.rewind[first]:switch', 'stores: %s' % {f: show(e[2])[:60] for f, e in stores.items()})
                    idx_new = [i for i, e in enumerate(l.effects) if e is newsrc[0][1]]
                    idx_open = [i for i, e in enumerate(l.effects) if e[0] == 'call' and e[1][0] == 'call' and e[1][1][0] == 'attr' and e[1][1][2] == 'open']
                    rob('the replay source is opened (after it replaced the original)', bool(idx_open) and bool(idx_new) and idx_open[-1] > idx_new[0], W(wfn), '_Recorder.rewind[first]:open')
                rob('the first-rewind flag is set', flag in stores and stores[flag][2] == ('c', True), W(wfn), '_Recorder.rewind[first]:flag-set')
    if not (machine_decided and len(flags) != 1):
        rep.floor('_Recorder.rewind first/later paths', min(nfirst, nlater), 1)
    # ---------------------------------------------------------------- 3. data before the first rewind
    g = None
    for n in rc.body:
        if isinstance(n, ast.FunctionDef) and n.name == 'data' and any(isinstance(d, ast.Name) and d.id == 'property' for d in n.decorator_list):
            g = n
    if g is None:
        rep.unknown('_Recorder.data property not found')
    else:
        dl = cx.leaves_of(mod, rc, g)
        raises = [l for l in dl if l.outcome == 'raise']
        rets = [l for l in dl if l.outcome == 'return']
        dfield = datafields[0] if datafields else '_data'
        okr = any((gd := norm_cmp(l.conds[-1][0], l.conds[-1][1])) and gd[0] == 'is' and gd[1] == ('attr', ('self',), dfield) and gd[2] == ('c', None) for l in raises if l.conds)
        rob('data raises while nothing was frozen yet (before the first rewind)', okr, W(g), '_Recorder.data:guard', 'raising conditions %s' % [show(l.conds[-1][0])[:60] for l in raises if l.conds])
        has_getattr = cx.model.find_method(mod, rc, '__getattr__') is not None
        for l in raises:
            en = exc_name(l)
            rep.ob('the data guard raises an error that attribute lookup does not swallow (AttributeError from a property falls back to __getattr__, which forwards `data` to the wrapped source)',
                   not (has_getattr and en == 'AttributeError'), W(l.node), '_Recorder.data:exception-type', 'raises %s in a class whose __getattr__ delegates to the wrapped source' % en)
        rob('data returns the frozen recording', bool(rets) and all(l.value == ('attr', ('self',), dfield) for l in rets), W(g), '_Recorder.data:returns', 'returns %s' % [show(l.value)[:60] for l in rets])
        init0 = any(d['method'] == '__init__' and d['value'] == ('c', None) for d in defs.get(dfield, []))
        rob('the recording starts unset (None) at construction', init0, W(cx.fn(mod, '_Recorder.__init__')), '_Recorder.__init__:data-none')
    # ---------------------------------------------------------------- 3b. the limiter's view of the recording uses the budget that read() enforces
    lc = cx.cls(mod, '_Limiter', required=False)
    if lc is not None:
        ldefs = cx.field_defs(mod, '_Limiter')
        MS = [f for f, ds in ldefs.items() if ds and all(P.call('round', P.prod(P.param('max_read'), P.role('sampling_rate')))(d['value']) for d in ds)]
        BPS = [f for f, ds in ldefs.items() if ds and all(P.prod(P.role('sample_width'), P.role('channels'))(d['value']) for d in ds)]
        for n in lc.body:
            if isinstance(n, ast.FunctionDef) and n.name == 'data':
                for l in cx.leaves_of(mod, lc, n):
                    if l.outcome != 'return':
                        continue
                    v = l.value
                    inner = P.attr(P.attr(SELF, '_audio_source'), 'data')
                    if inner(v):
                        rep.ob('the limiter exposes the inner recording', True, W(n))
                        continue
                    isms = P.Pat(lambda t: t[0] == 'attr' and t[1] == ('self',) and t[2] in MS, 'budget')
                    isbps = P.Pat(lambda t: (t[0] == 'attr' and t[1] == ('self',) and t[2] in BPS) or P.prod(P.role('sample_width'), P.role('channels'))(t), 'bps')
                    hi_ = v[2][2] if v[0] == 'sub' and v[2][0] == 'slice' else None
                    if hi_ is not None and not P.prod(isms, isbps)(hi_):
                        # a field that caches the byte budget: replace it by its one definition in the constructor
                        from ..facts import self_field_exprs, subst_term
                        fdefs_ = self_field_exprs(cx, mod, '_Limiter')
                        for x in list(walk(hi_)):
                            if x[0] == 'attr' and x[1] == ('self',) and x[2] in fdefs_ and x[2] not in MS and x[2] not in BPS:
                                hi_ = subst_term(hi_, x, fdefs_[x[2]])
                    ok = v[0] == 'sub' and inner(v[1]) and v[2][0] == 'slice' and v[2][1] in (None, ('c', 0), ('c', None)) and hi_ is not None and P.prod(isms, isbps)(hi_)
                    if not ok and hi_ is not None and any(x[0] == 'attr' and ((x[1][0] == 'attr' and x[1][1] == ('self',) and x[1][2] not in ('_audio_source',)) or (x[1][0] == 'call' and x[1][1][0] == 'g')) for x in walk(hi_)):
                        rep.unknown('_Limiter.data: the trim %s reads the budget through a helper object held in a field; not followed' % show(hi_)[:80])
                        continue
                    rep.ob('the limiter trims the recording with the SAME sample budget that read() enforces (round(max_read*rate) samples x bytes per sample)', ok, W(l.node), '_Limiter.data:trim',
                           'data is %s' % show(v)[:140], sample=dict(limiter_data=show(v)[:120]))
    # ---------------------------------------------------------------- 4. reset-completeness of the wrappers and rewind propagation
    nreset = 0
    for cname in WRAPPERS:
        c = cx.cls(mod, cname, required=False)
        if c is None:
            continue
        own = cx.model.methods_of(c)
        fdefs = cx.field_defs(mod, cname)
        if 'rewind' in own:
            rw = own['rewind']
            rwl = cx.leaves_of(mod, c, rw)
            # propagation: the wrapped source / the parent wrapper is rewound
            for l in rwl:
                if l.outcome == 'raise':
                    continue
                calls = [e[1] for e in l.effects if e[0] == 'call' and e[1][0] == 'call' and e[1][1][0] == 'attr' and e[1][1][2] == 'rewind']
                first_path = cname == '_Recorder' and any(c0[0] == ('attr', ('self',), flags[0] if flags else '') and not c0[1] for c0 in l.conds)
                if cname == '_Recorder' and not flags:
                    continue            # representation of the first-rewind state not recognised (already INCONCLUSIVE above)
                if not first_path:
                    (rob if cname == '_Recorder' else rep.ob)('%s.rewind propagates to the wrapped source (super().rewind() / inner rewind)' % cname, bool(calls), W(rw), '%s.rewind:propagation' % cname, 'rewind calls: %s' % [show(x)[:50] for x in calls])
        # fields written on the read path, or holding generator state, must be re-initialised by the class's rewind
        read_written = set()
        for mname in ('read',) + tuple(m for m in own if m not in ('__init__', 'rewind', 'read')):
            if mname not in own:
                continue
            reach_read = mname == 'read' or any(isinstance(n, ast.Attribute) and isinstance(n.value, ast.Name) and n.value.id == 'self' and n.attr == mname for n in ast.walk(own['read'])) if 'read' in own else False
            if not reach_read:
                continue
            for f, ds in fdefs.items():
                if any(d['method'] == mname for d in ds):
                    read_written.add(f)
        gen_fields = {f for f, ds in fdefs.items() if any(d['method'] == '__init__' and d['value'][0] == 'call' and d['value'][1][0] == 'attr' and d['value'][1][1] == ('self',) and
                                                         d['value'][1][2] in own and any(isinstance(x, ast.Yield) for x in ast.walk(own[d['value'][1][2]])) for d in ds)}
        for f in sorted(read_written | gen_fields):
            if cname == '_Recorder':
                continue        # the recorder's cache IS the recording (the one exception, DESIGN 4.19)
            nreset += 1
            init = [d['value'] for d in fdefs[f] if d['method'] == '__init__']
            rew = [d['value'] for d in fdefs[f] if d['method'] == 'rewind']
            if not rew:
                # the rewind that runs for this class may be inherited and reach the class's own code through a hook it calls
                # (template method): its stores with self-calls inlined under dynamic dispatch
                rew = effective_stores(cx, mod, c, 'rewind').get(f, [])
            ok = bool(init) and bool(rew) and all(r in init for r in rew)
            rep.ob('%s.%s (state consumed by read) is re-initialised by rewind to its construction value' % (cname, f), ok, W(own.get('rewind', c)), '%s.rewind:reset-%s' % (cname, f),
                   'construction value %s, rewind value %s' % ([show(x)[:50] for x in init], [show(x)[:50] for x in rew]), sample=dict(wrapper=cname, field=f, init=[show(x)[:40] for x in init], rewind=[show(x)[:40] for x in rew]))
    rep.floor('wrapper fields needing a reset on rewind', nreset, 2)
    # ---------------------------------------------------------------- 5. non-recording readers expose neither data nor rewind
    gl = cx.leaves(mod, 'AudioReader.__getattr__')
    gfn = cx.fn(mod, 'AudioReader.__getattr__')
    hidden = set()
    okhide = False
    for l in gl:
        if l.outcome == 'raise' and exc_name(l) == 'AttributeError':
            ins = [c for c in l.conds if c[0][0] == 'cmp' and c[0][1] == 'in' and c[0][2] == ('p', 'name') and c[1]]
            rw = [c for c in l.conds if c[0] == ('attr', ('self',), 'rewindable') or c[0] == ('attr', ('self',), '_record')]
            if ins and rw and not rw[0][1]:
                hidden |= {x[1] for x in ins[0][0][3][1] if x[0] == 'c'}
                okhide = True
    if not (okhide and {'data', 'rewind'} <= hidden):
        # the guard has another shape (match statement, nested ifs, a table): decide it by values -- the attribute name and the
        # recording flag are taken through the conditions of every path; with ("data" | "rewind", not recording) every path that
        # applies raises AttributeError without asking the wrapped source
        from ..semantic import evaluator as _ev19
        from ..termeval import NotEvaluable as _NE19
        pn_ = ('p', gfn.args.args[1].arg)
        flags_ = [('attr', ('self',), 'rewindable'), ('attr', ('self',), '_record')]
        sem_bad, sem_n, undec = None, 0, None
        for nm_ in ('data', 'rewind'):
            for l in gl:
                ok_ = True
                for ct, tr, _ in l.conds:
                    if not any(x == pn_ or x in flags_ for x in walk(ct)):
                        continue
                    try:
                        a_ = {pn_: nm_}
                        a_.update({f_: False for f_ in flags_})
                        e_ = _ev19(a_)
                        got = e_.ev(ct)
                    except _NE19 as exc:
                        undec = undec or str(exc)
                        continue
                    if e_.leaves:
                        continue
                    if bool(got) != tr:
                        ok_ = False
                        break
                if not ok_:
                    continue
                sem_n += 1
                asks = any(e[0] == 'call' and e[1][0] == 'call' and e[1][1] == ('b', 'getattr') for e in l.effects)
                if not (l.outcome == 'raise' and exc_name(l) == 'AttributeError' and not asks) and sem_bad is None:
                    sem_bad = 'name %r on a non-recording reader can take a path that %s' % (nm_, 'asks the wrapped source' if asks else 'does not raise AttributeError')
        if undec and sem_bad:
            rep.unknown('AudioReader.__getattr__: guard not evaluable (%s)' % undec)
        else:
            rep.ob('a non-recording AudioReader raises AttributeError for data and rewind', sem_bad is None and sem_n >= 2, W(gfn), 'AudioReader.__getattr__:hidden', sem_bad or 'no path applies', sample=dict(hidden=['data', 'rewind'], decided='by values'))
    else:
        rep.ob('a non-recording AudioReader raises AttributeError for data and rewind', True, W(gfn), 'AudioReader.__getattr__:hidden', 'hidden names %s' % sorted(hidden), sample=dict(hidden=sorted(hidden)))
    rwp = None
    for n in cx.cls(mod, 'AudioReader').body:
        if isinstance(n, ast.FunctionDef) and n.name == 'rewindable':
            rwp = n
    if rwp is not None:
        for l in cx.leaves_of(mod, cx.cls(mod, 'AudioReader'), rwp):
            if l.outcome == 'return':
                f = l.value
                okf = f[0] == 'attr' and f[1] == ('self',) and any(d['value'] == ('p', 'record') for d in cx.field_defs(mod, 'AudioReader').get(f[2], []))
                rep.ob('rewindable reflects the record argument', okf, W(rwp), 'AudioReader.rewindable', 'returns %s' % show(f)[:60])
    # Recorder = AudioReader(record=True)
    rr = cx.leaves(mod, 'Recorder.__init__')
    for l in rr:
        sup = [e[1] for e in l.effects if e[0] == 'call' and e[1][0] == 'call' and e[1][1][0] == 'attr' and e[1][1][2] == '__init__']
        ar_init = cx.model.find_method(mod, cx.cls(mod, 'AudioReader'), '__init__')
        from ..symex import bind_call
        ok = bool(sup) and ar_init is not None and bind_call(sup[0], ar_init[2], skip_self=True).get('record') == ('c', True)
        rep.ob('Recorder is an AudioReader constructed with record=True', ok, W(cx.fn(mod, 'Recorder.__init__')), 'Recorder.__init__:record', 'super call %s' % [show(x)[:100] for x in sup])
    # the proxy's data property of non-recorders raises
    pc = cx.cls(mod, '_AudioReadingProxy')
    for n in pc.body:
        if isinstance(n, ast.FunctionDef) and n.name == 'data':
            lv = cx.leaves_of(mod, pc, n)
            rep.ob('a plain reading proxy has no recorded data (raises)', all(l.outcome == 'raise' for l in lv), W(n), '_AudioReadingProxy.data')
    # composition (C10): the framing reader is outermost; recorder and limiter wrap the source inside it
    from . import c10
    sub = type(rep)(rep.prop, rep.tier, rep.repo_root, rep.level)
    c10.check(repo, sub)
    for o in sub.obligations:
        if 'composition' in o['rule'] or 'limiter' in o['rule']:
            rep.obligations.append(o)
    for v in sub.violations:
        if 'composition' in v['rule'] or 'limiter' in v['rule']:
            rep.violations.append(v)
    check_roles(cx, rep, lambda p: p['func'].startswith(('_Recorder.', 'Recorder.', 'AudioReader.', '_Limiter.')), floor=3)
    rep.explanation = ('Decided from provenance terms, field definitions and effects: the recording read returns the inner block unchanged and appends exactly that block once on the not-None path only; rewind: '
                       'first time -> data = b"".join(cache) (read order), source replaced by BufferAudioSource(data, rate, width, channels) in role, reader switched to it, opened, flag set; later -> inner '
                       'rewind with data untouched; data raises while unset; reset-completeness: in every wrapper class each field written on the read path or holding generator state is re-initialised by '
                       'that class\'s rewind to its construction value (the recorder\'s cache is the one exception: it is the recording) and rewind propagates inward; a non-recording AudioReader raises '
                       'AttributeError for {data, rewind}; Recorder = AudioReader(record=True); wrapper composition and limiter rules of C10 (never beyond max_read). '
                       'The recorder\'s typestate is decided on a finite abstract machine (sa/typestate.py): reachable abstract states under read->block / read->None / rewind / data explored to a fixpoint, independent of the fields, flags or method pointers the class uses. NOT decided: replay equality over whole histories (argued from these facts and C11 for the in-memory source).')
    rep.assumptions = ['C11 for BufferAudioSource (replay source)', 'C10 for framing and limiter']
