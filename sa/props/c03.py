"""C03 -- silence tolerance (DESIGN 4.3)"""
from ..tokrun import feed
from ._tok_common import TRUSTED, ASSUME, EXPL

LEVEL = 'proof'


def check(repo, rep):
    feed(rep, repo, 'C03', 'general')
    rep.explanation = EXPL + (" C03 obligations use the ghost run counter R (consecutive invalid frames at the tail of the appended "
                              "sequence, continuing across a cut, independent of the code's own counter): every invalid append keeps "
                              "R <= max_continuous_silence (<= max(max_continuous_silence, init_max_silence) when init_min > 1); every "
                              "token has R < len (contains a valid frame), starts with a valid frame unless it continues a cut token, "
                              "and in drop mode a token that was not cut has R == 0 (ends with a valid frame); trailing-silence removal "
                              "never removes more than R frames.")
    rep.trusted_base = TRUSTED
    rep.assumptions = ASSUME
    rep.floor('C03 obligations', len(rep.obligations), 80)


def thorough(repo, rep):
    from ..linear_selfcheck import run
    r = run()
    rep.extra['arithmetic_core_selfcheck'] = r
    if r['unsound']:
        rep.unknown('the Fourier-Motzkin core disagreed with brute force on %d of %d random systems: no verdict of this check can be trusted' % (r['unsound'], r['systems']))
    print('arithmetic core self-check: %s' % r)
