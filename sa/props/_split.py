"""Shared extraction of the wiring of core.split() (used by C05, C06, C08, C09)."""
import ast

from ..facts import Ctx, norm_cmp, exc_name, const_value
from ..symex import show, walk, term_name, bind_call, ROLE_OF
from .. import pat as P


class SplitWiring:
    """per returning path of split(): the lazy iterable, the region builder call, the tokenizer construction,
    the source object and the window term"""

    def __init__(s, cx):
        s.cx = cx
        s.fn = cx.fn('core', 'split')
        s.leaves = cx.leaves('core', 'split')
        s.paths = []
        s.problems = []      # (kind 'unknown'|'violation', rule, where, message)
        for l in s.leaves:
            if l.outcome == 'return':
                s.paths.append(s.extract(l))

    def W(s, node):
        return s.cx.where('core', node)

    def extract(s, l):
        d = dict(leaf=l, lazy=None, kind=None, elt=None, iter=None, tokvar=None, tok=None, src=None, reader_branch=None, where=s.W(l.node))
        v = l.value
        while v[0] == 'call' and v[1] == ('b', 'iter') and len(v[2]) == 1:
            v = v[2][0]          # iter(x) is as lazy as x
        d['reader_branch'] = any(c[0][0] == 'call' and c[0][1] == ('b', 'isinstance') and len(c[0][2]) == 2 and term_name(c[0][2][1]).endswith('AudioReader') and c[1] for c in l.conds)
        # laziness
        if v[0] in ('tuple', 'list') and not v[1]:
            d['lazy'], d['kind'], d['empty'] = True, 'empty', True       # an early return of "no detections" that never reaches the tokenizer
        elif v[0] == 'gen':
            d['lazy'], d['kind'] = True, 'generator expression'
            d['elt'], gens = v[1], v[2]
            if len(gens) == 1 and not gens[0][2]:
                d['tokvar'], d['iter'] = gens[0][0], gens[0][1]
        elif v[0] in ('listcomp', 'setcomp'):
            d['lazy'], d['kind'] = False, v[0]
            d['elt'], gens = v[1], v[2]
            if len(gens) == 1:
                d['tokvar'], d['iter'] = gens[0][0], gens[0][1]
        elif v[0] == 'call' and v[1] == ('b', 'map') and len(v[2]) == 2:
            d['lazy'], d['kind'] = True, 'map'
            f = v[2][0]
            d['iter'] = v[2][1]
            if f[0] == 'lambda' and len(f[1]) == 1:
                d['tokvar'] = f[1][0]
                d['elt'] = f[2]
        elif v[0] == 'call' and v[1][0] == 'b' and v[1][1] in ('list', 'tuple', 'sorted', 'set'):
            d['lazy'], d['kind'] = False, v[1][1] + '()'
            inner = v[2][0] if v[2] else None
            if inner and inner[0] in ('gen', 'listcomp') and len(inner[2]) == 1:
                d['elt'], d['tokvar'], d['iter'] = inner[1], inner[2][0][0], inner[2][0][1]
        elif v[0] == 'call' and v[1][0] == 'localfunc':
            d['kind'] = 'local generator function'
        elif v[0] == 'call' and v[1][0] == 'g' and s.cx.model.lookup(v[1]) and s.cx.model.lookup(v[1])[0] == 'func' \
                and any(isinstance(x, (ast.Yield, ast.YieldFrom)) for x in ast.walk(s.cx.model.lookup(v[1])[1])):
            # a module-level generator function: lazy; when it is `for tok in <iterable>: yield f(tok)` (one loop, one yield per
            # element, no test on the element) it is the same object as the generator expression `(f(tok) for tok in <iterable>)`
            d['lazy'], d['kind'] = True, 'generator function %s' % v[1][2]
            gfn = s.cx.model.lookup(v[1])[1]
            b = bind_call(v, gfn)
            args = {k: x for k, x in b.items() if not k.startswith('*')}
            try:
                glv = s.cx.sx.run(v[1][1], gfn, args=args)
            except Exception:
                glv = []
            looped = [x for x in glv if any(e[0] == 'loop-enter' for e in x.effects)]
            plain = len(looped) == 1 and all(not any(e[0] == 'yield' for e in x.effects) for x in glv if x not in looped)
            if plain:
                x = looped[0]
                ins = [e for e in x.effects if e[0] == 'loop-enter']
                ys = [e for e in x.effects if e[0] == 'yield']
                it = ins[0][1]
                el = ('elem', it)
                tested = any(any(y == el for y in walk(c[0])) for c in x.conds)
                if len(ins) == 1 and len(ys) == 1 and not tested and x.outcome in (None, 'fall', 'return') and x.effects.index(ys[0]) > x.effects.index(ins[0]):
                    from ..facts import subst_term
                    d['iter'] = it
                    d['tokvar'] = '__token'
                    d['elt'] = subst_term(ys[0][1], el, ('lp', '__token'))
        # tokenizer call
        it = d['iter']
        if it is not None and it[0] == 'call' and it[1][0] == 'attr' and it[1][2] == 'tokenize':
            d['tok'] = it[1][1]
            d['tokenize_call'] = it
            if it[2]:
                d['src'] = it[2][0]
            else:
                kws = dict(it[3])
                d['src'] = kws.get('data_source')
        return d

    # components of a token inside the element expression
    def comp(s, d, i):
        tv = d['tokvar']
        if tv is None:
            return None
        try:
            n = ast.parse(tv, mode='eval').body
        except SyntaxError:
            return None
        if isinstance(n, ast.Name):
            return ('sub', ('lp', n.id), ('c', i))
        if isinstance(n, (ast.Tuple, ast.List)) and i < len(n.elts) and isinstance(n.elts[i], ast.Name):
            return ('lp', n.elts[i].id)
        return None

    def region_ctor(s, d):
        """the AudioRegion(...) construction reached from the element expression, with builder helpers inlined
        -> dict field -> term, or None"""
        cx = s.cx
        e = d['elt']
        for _ in range(3):
            if e is None or e[0] != 'call' or e[1][0] != 'g':
                return None
            lk = cx.model.lookup(e[1])
            if lk is None:
                return None
            if lk[0] == 'class':
                fields = [n.target.id for n in lk[1].body if isinstance(n, ast.AnnAssign) and isinstance(n.target, ast.Name)]
                out = {}
                for i, a in enumerate(e[2]):
                    if i < len(fields):
                        out[fields[i]] = a
                for k, v in e[3]:
                    out[k] = v
                out['_class'] = e[1][2]
                return out
            if lk[0] == 'func':
                fn = lk[1]
                b = bind_call(e, fn)
                args = {k: v for k, v in b.items() if not k.startswith('*')}
                lv = [x for x in cx.sx.run(e[1][1], fn, args=args) if x.outcome == 'return']
                if len(lv) != 1:
                    return None
                e = lv[0].value
        return None

    def tokenizer_args(s, d):
        """constructor arguments of the tokenizer bound to parameter names"""
        t = d['tok']
        if t is None or t[0] != 'call' or t[1][0] != 'g':
            return None
        lk = s.cx.model.lookup(t[1])
        if not lk or lk[0] != 'class':
            return None
        r = s.cx.model.find_method(t[1][1], lk[1], '__init__')
        if not r:
            return None
        b = bind_call(t, r[2], skip_self=True)
        return {k: v for k, v in b.items() if not k.startswith('*')}, r[2]


def is_attr_of(src, roles=None, names=None):
    def f(t):
        if t[0] != 'attr' or t[1] != src:
            return False
        if names and t[2] in names:
            return True
        if roles and ROLE_OF.get(t[2]) in roles:
            return True
        return False
    return P.Pat(f, 'source.<%s>' % (roles or names,))
