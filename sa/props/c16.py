"""C16 -- region slicing follows Python slice semantics on whole samples (DESIGN 4.16)"""
import ast

from ..facts import Ctx, norm_cmp, exc_name
from ..symex import show, walk, term_name
from .. import pat as P
from .c05 import check_roles

LEVEL = 'other'
SELF = P.Pat(lambda t: t == ('self',), 'self')


def check(repo, rep):
    cx = Ctx(repo)
    W = lambda n: cx.where('core', n)
    gi = cx.fn('core', 'AudioRegion.__getitem__')
    lv = cx.leaves('core', 'AudioRegion.__getitem__')
    bps = P.prod(P.role('sample_width', SELF), P.role('channels', SELF))
    datalen = P.call('len', P.attr(SELF, 'data'))
    nsamples = P.binop('//', datalen, bps) | P.call('len', SELF)
    is_cci = lambda t: t[0] == 'call' and t[1][0] == 'g' and t[2][:1] == (('p', 'index'),)
    START = P.Pat(lambda t: (t[0] == 'sub' and is_cci(t[1]) and t[2] == ('c', 0)) or t == ('attr', ('p', 'index'), 'start'), 'start')
    STOP = P.Pat(lambda t: (t[0] == 'sub' and is_cci(t[1]) and t[2] == ('c', 1)) or t == ('attr', ('p', 'index'), 'stop'), 'stop')

    def norm_of(B):
        clamped = P.call('max', P.summ(B, nsamples), P.const(0)) | P.call('max', P.const(0), P.summ(B, nsamples))
        return B, clamped, P.summ(B, nsamples)
    nret = 0
    for l in lv:
        if l.outcome == 'raise':
            continue
        if l.outcome != 'return':
            continue
        nret += 1
        v = l.value
        okc = v[0] == 'call' and v[1] == ('g', 'core', 'AudioRegion') and len(v[2]) >= 1
        rep.ob('slicing returns a new AudioRegion', okc, W(l.node), 'AudioRegion.__getitem__:result', 'returns %s' % show(v)[:80])
        if not okc:
            continue
        d = v[2][0]
        oks = d[0] == 'sub' and d[1] == ('attr', ('self',), 'data') and d[2][0] == 'slice' and d[2][3] is None
        rep.ob('the slice is taken from the region\'s own bytes', oks, W(l.node), 'AudioRegion.__getitem__:source', 'data is %s' % show(d)[:100])
        if not oks:
            continue
        lo, hi = d[2][1], d[2][2]
        for name, bound, B, isstart in (('start', lo, START, True), ('stop', hi, STOP, False)):
            raw, clamped, unclamped = norm_of(B)
            if bound is None or bound == ('c', None):
                if isstart:
                    # omitted start: byte 0 (also fine)
                    rep.ob('onset = start sample * bytes_per_sample', True, W(l.node))
                else:
                    none_cond = any(norm_cmp(c[0], c[1]) and norm_cmp(c[0], c[1])[0] == 'is' and STOP(norm_cmp(c[0], c[1])[1]) and norm_cmp(c[0], c[1])[2] == ('c', None) for c in l.conds)
                    rep.ob('an omitted stop means "to the end" (offset None only when stop is None)', none_cond, W(l.node), 'AudioRegion.__getitem__:stop-none', 'offset is None under %s' % [(show(c[0])[:50], c[1]) for c in l.conds])
                continue
            if bound == ('c', 0) and isstart:
                continue
            fs = None
            ok_raw = P.prod(raw, bps)(bound)
            ok_clamped = P.prod(clamped, bps)(bound)
            bad_unclamped = P.prod(unclamped, bps)(bound)
            neg = any((g := norm_cmp(c[0], c[1])) and g[0] == '<' and B(g[1]) and g[2] == ('c', 0) for c in l.conds)
            ok = ok_raw or (ok_clamped and neg)
            msg = '%s byte bound is %s' % (name, show(bound)[:160])
            if bad_unclamped:
                msg += ' (negative index normalised without clamping at 0: wraps around again for indices below -len)'
            elif ok_clamped and not neg:
                msg += ' (the + len normalisation is applied to a non-negative index)'
            elif not ok:
                uses_other = any((STOP if isstart else START)(x) for x in walk(bound))
                has_bps = any(bps(x) for x in walk(bound))
                if uses_other:
                    msg += ' (computed from the other bound)'
                if not has_bps:
                    msg += ' (not a multiple of sample_width * channels: breaks sample alignment)'
            rep.ob('%s byte bound = %s sample index (raw, or + len clamped at 0 when negative) * sample_width * channels' % (name, name), ok, W(l.node),
                   'AudioRegion.__getitem__:%s[%s]' % (name, 'negative' if neg else 'non-negative'), msg, sample=dict(bound=name, negative_path=neg, term=show(bound)[:140]))
    rep.floor('AudioRegion.__getitem__ returning paths', nret, 3)
    # index validation precedes everything and raises TypeError
    cci_calls = [e for l in lv for e in l.effects if e[0] == 'call' and is_cci(e[1])]
    rep.ob('sample slicing validates the index (slice, no step, int bounds)', bool(cci_calls) and all(e[4] == 0 for e in cci_calls), W(gi), 'AudioRegion.__getitem__:validation')
    for e in cci_calls[:1]:
        types = e[1][2][1] if len(e[1][2]) > 1 else None
        rep.ob('sample slicing accepts int bounds only', types == ('b', 'int'), W(e[3]), 'AudioRegion.__getitem__:types', 'types %s' % (show(types) if types else None))
    # ---------------------------------------------------------------- _check_convert_index
    cn = None
    for e in cci_calls[:1]:
        cn = e[1][1][2]
    if cn is None:
        rep.unknown('index validation helper not found')
    else:
        cl = cx.leaves('core', cn)
        cfn = cx.fn('core', cn)
        raising = [l for l in cl if l.outcome == 'raise']
        for l in raising:
            rep.ob('index validation raises TypeError', exc_name(l) == 'TypeError', W(l.node), '%s:exception' % cn, 'raises %s' % exc_name(l))
        kinds = dict(notslice=False, step=False, start=False, stop=False)
        for l in raising:
            ct, tr, _ = l.conds[-1]
            if ct[0] == 'call' and ct[1] == ('b', 'isinstance') and ct[2][0] == ('p', 'index') and ct[2][1] == ('b', 'slice') and not tr:
                kinds['notslice'] = True
            g = norm_cmp(ct, tr)
            if g and g[0] == 'is not' and g[1] == ('attr', ('p', 'index'), 'step') and g[2] == ('c', None):
                kinds['step'] = True
            if ct[0] == 'call' and ct[1] == ('b', 'isinstance') and not tr and ct[2][1] == ('p', 'types'):
                tgt = ct[2][0]
                if any(x == ('attr', ('p', 'index'), 'start') for x in walk(tgt)):
                    kinds['start'] = True
                if any(x == ('attr', ('p', 'index'), 'stop') for x in walk(tgt)):
                    kinds['stop'] = True
        aggregated = any(any(x[0] == 'call' and x[1][0] == 'b' and x[1][1] in ('any', 'all') for x in walk(l.conds[-1][0])) for l in raising if l.conds)
        for k, lab in (('notslice', 'a non-slice index'), ('step', 'a slice with a step'), ('start', 'a start bound of the wrong type'), ('stop', 'a stop bound of the wrong type')):
            if not kinds[k] and k in ('start', 'stop') and aggregated:
                rep.unknown('%s: the type test of the bounds is aggregated with any()/all(): not analysed per bound' % cn)
                continue
            rep.ob('index validation rejects %s' % lab, kinds[k], W(cfn), '%s:missing-%s-check' % (cn, k))
        for l in cl:
            if l.outcome != 'return':
                continue
            v = l.value
            ok = v[0] == 'tuple' and len(v[1]) == 2 and v[1][1] == ('attr', ('p', 'index'), 'stop') and \
                (v[1][0] == ('ite', ('cmp', 'is', ('attr', ('p', 'index'), 'start'), ('c', None)), ('c', 0), ('attr', ('p', 'index'), 'start')) or v[1][0] == ('attr', ('p', 'index'), 'start'))
            rep.ob('index validation returns (start or 0, stop) unchanged', ok, W(l.node), '%s:result' % cn, 'returns %s' % show(v)[:120])
            # accepted only after the checks passed
            passed = any(c[0][0] == 'call' and c[0][1] == ('b', 'isinstance') and c[0][2][1] == ('b', 'slice') and c[1] for c in l.conds) and \
                any((g := norm_cmp(c[0], c[1])) and g[0] == 'is' and g[1] == ('attr', ('p', 'index'), 'step') for c in l.conds)
            rep.ob('an index is accepted only if it is a slice without a step', passed, W(l.node), '%s:accept-path' % cn)
    # ---------------------------------------------------------------- len
    ll = cx.leaves('core', 'AudioRegion.__len__')
    for l in ll:
        if l.outcome == 'return':
            rep.ob('len(region) = len(data) // (sample_width * channels)', P.binop('//', datalen, bps)(l.value), W(l.node), 'AudioRegion.__len__', 'returns %s' % show(l.value)[:100], sample=dict(len=show(l.value)[:80]))
    # ---------------------------------------------------------------- seconds view
    sv = cx.leaves('core', '_SecondsView.__getitem__')
    region = P.attr(SELF, '_region')
    rate = P.role('sampling_rate', region) | P.role('sampling_rate')
    for l in sv:
        if l.outcome != 'return':
            continue
        v = l.value
        ok = v[0] == 'sub' and region(v[1]) and v[2][0] == 'slice' and v[2][3] is None
        rep.ob('the seconds view delegates to sample slicing of the region', ok, W(l.node), '_SecondsView.__getitem__:delegation', 'returns %s' % show(v)[:120])
        if not ok:
            continue
        lo, hi = v[2][1], v[2][2]
        S0 = P.Pat(lambda t: t[0] == 'sub' and t[1][0] == 'call' and t[2] == ('c', 0), 'start_s')
        S1 = P.Pat(lambda t: t[0] == 'sub' and t[1][0] == 'call' and t[2] == ('c', 1), 'stop_s')
        rep.ob('seconds view: start sample = int(start * rate) (truncated toward zero)', lo is not None and P.call('int', P.prod(S0, rate))(lo), W(l.node), '_SecondsView.__getitem__:start', 'start sample is %s' % (show(lo)[:120] if lo else None),
               sample=dict(view='seconds', start=show(lo)[:100] if lo else None))
        want_hi = P.call('round', P.prod(S1, rate))
        none_path = any((g := norm_cmp(c[0], c[1])) and g[0] == 'is' and S1(g[1]) and g[2] == ('c', None) for c in l.conds)
        some_path = any((g := norm_cmp(c[0], c[1])) and g[0] == 'is not' and S1(g[1]) and g[2] == ('c', None) for c in l.conds)
        if none_path:
            okh = hi is None or hi == ('c', None)
        elif some_path:
            okh = hi is not None and want_hi(hi)
        else:
            okh = hi is not None and hi[0] == 'ite' and norm_cmp(hi[1], True) and norm_cmp(hi[1], True)[0] in ('is', 'is not') and S1(norm_cmp(hi[1], True)[1])
            if okh:
                g = norm_cmp(hi[1], True)
                none_branch, val_branch = (hi[2], hi[3]) if g[0] == 'is' else (hi[3], hi[2])
                okh = none_branch == ('c', None) and want_hi(val_branch)
        rep.ob('seconds view: stop sample = round(stop * rate), None when omitted', bool(okh), W(l.node), '_SecondsView.__getitem__:stop', 'stop sample is %s' % (show(hi)[:160] if hi else None),
               sample=dict(view='seconds', stop=show(hi)[:120] if hi else None))
        cc = [x for x in walk(v) if x[0] == 'call' and x[1][0] == 'g' and x[1][2] == (cn or '')]
        for c in cc[:1]:
            t = c[2][1] if len(c[2]) > 1 else None
            names = sorted(x[1] for x in (t[1] if t and t[0] in ('tuple', 'list') else [t] if t else []) if x and x[0] == 'b')
            rep.ob('seconds view accepts int and float bounds', names == ['float', 'int'], W(l.node), '_SecondsView.__getitem__:types', 'types %s' % names)
    # ---------------------------------------------------------------- millis view
    mv = cx.leaves('core', '_MillisView.__getitem__')
    for l in mv:
        if l.outcome != 'return':
            continue
        v = l.value
        ok = v[0] == 'call' and v[1][0] == 'attr' and v[1][2] == '__getitem__' and v[1][1] == ('call', ('b', 'super'), (), ()) and len(v[2]) == 1 and v[2][0][0] == 'call' and v[2][0][1] == ('b', 'slice')
        rep.ob('the milliseconds view delegates to the seconds view', ok, W(l.node), '_MillisView.__getitem__:delegation', 'returns %s' % show(v)[:120])
        if not ok:
            continue
        a = v[2][0][2]
        M0 = P.Pat(lambda t: t[0] == 'sub' and t[1][0] == 'call' and t[2] == ('c', 0), 'start_ms')
        M1 = P.Pat(lambda t: t[0] == 'sub' and t[1][0] == 'call' and t[2] == ('c', 1), 'stop_ms')
        ok0 = len(a) == 2 and P.binop('/', M0, P.const(1000))(a[0])
        rep.ob('milliseconds view: start = t / 1000 seconds', ok0, W(l.node), '_MillisView.__getitem__:start', 'start is %s' % (show(a[0])[:100] if a else None), sample=dict(view='millis', start=show(a[0])[:80] if a else None))
        hi = a[1] if len(a) == 2 else None
        okh = hi is not None and hi[0] == 'ite' and hi[2 if norm_cmp(hi[1], True)[0] == 'is' else 3] == ('c', None) and P.binop('/', M1, P.const(1000))(hi[3 if norm_cmp(hi[1], True)[0] == 'is' else 2])
        rep.ob('milliseconds view: stop = t / 1000 seconds, None when omitted', bool(okh), W(l.node), '_MillisView.__getitem__:stop', 'stop is %s' % (show(hi)[:120] if hi else None))
        cc = [x for x in walk(v) if x[0] == 'call' and x[1][0] == 'g' and x[1][2] == (cn or '')]
        for c in cc[:1]:
            t = c[2][1] if len(c[2]) > 1 else None
            rep.ob('milliseconds view accepts int bounds only', t == ('b', 'int'), W(l.node), '_MillisView.__getitem__:types', 'types %s' % (show(t) if t else None))
    check_roles(cx, rep, lambda p: p['func'] in ('AudioRegion.__getitem__', '_SecondsView.__getitem__', 'AudioRegion.__post_init__'), floor=4)
    # duration (shared with C05)
    from . import c05
    rep.explanation = ('Slicing formulas decided from provenance terms on every path of AudioRegion.__getitem__: the result is AudioRegion(self.data[onset:offset], same parameters); each byte bound is a sample '
                       'index times sample_width*channels where the index is the raw bound (bytes slicing clamps and len(data) is a whole number of samples) or, on the negative path only, max(bound + len, 0) -- '
                       'an unclamped bound + len, a bound computed from the other index, or a bound that is not a multiple of the sample size is a violation; offset None only when stop is None; index validation '
                       'first, TypeError for non-slice / step / wrong-typed bound; len = len(data)//(width*channels); seconds view: int(start*rate), round(stop*rate), int|float bounds, delegates to sample '
                       'slicing; milliseconds view: bounds/1000 then the seconds view, int bounds. NOT decided: the float claim "within one sample period".')
    rep.assumptions = ['len(self.data) is a whole number of samples (enforced by check_audio_data in __post_init__, C11/C17)', 'bytes slicing has Python slice semantics']
