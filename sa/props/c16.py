"""C16 -- region slicing follows Python slice semantics on whole samples (DESIGN 4.16)

Decided path-wise and semantically (sa/semantic.py): on every path of the slicing functions, with the repository's helpers
inlined, the byte bounds / sample bounds / seconds bounds are evaluated as formulas on a grid of small inputs and compared with
what Python slice semantics on whole samples gives.  No rule depends on how the formula is written.
"""
import ast

from ..facts import Ctx, norm_cmp, exc_name, ctor_fields, self_field_exprs
from ..symex import show, walk, term_name
from .. import pat as P
from ..semantic import deep_leaves, evaluator, holds, value, Undecided, DecidedRaise
from .c05 import check_roles

LEVEL = 'other'
SELF = P.Pat(lambda t: t == ('self',), 'self')

INTS0 = INTS = (None, -7, -5, -4, -1, 0, 1, 2, 4, 5, 7)
SECS0 = SECS = (None, 0, 0.25, 0.5, 1, 1.26, 1.999, 2.5, -0.5, -1.3, 3, -0.03125, -0.00001)


def eff(lo, hi, n):
    """the (first, last+1) positions a Python slice [lo:hi] selects in a sequence of length n; empty selections are all equal"""
    a, b, _ = slice(lo, hi).indices(n)
    return (a, b) if b > a else None


def region_field(cx, clsname):
    """the field of a view class that holds the region handed to its constructor"""
    defs = cx.field_defs('core', clsname)
    c = cx.cls('core', clsname)
    init = cx.model.find_method('core', c, '__init__')
    if init is None:
        return None
    params = [a.arg for a in init[2].args.args][1:]
    for f, ds in defs.items():
        if params and any(d['method'] == '__init__' and d['value'] == ('p', params[0]) for d in ds):
            return f
    return None


def check(repo, rep):
    global INTS, SECS
    cx = Ctx(repo)
    rep.cx = cx
    big = rep.tier == 'thorough'        # the thorough tier evaluates the same obligations on a much larger grid
    INTS = ((None,) + tuple(range(-14, 15))) if big else INTS0
    SECS = ((None,) + tuple(x / 8 for x in range(-24, 33)) + (1.26, 1.999, -1.3, 0.333, 2.0005, -0.03125, -0.00001)) if big else SECS0
    NS = (0, 1, 2, 3, 5, 6, 9, 12) if big else (0, 1, 3, 6)
    WIDTHS = (1, 2, 4) if big else (1, 2)
    CHANS = (1, 2, 3) if big else (1, 2)
    W = lambda n: cx.where('core', n)
    rc = cx.cls('core', 'AudioRegion')
    gi = cx.fn('core', 'AudioRegion.__getitem__')
    DATA = ('attr', ('self',), 'data')
    LEN = ('call', ('b', 'len'), (DATA,), ())
    LENSELF = ('call', ('b', 'len'), (('self',),), ())
    # ================================================================ AudioRegion.__getitem__
    try:
        lv = deep_leaves(cx, 'core', rc, gi)
    except Undecided as exc:
        rep.unknown('AudioRegion.__getitem__: %s' % exc)
        lv = []
    nret = 0
    shapes = {}
    for l in lv:
        if l.outcome != 'return':
            continue
        nret += 1
        v = l.value
        okc = v is not None and v[0] == 'call' and v[1] == ('g', 'core', 'AudioRegion') and len(v[2]) + len(v[3]) >= 1
        rep.ob('slicing returns a new AudioRegion', okc, W(l.node), 'AudioRegion.__getitem__:result', 'returns %s' % (show(v)[:80] if v else None))
        if not okc:
            continue
        flds = ctor_fields(cx, v)
        d = flds.get('data')
        oks = d is not None and d[0] == 'sub' and d[1] == DATA and d[2][0] == 'slice' and d[2][3] is None
        rep.ob('the slice is taken from the region\'s own bytes', oks, W(l.node), 'AudioRegion.__getitem__:source', 'data is %s' % (show(d)[:100] if d else None))
        if oks:
            shapes[id(l)] = (d[2][1], d[2][2])
    rep.floor('AudioRegion.__getitem__ returning paths', nret, 1)
    # ---- the byte range selected = Python slice semantics on whole samples, for every kind of bound
    npoints = 0
    bad = None
    undecided = None
    for sw_ in WIDTHS:
        for ch_ in CHANS:
            bps_ = sw_ * ch_
            for n_ in NS:
                for a_ in INTS + (10 ** 400, -10 ** 400):
                    for b_ in INTS + (10 ** 400, -10 ** 400):
                        assign = {('p', 'index'): slice(a_, b_), LEN: n_ * bps_, LENSELF: n_, ('attr', ('self',), 'sample_width'): sw_, ('attr', ('self',), 'channels'): ch_,
                                  ('attr', ('self',), '_sample_size_all_channels'): bps_}
                        try:
                            try:
                                hit = [l for l in lv if holds(l, evaluator(assign))]
                            except DecidedRaise as exc:
                                bad = bad or (lv[0], 'region[%s:%s] (a valid slice of ints): %s' % (str(a_)[:12], str(b_)[:12], exc), None)
                                continue
                            if len(hit) != 1:
                                undecided = '%d paths apply to region[%s:%s]' % (len(hit), a_, b_)
                                break
                            l = hit[0]
                            if l.outcome == 'raise':
                                bad = bad or (l, 'region[%s:%s] (a valid slice of ints) raises %s' % (a_, b_, exc_name(l)), None)
                                continue
                            if id(l) not in shapes:
                                continue
                            lo, hi = shapes[id(l)]
                            ev = evaluator(assign)
                            lov = value(lo, ev) if lo is not None else None
                            hiv = value(hi, ev) if hi is not None else None
                            if not all(x is None or (isinstance(x, int) and not isinstance(x, bool)) for x in (lov, hiv)):
                                bad = bad or (l, 'region[%s:%s]: byte bounds [%r:%r] are not integers' % (a_, b_, lov, hiv), (lo, hi))
                                continue
                            got = eff(lov, hiv, n_ * bps_)
                            e_ = eff(a_, b_, n_)
                            want = (e_[0] * bps_, e_[1] * bps_) if e_ else None
                            npoints += 1
                            if got != want:
                                bad = bad or (l, 'region[%s:%s] with %d samples of %d byte(s) x %d channel(s): bytes [%r:%r] are taken, i.e. %s; Python slice semantics on samples gives %s'
                                              % (a_, b_, n_, sw_, ch_, lov, hiv, got, want), (lo, hi))
                        except Undecided as exc:
                            undecided = str(exc)
                            break
                    if undecided:
                        break
                if undecided:
                    break
            if undecided:
                break
        if undecided:
            break
    if undecided:
        rep.unknown('AudioRegion.__getitem__: %s' % undecided)
    elif lv:
        msg = None
        if bad:
            msg = bad[1]
            if bad[2]:
                msg += ' [onset term %s ; offset term %s]' % (show(bad[2][0])[:100] if bad[2][0] else None, show(bad[2][1])[:120] if bad[2][1] else None)
        rep.ob('region[a:b] selects exactly the bytes of samples a..b under Python slice semantics (negative, omitted and out-of-range bounds included)', bad is None,
               W(bad[0].node) if bad else W(gi), 'AudioRegion.__getitem__:byte-range', msg, sample=dict(rule='byte range', grid_points=npoints))
        rep.floor('grid points of the sample-slicing rule', npoints, 1000)
    # ---- invalid indices raise TypeError
    for label, idx in (('a non-slice index', 3), ('a slice with a step', slice(0, 2, 1)), ('a float start bound', slice(0.5, 2)), ('a float stop bound', slice(0, 2.5)), ('a string bound', slice('a', None)),
                       ('a float start bound equal to zero', slice(0.0, 2)), ('a float stop bound equal to zero', slice(1, 0.0)), ('an empty-string start bound', slice('', 2)), ('a tuple stop bound', slice(0, ()))):
        assign = {('p', 'index'): idx, LEN: 8, LENSELF: 4, ('attr', ('self',), 'sample_width'): 2, ('attr', ('self',), 'channels'): 1}
        try:
            hit = [l for l in lv if holds(l, evaluator(assign))]
        except Undecided as exc:
            rep.unknown('AudioRegion.__getitem__ with %s: %s' % (label, exc))
            continue
        if len(hit) != 1:
            rep.unknown('AudioRegion.__getitem__ with %s: %d paths apply' % (label, len(hit)))
            continue
        l = hit[0]
        rep.ob('sample slicing rejects %s with TypeError' % label, l.outcome == 'raise' and exc_name(l) == 'TypeError', W(l.node) if l.node is not None else W(gi), 'AudioRegion.__getitem__:reject[%s]' % label,
               'outcome %s %s' % (l.outcome, exc_name(l) if l.outcome == 'raise' else ''), sample=dict(index=repr(idx), outcome='TypeError'))
    # ================================================================ len
    fields = self_field_exprs(cx, 'core', 'AudioRegion')
    lm = cx.model.find_method('core', rc, '__len__')
    # (sample count, rate) pairs where the float round trip  (n / rate) / (1 / rate)  lands off n: a length computed from the
    # duration instead of the bytes goes wrong exactly there
    edge = []
    for rate_e in (8000, 44100, 48000, 22050, 11025, 16000):
        for n_e in range(1, 6000):
            q_e = (n_e / rate_e) / (1 / rate_e)
            if q_e != n_e and len([1 for e_ in edge if e_[1] == rate_e and (e_[2] > e_[0]) == (q_e > n_e)]) < 2:
                edge.append((n_e, rate_e, q_e))
    if lm is None:
        rep.unknown('AudioRegion.__len__ not found')
    else:
        okl, why, npts, bad_l = True, None, 0, None
        try:
            lv_len = deep_leaves(cx, lm[0], rc, lm[2])
            pts = [(n_, rate_) for rate_ in (8, 100, 8000, 44100) for n_ in list(range(0, 40)) + [999, 1000, 1001, 1002, 4409, 4411]] + [(e_[0], e_[1]) for e_ in edge]
            for n_, rate_ in pts:
                for sw_ in (1, 2, 4):
                    for ch_ in (1, 2, 3):
                        a_ = {LEN: n_ * sw_ * ch_, ('attr', ('self',), 'sample_width'): sw_, ('attr', ('self',), 'channels'): ch_, ('attr', ('self',), '_sample_size_all_channels'): sw_ * ch_,
                              ('attr', ('self',), 'sampling_rate'): rate_}
                        hit = [l for l in lv_len if holds(l, evaluator(a_, fields=fields))]
                        if len(hit) != 1:
                            raise Undecided('%d paths apply to a region of %d samples' % (len(hit), n_))
                        l = hit[0]
                        if l.outcome == 'raise':
                            got = 'an exception (%s)' % exc_name(l)
                        else:
                            try:
                                got = value(l.value, evaluator(a_), fields)
                            except DecidedRaise as exc:
                                got = 'an exception (%s)' % exc
                        npts += 1
                        if okl and (got != n_ or isinstance(got, float)):
                            okl, why, bad_l = False, 'for %d bytes, width %d, %d channel(s), %d Hz it gives %r, not %d' % (n_ * sw_ * ch_, sw_, ch_, rate_, got, n_), l
            rep.ob('len(region) = len(data) // (sample_width * channels)', okl, W(bad_l.node) if bad_l is not None and bad_l.node is not None else W(lm[2]), 'AudioRegion.__len__',
                   'returns %s: %s' % (show(bad_l.value)[:100] if bad_l is not None and bad_l.value else None, why), sample=dict(len='__len__ evaluated through its paths', grid_points=npts))
        except Undecided as exc:
            rep.unknown('AudioRegion.__len__: %s' % exc)
    # ================================================================ seconds view
    vc = cx.cls('core', '_SecondsView')
    vf = cx.model.find_method('core', vc, '__getitem__')
    rf = region_field(cx, '_SecondsView')
    if rf is not None:
        # a view belongs to ONE region for its whole life: the field holding the region is assigned when the view is built and never
        # again (a view object shared between regions and re-pointed on access answers for whichever region was looked at last)
        for vcls_ in ('_SecondsView', '_MillisView'):
            for d_ in cx.field_defs('core', vcls_).get(rf, []):
                rep.ob('a time view is bound to its region once, at construction (it is not re-pointed later)', d_['method'] == '__init__', W(d_['node']), '%s.%s:region-rebound' % (vcls_, d_['method']),
                       'self.%s is assigned in %s' % (rf, d_['method']), sample=dict(view=vcls_, field=rf, assigned_in=d_['method']))
    sv = []
    if rf is None:
        # a view that keeps only a weak reference to its region stops working once the region is collected
        # (region[:].sec[a:b] holds no other reference): reported; anything else is not recognised
        weak = None
        vinit = cx.model.find_method('core', vc, '__init__')
        vparams = [a.arg for a in vinit[2].args.args][1:] if vinit else []
        for f_, ds_ in cx.field_defs('core', '_SecondsView').items():
            for d_ in ds_:
                v_ = d_['value']
                if d_['method'] == '__init__' and v_[0] == 'call' and term_name(v_[1]) in ('weakref.proxy', 'weakref.ref', 'weakref.WeakMethod') and vparams and v_[2][:1] == (('p', vparams[0]),):
                    weak = (f_, d_)
        if weak is not None:
            rep.ob('a time view keeps its region alive (it holds the region itself, not a weak reference)', False, W(weak[1]['node']), '_SecondsView.__init__:weak-region',
                   'self.%s = %s' % (weak[0], show(weak[1]['value'])[:60]))
        else:
            rep.unknown('_SecondsView: the field holding the region was not identified')
    else:
        REG = ('attr', ('self',), rf)
        try:
            sv = deep_leaves(cx, vf[0], vc, vf[2])
        except Undecided as exc:
            rep.unknown('_SecondsView.__getitem__: %s' % exc)
        shapes = {}
        for l in sv:
            if l.outcome != 'return':
                continue
            v = l.value
            ok = v is not None and v[0] == 'sub' and v[1] == REG and v[2][0] == 'slice' and v[2][3] is None
            rep.ob('the seconds view delegates to sample slicing of the region', ok, W(l.node), '_SecondsView.__getitem__:delegation', 'returns %s' % (show(v)[:120] if v else None))
            if ok:
                shapes[id(l)] = (v[2][1], v[2][2])
        bad = undecided = None
        npoints = 0
        LEN = ('call', ('b', 'len'), (REG,), ())
        # bounds that are computed from the length of the region (absolute positions) are compared as the samples they select
        for lens_ in ((None,), (0, 1, 5, 7, 50000)):
          if lens_ != (None,) and not (undecided and 'len(' in undecided):
              break
          bad = undecided = None
          npoints = 0
          for rate_ in (8, 10, 16000, 44100):
           for n_ in lens_:
            for a_ in SECS:
                for b_ in SECS:
                    assign = {('p', 'index'): slice(a_, b_), ('attr', REG, 'sampling_rate'): rate_}
                    if n_ is not None:
                        assign[LEN] = n_
                    try:
                        hit = [l for l in sv if holds(l, evaluator(assign, mode='frac'))]
                        if len(hit) != 1:
                            undecided = '%d paths apply to region.sec[%s:%s]' % (len(hit), a_, b_)
                            break
                        l = hit[0]
                        if l.outcome == 'raise':
                            bad = bad or (l, 'region.sec[%s:%s] (valid bounds) raises %s' % (a_, b_, exc_name(l)))
                            continue
                        if id(l) not in shapes:
                            continue
                        lo, hi = shapes[id(l)]
                        ev = evaluator(assign, mode='frac')
                        lov = value(lo, ev) if lo is not None else None
                        hiv = value(hi, ev) if hi is not None else None
                        want_lo = int((a_ or 0) * rate_)
                        want_hi = None if b_ is None else round(b_ * rate_)
                        npoints += 1
                        if n_ is not None:
                            if isinstance(lov, float) or isinstance(hiv, float) or eff(lov, hiv, n_) != eff(want_lo, want_hi, n_):
                                bad = bad or (l, 'region.sec[%s:%s] at %d Hz on a region of %d samples selects samples [%r:%r]; int(start * rate) = %d and %s select others' % (
                                    a_, b_, rate_, n_, lov, hiv, want_lo, 'None (omitted)' if want_hi is None else 'round(stop * rate) = %d' % want_hi))
                            continue
                        if (lov or 0) != want_lo or isinstance(lov, float):
                            bad = bad or (l, 'region.sec[%s:%s] at %d Hz starts at sample %r (term %s); the start is int(start * rate) = %d' % (a_, b_, rate_, lov, show(lo)[:80] if lo else None, want_lo))
                        if hiv != want_hi or isinstance(hiv, float):
                            bad = bad or (l, 'region.sec[%s:%s] at %d Hz stops at sample %r (term %s); the stop is %s' % (a_, b_, rate_, hiv, show(hi)[:80] if hi else None, 'None (omitted)' if want_hi is None else 'round(stop * rate) = %d' % want_hi))
                    except Undecided as exc:
                        undecided = str(exc)
                        break
                if undecided:
                    break
            if undecided:
                break
           if undecided:
               break
        if undecided:
            rep.unknown('_SecondsView.__getitem__: %s' % undecided)
        elif sv:
            rep.ob('seconds view: start sample = int(start * rate) (0 when omitted), stop sample = round(stop * rate) (None when omitted)', bad is None, W(bad[0].node) if bad else W(vf[2]),
                   '_SecondsView.__getitem__:bounds', bad[1] if bad else None, sample=dict(view='seconds', grid_points=npoints))
            rep.floor('grid points of the seconds-view rule', npoints, 300)
        for label2, idx, want_raise in (('a non-slice index', 1.5, True), ('a slice with a step', slice(0, 1, 1), True), ('a string bound', slice('a', None), True), ('an empty-string start bound', slice('', 1), True),
                                              ('an empty-tuple stop bound', slice(0, ()), True), ('int bounds', slice(1, 2), False), ('float bounds', slice(0.5, 1.5), False), ('a float zero start', slice(0.0, 1.5), False)):
            try:
                hit = [l for l in sv if holds(l, evaluator({('p', 'index'): idx, ('attr', REG, 'sampling_rate'): 10}, mode='frac'))]
            except Undecided as exc:
                rep.unknown('_SecondsView.__getitem__ with %s: %s' % (label2, exc))
                continue
            if len(hit) != 1:
                rep.unknown('_SecondsView.__getitem__ with %s: %d paths apply' % (label2, len(hit)))
                continue
            l = hit[0]
            if want_raise:
                rep.ob('the seconds view rejects %s with TypeError' % label2, l.outcome == 'raise' and exc_name(l) == 'TypeError', W(l.node) if l.node is not None else W(vf[2]), '_SecondsView.__getitem__:reject[%s]' % label2)
            else:
                rep.ob('the seconds view accepts %s' % label2, l.outcome == 'return', W(l.node) if l.node is not None else W(vf[2]), '_SecondsView.__getitem__:accept[%s]' % label2, 'outcome %s' % l.outcome)
    # ================================================================ millis view
    mc = cx.cls('core', '_MillisView')
    mf = cx.model.find_method('core', mc, '__getitem__')
    try:
        mv = deep_leaves(cx, mf[0], mc, mf[2])
    except Undecided as exc:
        rep.unknown('_MillisView.__getitem__: %s' % exc)
        mv = []
    shapes = {}
    for l in mv:
        if l.outcome != 'return':
            continue
        v = l.value
        ok = v is not None and v[0] == 'call' and v[1][0] == 'attr' and v[1][2] == '__getitem__' and v[1][1][0] == 'call' and v[1][1][1] == ('b', 'super') and len(v[2]) == 1 and not v[3]
        direct = v is not None and rf is not None and v[0] == 'sub' and v[1] == ('attr', ('self',), rf) and v[2][0] == 'slice' and v[2][3] is None
        if direct:
            shapes[id(l)] = ('direct', v[2][1], v[2][2])       # slices the region in samples itself: must equal the composition
            continue
        if not ok:
            rep.unknown('_MillisView.__getitem__: the result %s is neither a delegation to the seconds view through super() nor a sample slice of the region' % (show(v)[:100] if v else None))
            continue
        rep.ob('the milliseconds view delegates to the seconds view', ok, W(l.node), '_MillisView.__getitem__:delegation', 'returns %s' % (show(v)[:120] if v else None))
        shapes[id(l)] = ('super', v[2][0])
    bad = undecided = None
    npoints = 0
    for rate_ in (10, 8000, 44100, 1234):
        for a_ in INTS + (250, 1500, -999):
            for b_ in INTS + (250, 1500, -999):
                assign = {('p', 'index'): slice(a_, b_)}
                if rf is not None:
                    assign[('attr', ('attr', ('self',), rf), 'sampling_rate')] = rate_
                    # a region whose duration is not a whole number of milliseconds (138 samples at 8 kHz = 17.25 ms; 3 samples): what the
                    # view returns for given bounds must not depend on it (the seconds view clips to the data)
                    assign[('attr', ('attr', ('self',), rf), 'duration')] = (0.01725, 0.000375, 2.0)[(a_ if isinstance(a_, int) else 0) % 3]
                try:
                    hit = [l for l in mv if holds(l, evaluator(assign))]
                    if len(hit) != 1:
                        undecided = '%d paths apply to region.ms[%s:%s]' % (len(hit), a_, b_)
                        break
                    l = hit[0]
                    if l.outcome == 'raise':
                        bad = bad or (l, 'region.ms[%s:%s] (valid int bounds) raises %s' % (a_, b_, exc_name(l)))
                        continue
                    if id(l) not in shapes:
                        continue
                    want = slice((a_ or 0) / 1000, None if b_ is None else b_ / 1000)
                    npoints += 1
                    if shapes[id(l)][0] == 'super':
                        got = value(shapes[id(l)][1], evaluator(assign))
                        same = isinstance(got, slice) and got.step is None and (got.start or 0) == want.start and got.stop == want.stop
                        if not same:
                            bad = bad or (l, 'region.ms[%s:%s] is handed to the seconds view as %r; milliseconds / 1000 gives %r' % (a_, b_, got, want))
                    else:
                        ev = evaluator(assign)
                        lo, hi = shapes[id(l)][1], shapes[id(l)][2]
                        lov = value(lo, ev) if lo is not None else None
                        hiv = value(hi, ev) if hi is not None else None
                        want_lo = int(want.start * rate_)
                        want_hi = None if want.stop is None else round(want.stop * rate_)
                        if (lov or 0) != want_lo or hiv != want_hi or isinstance(lov, float) or isinstance(hiv, float):
                            bad = bad or (l, 'region.ms[%s:%s] at %d Hz selects samples [%r:%r]; the seconds view of [%r:%r] s selects [%r:%r]' % (a_, b_, rate_, lov, hiv, want.start, want.stop, want_lo, want_hi))
                except Undecided as exc:
                    undecided = str(exc)
                    break
            if undecided:
                break
        if undecided:
            break
    if undecided:
        rep.unknown('_MillisView.__getitem__: %s' % undecided)
    elif mv and shapes:
        rep.ob('milliseconds view: bounds are t / 1000 seconds (None when omitted), then the seconds view', bad is None, W(bad[0].node) if bad else W(mf[2]), '_MillisView.__getitem__:bounds', bad[1] if bad else None,
               sample=dict(view='millis', grid_points=npoints))
        rep.floor('grid points of the milliseconds-view rule', npoints, 100)
    for label2, idx, want_raise in (('a float bound', slice(0.5, 2), True), ('a float start bound equal to zero', slice(0.0, 500), True), ('an empty-string start bound', slice('', 500), True), ('a non-slice index', 3, True),
                                          ('a slice with a step', slice(0, 2, 1), True), ('int bounds', slice(1, 2), False)):
        try:
            hit = [l for l in mv if holds(l, evaluator({('p', 'index'): idx}))]
        except Undecided as exc:
            rep.unknown('_MillisView.__getitem__ with %s: %s' % (label2, exc))
            continue
        if len(hit) != 1:
            rep.unknown('_MillisView.__getitem__ with %s: %d paths apply' % (label2, len(hit)))
            continue
        l = hit[0]
        if want_raise:
            rep.ob('the milliseconds view rejects %s with TypeError' % label2, l.outcome == 'raise' and exc_name(l) == 'TypeError', W(l.node) if l.node is not None else W(mf[2]), '_MillisView.__getitem__:reject[%s]' % label2)
        else:
            rep.ob('the milliseconds view accepts %s' % label2, l.outcome == 'return', W(l.node) if l.node is not None else W(mf[2]), '_MillisView.__getitem__:accept[%s]' % label2, 'outcome %s' % l.outcome)
    check_roles(cx, rep, lambda p: p['func'] in ('AudioRegion.__getitem__', '_SecondsView.__getitem__', 'AudioRegion.__post_init__'), floor=2)
    rep.explanation = ('Slicing decided path-wise and semantically: AudioRegion.__getitem__, _SecondsView.__getitem__ and _MillisView.__getitem__ are enumerated path by path with every repository helper '
                       'inlined and every conditional expression turned into a branch; on a grid of small inputs (bounds None / negative / zero / positive / beyond the length, 1-2 byte samples, 1-2 channels, '
                       '0-6 samples; seconds bounds with fractions at 8 Hz .. 44.1 kHz) the path whose condition holds is selected and its bound terms are evaluated as formulas (terms extracted from the '
                       'source, never auditok code): the bytes selected must be exactly those of Python slice semantics on whole samples; seconds: int(start*rate), round(stop*rate), None when omitted; '
                       'milliseconds: t/1000 then the seconds view; non-slice / stepped / wrong-typed indices must reach a path that raises TypeError. The result must be a new AudioRegion over '
                       'self.data[...]; len = len(data)//(width*channels). A term the evaluator cannot evaluate makes the rule INCONCLUSIVE, never a violation. '
                       'NOT decided: the float claim "within one sample period" beyond the grid.')
    rep.assumptions = ['len(self.data) is a whole number of samples (enforced by check_audio_data in __post_init__, C11/C17)', 'bytes slicing has Python slice semantics']
    rep.analysed['functions'] = ['core.AudioRegion.__getitem__', 'core._check_convert_index', 'core._SecondsView.__getitem__', 'core._MillisView.__getitem__', 'core.AudioRegion.__len__']
