"""C09 -- same audio, same result: container and spelling independence (DESIGN 4.9, B.3)"""
import ast

from ..facts import Ctx, norm_cmp, exc_name, opaque_helper_calls
from ..symex import show, walk, term_name, bind_call
from .. import pat as P
from .c05 import check_roles
from ._split import SplitWiring

LEVEL = 'other'

PAIRS = {'analysis_window': 'aw', 'max_read': 'mr', 'audio_format': 'fmt', 'validator': 'val', 'energy_threshold': 'eth', 'use_channel': 'uc',
         'sampling_rate': 'sr', 'sample_width': 'sw', 'channels': 'ch'}
SHORT = {v: k for k, v in PAIRS.items()}


def alias_reads(repo):
    """every d.get('<alias key>' ...) call in the package with its parent get, plus subscript reads d['<short>']"""
    out = []
    for mod, tree in repo.trees.items():
        if mod in ('plotting', 'dataset', '__init__'):
            continue
        for n in ast.walk(tree):
            if isinstance(n, ast.Call) and isinstance(n.func, ast.Attribute) and n.func.attr == 'get' and n.args and isinstance(n.args[0], ast.Constant) and isinstance(n.args[0].value, str):
                k = n.args[0].value
                if k in PAIRS or k in SHORT:
                    out.append((mod, n, k, 'get'))
            elif isinstance(n, ast.Subscript) and isinstance(n.ctx, ast.Load) and isinstance(n.slice, ast.Constant) and n.slice.value in SHORT:
                out.append((mod, n, n.slice.value, 'subscript'))
    return out


def check_guess_format(cx, rep):
    """_guess_audio_format(filename, fmt) evaluated on a grid of names and explicit formats (paths of the function taken through
    their conditions): the explicit format wins, else the extension; either is lower-cased, "wave" means "wav", no extension and
    no format is None.  The readers / writers dispatch on exactly "raw" / "wav" (C09, C13, C18)."""
    import os as _os
    from ..semantic import deep_leaves, evaluator, holds, value, Undecided
    from ..termeval import NotEvaluable
    fn = cx.fn('io', '_guess_audio_format', required=False)
    if fn is None:
        rep.unknown('io._guess_audio_format not found')
        return
    ps = [a.arg for a in fn.args.args]
    if len(ps) != 2:
        rep.unknown('_guess_audio_format: expected (filename, fmt) parameters, found %s' % ps)
        return

    def spec(name, fmt):
        if fmt is None:
            fmt = _os.path.splitext(name)[1][1:]
            if not fmt:
                return None
        fmt = fmt.lower()
        return 'wav' if fmt == 'wave' else fmt
    bad, n = None, 0
    try:
        lv = deep_leaves(cx, getattr(fn, '_home', 'io'), None, fn)
        for name in ('a.wav', 'REC0001.WAV', 'b.Wave', 'c.raw', 'DUMP.RAW', 'noext', 'f.ogg', 'g.tar.Wav', 'dir.d/h'):
            for fmt in (None, 'wav', 'WAV', 'Wave', 'WAVE', 'raw', 'RAW', 'Raw', 'ogg', 'MP3'):
                a = {('p', ps[0]): name, ('p', ps[1]): fmt}
                hit = [l for l in lv if holds(l, evaluator(a))]
                if len(hit) != 1:
                    raise Undecided('%d paths apply to (%r, %r)' % (len(hit), name, fmt))
                l = hit[0]
                if l.outcome == 'raise':
                    got = ('raise',)
                else:
                    ev = evaluator(a)
                    got = value(l.value, ev) if l.value is not None else None
                    if ev.leaves:
                        raise Undecided('result for (%r, %r) depends on %s' % (name, fmt, [show(k)[:40] for k in ev.leaves][:2]))
                n += 1
                if got != spec(name, fmt) and bad is None:
                    bad = (l, '_guess_audio_format(%r, %r) is %r, expected %r' % (name, fmt, got, spec(name, fmt)))
        rep.ob('the audio format is the explicit format if given, else the file extension, lower-cased either way ("wave" = "wav"; neither: None)', bad is None,
               cx.where('io', bad[0].node) if bad and bad[0].node is not None else cx.where('io', fn), '_guess_audio_format:grid', bad[1] if bad else None, sample=dict(function='_guess_audio_format', grid_points=n))
    except (Undecided, NotEvaluable) as exc:
        rep.unknown('_guess_audio_format: not evaluated on the grid (%s)' % exc)


def check(repo, rep):
    cx = Ctx(repo)
    rep.cx = cx
    # ---------------------------------------------------------------- (a) alias idiom: long name wins, at every read of a short key
    reads = alias_reads(repo)
    nalias = 0
    for mod, n, k, kind in reads:
        where = cx.where(mod, n)
        if kind == 'subscript':
            rep.ob('short alias keys are only read through the long-name-wins idiom', False, where, 'alias-read[%s]' % k, 'direct read of short key %r' % k)
            continue
        if k in SHORT:
            par = getattr(n, '_parent', None)
            long_ = SHORT[k]
            ok = isinstance(par, ast.Call) and isinstance(par.func, ast.Attribute) and par.func.attr == 'get' and len(par.args) == 2 and par.args[1] is n \
                and isinstance(par.args[0], ast.Constant) and par.args[0].value == long_ and ast.unparse(par.func.value) == ast.unparse(n.func.value)
            nalias += 1
            rep.ob('alias %r is read only as the fallback of its long name %r on the same dict (long name wins)' % (k, long_), ok, where, 'alias-read[%s]' % k,
                   'short key %r is read as %s' % (k, ast.unparse(par)[:100] if par is not None else '?'), sample=dict(site=where, idiom=ast.unparse(par)[:90] if ok else None))
        else:
            # a long-name read with a fallback: the fallback must be its own alias
            if len(n.args) == 2 and isinstance(n.args[1], ast.Call) and isinstance(n.args[1].func, ast.Attribute) and n.args[1].func.attr == 'get' and n.args[1].args \
                    and isinstance(n.args[1].args[0], ast.Constant):
                k2 = n.args[1].args[0].value
                rep.ob('the fallback of long name %r is its own alias %r' % (k, PAIRS[k]), k2 == PAIRS[k], where, 'alias-pair[%s]' % k, 'fallback key is %r' % k2)
    # helpers of the form h(d, long, short[, default]) = d.get(long, d.get(short[, default])) are the same idiom with the names as
    # arguments: every call with a short alias must pair it with its own long name, in that order
    for mod_, d_ in cx.model.mods.items():
        if mod_ in ('plotting', 'dataset', '__init__'):
            continue
        for hname, hfn in d_['funcs'].items():
            ps = [a.arg for a in hfn.args.args]
            if len(ps) < 3:
                continue
            try:
                hl = [l for l in cx.leaves(mod_, hname) if l.outcome == 'return']
            except Exception:
                continue
            d0, a1, a2 = P.param(ps[0]), P.param(ps[1]), P.param(ps[2])
            inner = P.method(d0, 'get', a2) | (P.method(d0, 'get', a2, P.param(ps[3])) if len(ps) > 3 else P.method(d0, 'get', a2))
            if len(hl) != 1 or hl[0].conds or not P.method(d0, 'get', a1, inner)(hl[0].value):
                continue
            for m2, d2 in cx.model.mods.items():
                for n in ast.walk(d2['tree']):
                    if isinstance(n, ast.Call) and ((isinstance(n.func, ast.Name) and n.func.id == hname) or (isinstance(n.func, ast.Attribute) and n.func.attr == hname)) and len(n.args) >= 3 \
                            and all(isinstance(a, ast.Constant) and isinstance(a.value, str) for a in n.args[1:3]):
                        long_, short_ = n.args[1].value, n.args[2].value
                        if long_ in PAIRS or short_ in SHORT or long_ in SHORT:
                            nalias += 1
                            rep.ob('alias %r is read only as the fallback of its long name %r on the same dict (long name wins)' % (short_, SHORT.get(short_, long_)), PAIRS.get(long_) == short_, cx.where(m2, n),
                                   'alias-read[%s]' % short_, '%s(%s, %r, %r): %r is not the alias of %r' % (hname, ast.unparse(n.args[0])[:30], long_, short_, short_, long_), sample=dict(site=cx.where(m2, n), idiom=ast.unparse(n)[:90]))
    # the loop over (long, short) pairs in _get_audio_parameters is unrolled by the evaluator
    gl = cx.leaves('io', '_get_audio_parameters')
    rets = [l for l in gl if l.outcome == 'return']
    for l in rets:
        v = l.value
        v = cx.sx._nt_as_tuple(v) or v          # a private NamedTuple (rate, width, channels) is that tuple
        ok = v[0] == 'tuple' and len(v[1]) == 3
        if ok:
            for t, long_ in zip(v[1], ('sampling_rate', 'sample_width', 'channels')):
                good = P.first_of(P.param('param_dict'), long_, PAIRS[long_])(t)
                nalias += 1
                if not good and opaque_helper_calls(cx, t):
                    rep.unknown('_get_audio_parameters: component %s is computed by a helper the evaluator could not inline' % show(t)[:80])
                    continue
                rep.ob('audio parameter %s = FirstOf(dict; %s, %s) in the order (rate, width, channels)' % (long_, long_, PAIRS[long_]), good, cx.where('io', l.node), '_get_audio_parameters[%s]' % long_,
                       'component is %s' % show(t)[:120], sample=dict(parameter=long_, term=show(t)[:100]))
        else:
            rep.unknown('_get_audio_parameters: return value %s not a 3-tuple' % show(v)[:80])
    rep.floor('_get_audio_parameters returning paths', len(rets), 1)
    rep.floor('alias read sites (short keys)', nalias, 9)
    # ---------------------------------------------------------------- (b) split() normalises aliases before handing kwargs down
    sw = SplitWiring(cx)
    for d in sw.paths:
        if d['reader_branch'] or d['src'] is None or d['src'][0] != 'call':
            continue
        src = d['src']
        star = dict(src[3]).get('**')
        tag = 'split[other input]'
        if star is None:
            rep.unknown('split(): the reader is not built with **params')
            continue
        # walk the chain of updates  ('upd', base, key, value)
        ups = {}
        cur = star
        while cur[0] == 'upd' or (cur[0] == 'call' and cur[1] == ('b', 'dict') and len(cur[2]) == 1 and all(k_ != '**' for k_, _ in cur[3])):
            if cur[0] == 'call':
                # dict(base, key=value, ...): a copy of base with those entries set
                for k_, v_ in cur[3]:
                    ups.setdefault(k_, v_)
                cur = cur[2][0]
                continue
            if cur[2][0] == 'c':
                ups.setdefault(cur[2][1], cur[3])
            cur = cur[1]
        for long_ in ('max_read', 'audio_format'):
            v = ups.get(long_)
            ok = v is not None and (P.first_of(P.ANY, long_, PAIRS[long_])(v))
            rep.ob('split() hands %s down as FirstOf(kwargs; %s, %s)' % (long_, long_, PAIRS[long_]), ok, d['where'], tag + ':normalise-' + long_, '%s handed down as %s' % (long_, show(v)[:120] if v else None),
                   sample=dict(key=long_, value=show(v)[:100] if v else None))
        # the validator / threshold / channel aliases
        ta = sw.tokenizer_args(d)
        if ta:
            val = ta[0].get('validator')
            if val is not None and val[0] == 'call' and val[1][0] == 'g':
                lk = cx.model.lookup(val[1])
                r = cx.model.find_method(val[1][1], lk[1], '__init__') if lk and lk[0] == 'class' else None
                if r:
                    vb = bind_call(val, r[2], skip_self=True)
                    e = vb.get('energy_threshold')
                    rep.ob('energy threshold = FirstOf(kwargs; energy_threshold, eth; default)', e is not None and P.first_of(P.param('kwargs'), 'energy_threshold', 'eth', P.ANY)(e), d['where'], tag + ':eth',
                           'threshold is %s' % (show(e)[:120] if e else None))
                    u = vb.get('use_channel')
                    rep.ob('use_channel = FirstOf(kwargs; use_channel, uc)', u is not None and P.first_of(P.param('kwargs'), 'use_channel', 'uc')(u), d['where'], tag + ':uc', 'use_channel is %s' % (show(u)[:120] if u else None))
    # custom validator precedence: FirstOf(kwargs; validator, val) decides
    vconds = set()
    for l in sw.leaves:
        for ct, tr, _ in l.conds:
            if ct[0] == 'cmp' and ct[3] == ('c', None) and any(x == ('c', 'validator') or x == ('c', 'val') for x in walk(ct[2])):
                vconds.add(ct[2])
    for v in vconds:
        rep.ob('custom validator = FirstOf(kwargs; validator, val)', P.first_of(P.param('kwargs'), 'validator', 'val')(v), cx.where('core', sw.fn), 'split:validator-alias', 'validator is %s' % show(v)[:120])
    rep.ob('split() looks up a custom validator', bool(vconds), cx.where('core', sw.fn), 'split:no-validator-lookup')
    # ---------------------------------------------------------------- (c) source factory dispatch
    gl = cx.leaves('io', 'get_audio_source')
    want = {'stdin': 'StdinAudioSource', 'bytes': 'BufferAudioSource', 'file': 'from_file', 'mic': 'PyAudioSource'}
    seen = {}
    for l in gl:
        if l.outcome != 'return':
            continue
        v = l.value
        name = term_name(v[1]).split('.')[-1] if v[0] == 'call' else '?'
        cond = [(show(c[0]), c[1]) for c in l.conds]
        kind = None
        if any(c[0] == ('cmp', '==', ('p', 'input'), ('c', '-')) and c[1] for c in l.conds):
            kind = 'stdin'
        elif any(c[0][0] == 'call' and c[0][1] == ('b', 'isinstance') and c[0][2][0] == ('p', 'input') and c[0][2][1] == ('b', 'bytes') and c[1] for c in l.conds):
            kind = 'bytes'
        elif any((g := norm_cmp(c[0], c[1])) and g[0] == 'is not' and g[1] == ('p', 'input') and g[2] == ('c', None) for c in l.conds):
            kind = 'file'
        elif any((g := norm_cmp(c[0], c[1])) and g[0] == 'is' and g[1] == ('p', 'input') and g[2] == ('c', None) for c in l.conds):
            kind = 'mic'
        if kind is None:
            rep.unknown('get_audio_source: path %s not classified' % cond)
            continue
        seen[kind] = name
        rep.ob('get_audio_source dispatch: %s input -> %s' % (kind, want[kind]), name == want[kind], cx.where('io', l.node), 'get_audio_source[%s]' % kind, '%s input builds %s' % (kind, name),
               sample=dict(input_kind=kind, builds=show(v)[:100]))
        if kind == 'bytes':
            rep.ob('raw bytes are handed to the buffer source unchanged', v[2][:1] == (('p', 'input'),), cx.where('io', l.node), 'get_audio_source[bytes]:data', 'first argument is %s' % (show(v[2][0]) if v[2] else None))
        if kind == 'file':
            kws = dict(v[3])
            rep.ob('file inputs are opened by from_file(filename=input, **kwargs)', kws.get('filename', v[2][0] if v[2] else None) == ('p', 'input') and kws.get('**') == ('p', 'kwargs'), cx.where('io', l.node),
                   'get_audio_source[file]:args', 'call is %s' % show(v)[:100])
    for k in want:
        rep.ob('get_audio_source handles %s inputs' % k, k in seen, cx.where('io', cx.fn('io', 'get_audio_source')), 'get_audio_source:missing-%s' % k)
    # from_file: raw / wav x large_file -- decided by taking each (format, large_file) through the path conditions of from_file (the
    # guessed format is whatever _guess_audio_format returns: its call term is given the value)
    from ..semantic import evaluator, Undecided
    from ..termeval import NotEvaluable
    fl = cx.leaves('io', 'from_file')
    GUESS = [e[1] for l in fl for e in l.effects if e[0] == 'call' and e[1][0] == 'call' and e[1][1] == ('g', 'io', '_guess_audio_format')]
    nff = 0
    if not GUESS:
        rep.unknown('from_file: the call that guesses the format was not found')
    else:
        gterm = GUESS[0]
        try:
            for fmt_, lf_, want in (('raw', False, '_load_raw'), ('raw', True, '_load_raw'), ('wav', False, '_load_wave'), ('wav', True, '_load_wave'), 
                                    ('ogg', True, 'error'), (None, True, 'error'), ('mp3', True, 'error')):
                a_ = {gterm: fmt_, ('p', 'large_file'): lf_, ('p', 'audio_format'): fmt_}
                hit = []
                for l in fl:
                    ok_ = True
                    for ct, tr, _ in l.conds:
                        if not any(x == gterm or x == ('p', 'large_file') or x == ('p', 'audio_format') for x in walk(ct)):
                            continue
                        ev_ = evaluator(a_)
                        got = ev_.ev(ct)
                        if ev_.leaves:
                            raise Undecided('condition %s' % show(ct)[:60])
                        if bool(got) != tr:
                            ok_ = False
                            break
                    if ok_:
                        hit.append(l)
                if not hit:
                    raise Undecided('no path applies to format %r, large_file=%s' % (fmt_, lf_))
                for l in hit:
                    nff += 1
                    v = l.value
                    name = term_name(v[1]).split('.')[-1] if l.outcome == 'return' and v is not None and v[0] == 'call' else ('error' if l.outcome == 'raise' else '?')
                    tag_ = 'from_file[%s,%s]' % (fmt_, 'lazy' if lf_ else 'eager')
                    if want == 'error':
                        rep.ob('from_file: large_file with a format that is neither raw nor wav raises an I/O error', l.outcome == 'raise' and exc_name(l) in ('AudioIOError', 'IOError', 'OSError'), cx.where('io', l.node), tag_,
                               'format %r, large_file=True: %s %s' % (fmt_, l.outcome, exc_name(l) if l.outcome == 'raise' else show(v)[:50]))
                        continue
                    rep.ob('from_file: %s format -> %s loader' % (fmt_, 'raw' if want == '_load_raw' else 'wave'), name == want, cx.where('io', l.node), tag_, 'format %r builds %s' % (fmt_, name), sample=dict(format=fmt_, large_file=lf_, loader=name))
                    fn = cx.fn('io', name, required=False)
                    if name == want and fn is not None:
                        b = bind_call(v, fn)
                        rep.ob('from_file passes filename and large_file in role to the %s loader' % ('raw' if want == '_load_raw' else 'wave'), b.get('filename') == ('p', 'filename') and b.get('large_file') == ('p', 'large_file'), cx.where('io', l.node),
                               tag_ + ':args', 'filename=%s large_file=%s' % (show(b.get('filename')) if b.get('filename') else None, show(b.get('large_file')) if b.get('large_file') else None))
        except (Undecided, NotEvaluable) as exc:
            rep.unknown('from_file: dispatch on the format could not be evaluated (%s)' % exc)
    rep.floor('from_file dispatch cases evaluated', nff, 6)
    # the format is guessed from (filename, audio_format)
    guess = GUESS
    rep.ob('from_file guesses the format from (filename, audio_format)', bool(guess) and all(g[2] == (('p', 'filename'), ('p', 'audio_format')) for g in guess), cx.where('io', cx.fn('io', 'from_file')), 'from_file:guess-args',
           'calls: %s' % [show(g)[:80] for g in guess[:2]])
    # loaders: lazy vs eager construct the right class from the same file
    for lname, lazy_cls in (('_load_raw', 'RawAudioSource'), ('_load_wave', 'WaveAudioSource')):
        ll = cx.leaves('io', lname)
        for l in ll:
            if l.outcome != 'return':
                continue
            lf = [c for c in l.conds if c[0] == ('p', 'large_file')]
            if not lf:
                continue
            name = term_name(l.value[1]).split('.')[-1] if l.value[0] == 'call' else '?'
            exp = lazy_cls if lf[0][1] else 'BufferAudioSource'
            rep.ob('%s: large_file=%s -> %s' % (lname, lf[0][1], exp), name == exp, cx.where('io', l.node), '%s[large_file=%s]' % (lname, lf[0][1]), 'builds %s' % name, sample=dict(loader=lname, large_file=lf[0][1], builds=name))
            if name == lazy_cls:
                a0 = l.value[2][0] if l.value[2] else dict(l.value[3]).get('filename')
                rep.ob('%s opens the same file lazily' % lname, a0 == ('p', 'filename'), cx.where('io', l.node), '%s:lazy-filename' % lname)
            else:
                dat = dict(l.value[3]).get('data', l.value[2][0] if l.value[2] else None)
                ok = dat is not None and dat[0] == 'call' and dat[1][0] == 'attr' and dat[1][2] in ('read', 'readframes') and (not dat[2] or dat[2][0] in (('c', -1), ('c', None)))
                rep.ob('%s loads the whole file eagerly' % lname, ok, cx.where('io', l.node), '%s:eager-data' % lname, 'data is %s' % (show(dat)[:80] if dat else None))
    # AudioReader wraps anything that is not an AudioSource through get_audio_source(input, **kwargs)
    il = cx.leaves('util', 'AudioReader.__init__')
    for l in il:
        conv = [c for c in l.conds if c[0][0] == 'call' and c[0][1] == ('b', 'isinstance') and term_name(c[0][2][1]).endswith('AudioSource')]
        if not conv or conv[0][1]:
            continue
        calls = [e[1] for e in l.effects if e[0] == 'call' and e[1][0] == 'call' and e[1][1] == ('g', 'io', 'get_audio_source')]
        ok = bool(calls) and calls[0][2][:1] == (('p', 'input'),) and dict(calls[0][3]).get('**') == ('p', 'kwargs')
        rep.ob('AudioReader converts a non-AudioSource input with get_audio_source(input, **kwargs)', ok, cx.where('util', cx.fn('util', 'AudioReader.__init__')), 'AudioReader.__init__:conversion',
               'calls: %s' % [show(c)[:80] for c in calls])
        break
    # ---------------------------------------------------------------- (d) max_read: exactly the first round(t * rate) samples
    from . import c10
    sub = type(rep)(rep.prop, rep.tier, rep.repo_root, rep.level)
    c10.check(repo, sub)
    for o in sub.obligations:
        if 'limiter' in o['rule'] or 'budget' in o['rule']:
            rep.obligations.append(o)
    for v in sub.violations:
        if 'limiter' in v['rule'] or 'budget' in v['rule'] or '_Limiter' in v['construct']:
            rep.violations.append(v)
    for u in sub.inconclusive:
        if '_Limiter' in u:
            rep.unknown(u)
    # ---------------------------------------------------------------- role agreement on the container paths
    # an empty file / empty input is audio too: a loader that hands the (None at end of stream) result of read() to something that
    # dereferences it crashes for that container only
    check_guess_format(cx, rep)
    from .c10 import check_nullness
    check_nullness(cx, rep, lambda f: cx.in_module(f['mod'], 'io'), rule='a container loader never dereferences a read() result that is None for empty audio')
    check_roles(cx, rep, lambda p: p['func'] in ('split', 'get_audio_source', 'from_file', '_load_raw', '_load_wave', '_load_with_pydub', '_get_audio_parameters', 'AudioRegion.load'), floor=30)
    rep.explanation = ('(a) census of every read of an alias key in the package: a short key (aw, mr, fmt, val, eth, uc, sr, sw, ch) is read only as the fallback of its own long name on the same dict '
                       '(long name wins); _get_audio_parameters (loop unrolled) yields FirstOf(dict; long, short) in the order rate, width, channels; (b) split() hands max_read / audio_format down '
                       'normalised and resolves eth / uc / val the same way; (c) source factory: "-" -> stdin source, bytes -> buffer source (same bytes), path -> from_file(filename, **kwargs), '
                       'raw/wav x large_file -> the lazy class or an eager BufferAudioSource of the whole file, AudioReader converts non-sources through the factory; (d) the limiter rules of C10; '
                       'audio-parameter roles at every hand-over on these paths. Helpers of the form h(d, long, short) are counted as the same alias idiom; no container loader dereferences a read() result that is None for empty audio (nullness engine over io.py). NOT decided: equality of the region lists across containers (a runtime value); it rests on C11\'s sibling agreement.')
    rep.assumptions = ['C11 (all source kinds deliver the same chunks for the same audio)', 'C10 (framing/limiter)']
