"""C02 -- token length bounds and constructor contract (DESIGN 4.2)"""
from ..tokrun import feed
from ._tok_common import TRUSTED, ASSUME, EXPL

LEVEL = 'proof'


def check(repo, rep):
    d = feed(rep, repo, 'C02', 'general')
    rep.explanation = EXPL + (" C02 obligations: len(token) <= max_length at every DELIVER and len(buffer) <= max_length-1 at every loop head; "
                              "a token shorter than min_length only in non-strict mode, with the GHOST adjacency flag set (the code's own "
                              "continuation flag is not trusted) and start == previous end + 1; a token decided without look-ahead has exactly "
                              "max_length frames. Constructor: the set of accepted tuples equals the spec region by mutual entailment "
                              "(modes -2..9 concretely and a symbolic mode), every rejection is a ValueError.")
    rep.trusted_base = TRUSTED
    rep.assumptions = ASSUME
    rep.floor('C02 obligations', len(rep.obligations), 150)


def thorough(repo, rep):
    from ..linear_selfcheck import run
    r = run()
    rep.extra['arithmetic_core_selfcheck'] = r
    if r['unsound']:
        rep.unknown('the Fourier-Motzkin core disagreed with brute force on %d of %d random systems: no verdict of this check can be trusted' % (r['unsound'], r['systems']))
    print('arithmetic core self-check: %s' % r)
