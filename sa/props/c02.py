"""C02 -- token length bounds and constructor contract (DESIGN 4.2)"""
from ..tokrun import feed
from ._tok_common import TRUSTED, ASSUME, EXPL

LEVEL = 'proof'


def check(repo, rep):
    d = feed(rep, repo, 'C02', 'general')
    r0 = next((r for r in d['runs'] if r.get('mode') == 0 and not r.get('c04')), None)
    if r0 is None or 'ctor' not in r0:
        rep.unknown('constructor analysis missing')
    else:
        ct = r0['ctor']
        for o in ct['obligations']:
            rep.obligations.append(dict(rule=o['rule'], ok=o['ok'], where=o['where']))
        for a in ct['alarms']:
            construct = 'StreamTokenizer.__init__[%s]' % ';'.join('%s=%s' % (c[1], c[2]) for c in a['conds'][-3:])
            if a.get('imprecise'):
                rep.unknown('constructor obligation "%s" fails only on an imprecise path (%s)' % (a['rule'], a['imprecise']))
                continue
            rep.violations.append(dict(rule=a['rule'], construct=construct, where=a['where'],
                                       message='%s -- constructor leaf %s' % (a['rule'], a['input']),
                                       detail=dict(branch_conditions=a['conds'], could_not_entail=a['failed'], witness=a['witness'], spec_region=ct['spec'])))
        rep.analysed['constructor_spec_region'] = ct['spec']
        rep.analysed['mode_flag_fields'] = ct.get('flag_fields')
    rep.explanation = EXPL + (" C02 obligations: len(token) <= max_length at every DELIVER and len(buffer) <= max_length-1 at every loop head; "
                              "a token shorter than min_length only in non-strict mode, with the GHOST adjacency flag set (the code's own "
                              "continuation flag is not trusted) and start == previous end + 1; a token decided without look-ahead has exactly "
                              "max_length frames. Constructor: the set of accepted tuples equals the spec region by mutual entailment "
                              "(modes -2..9 concretely and a symbolic mode), every rejection is a ValueError.")
    rep.trusted_base = TRUSTED
    rep.assumptions = ASSUME
    rep.floor('C02 obligations', len(rep.obligations), 150)
