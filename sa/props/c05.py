"""C05 -- split() regions are the input's own bytes at the reported times (DESIGN 4.5)"""
import ast

from ..facts import Ctx, const_value
from ..roles import RoleChecker
from ..symex import show, walk, term_name, bind_call, ROLE_OF
from .. import pat as P
from ._split import SplitWiring, is_attr_of

LEVEL = 'other'


def check_roles(cx, rep, funcs=None, floor=None, rule='audio-parameter role agreement (rate / width / channels never swapped)'):
    rc = RoleChecker(cx.model)
    pairs = rc.run(cx.code_mods())
    n = 0
    for p in pairs:
        if funcs is not None and not funcs(p):
            continue
        n += 1
        rep.ob(rule, p['ok'], p['where'], '%s:%s->%s' % (p['func'], p['kind'], p['receiver']),
               'in %s, %s: %s (role %s) is handed to %s (role %s)' % (p['func'], p['kind'], p['giver'], p['role_g'], p['receiver'], p['role_r']),
               sample=dict(site=p['where'], func=p['func'], kind=p['kind'], giver=p['giver'], receiver=p['receiver'], role=p['role_g']))
    # argument selection: a parameter forwarded to a callee that has a parameter of the same name goes to THAT parameter
    for r in rc.crossed_forwarding(cx.code_mods()):
        p = dict(func=r['func'], where=r['where'], kind='forwarding to %s' % r['callee'], giver=r['given'], receiver=r['param'])
        if funcs is not None and not funcs(p):
            continue
        rep.ob('a parameter forwarded to a callee that also has a parameter of that name is passed under its own name', bool(r.get('ok')), r['where'], '%s:%s<-%s' % (r['func'], r['param'], r['given']),
               'in %s, %s(%s=%s): both names are parameters of caller and callee, but %s is handed to %s' % (r['func'], r['callee'], r['param'], r['given'], r['given'], r['param']))
    if floor is not None:
        rep.floor('role hand-over sites', n, floor)
    return n


def check(repo, rep):
    cx = Ctx(repo)
    rep.cx = cx
    sw = SplitWiring(cx)
    rep.floor('returning paths of split()', len(sw.paths), 4)
    for d in sw.paths:
        w = d['where']
        tag = 'split[%s]' % ('AudioReader input' if d['reader_branch'] else 'other input')
        if d.get('empty'):
            # split() answers "no detections" without tokenizing: right only if the guard implies that no event fits.  Decided by
            # values: inputs on which an event exists (lengths are counted in analysis windows and a trailing partial window counts:
            # a region of 0.25 s holds three 0.1 s windows = min_dur 0.3 s) are taken through the path's conditions
            from ..semantic import evaluator
            from ..termeval import NotEvaluable
            verdict = None
            for dur_, min_, aw_ in ((0.25, 0.3, 0.1), (0.1, 0.2, 0.2)):
                assign = {('p', 'min_dur'): min_, ('p', 'max_dur'): 5.0, ('p', 'max_silence'): 0.0}
                for x in (c[0] for c in d['leaf'].conds):
                    for t in walk(x):
                        if t[0] == 'attr' and t[2] in ('duration', 'dur') and t[1][0] in ('p', 'attr'):
                            assign[t] = dur_
                        if t[0] == 'call' and t[1] == ('b', 'len'):
                            assign[t] = 5
                taken = True
                guarded = False          # a condition relating the length of the input to a duration parameter decided the path
                for ct, tr, _ in d['leaf'].conds:
                    try:
                        ev_ = evaluator(assign, mode='frac')
                        got = ev_.ev(ct)
                    except NotEvaluable:
                        continue
                    if ev_.leaves:
                        continue         # depends on something the point does not fix (another option): compatible with the point
                    if bool(got) != tr:
                        taken = False
                        break
                    if any(t in assign and t[0] != 'p' for t in walk(ct)) and any(t[0] == 'p' and t[1] in ('min_dur', 'max_dur') for t in walk(ct)):
                        guarded = True
                if taken and guarded:
                    verdict = (dur_, min_, aw_)
                    break
            if isinstance(verdict, tuple):
                rep.ob('split() reports no detection only after tokenizing (an early empty answer must imply that no event fits)', False, w, tag + ':early-empty',
                       'an input of %.2f s with min_dur=%.1f and a window of %.1f s holds an event (a trailing partial window counts) and takes the path that returns %s' % (verdict + (show(d['leaf'].value)[:30],)))
            else:
                rep.unknown('split(): a path returns an empty answer without tokenizing (%s); whether its guard implies that no event fits was not decided' % show(d['leaf'].value)[:40])
            continue
        if d['lazy'] is None:
            rep.unknown('split(): return value %s is not a recognised iterable form' % show(d['leaf'].value)[:80])
            continue
        if d['elt'] is None or d['iter'] is None or d['tok'] is None or d['src'] is None:
            rep.unknown('split(): could not relate the returned iterable to tokenizer.tokenize(source, ...) (%s)' % d['kind'])
            continue
        src = d['src']
        fields = sw.region_ctor(d)
        if fields is None:
            rep.unknown('split(): region construction not resolved from %s' % show(d['elt'])[:100])
            continue
        rep.ob('regions are AudioRegion objects', fields.get('_class') == 'AudioRegion', w, tag + ':region-class')
        c0, c1, c2 = sw.comp(d, 0), sw.comp(d, 1), sw.comp(d, 2)
        if c0 is None:
            rep.unknown('split(): token variable %r not understood' % d['tokvar'])
            continue
        # data
        data = fields.get('data')
        join = P.method(P.const(b''), 'join', P.same(c0)) | P.method(P.call('bytes'), 'join', P.same(c0))
        rep.ob('region.data = b"".join(frames of the token) (frames in stream order, nothing else)', data is not None and join(data), w, tag + ':data',
               'region data is %s' % show(data)[:160], sample=dict(path=tag, data=show(data)[:120]))
        # audio parameters come from the source that was tokenized
        for fld, role in (('sampling_rate', 'sampling_rate'), ('sample_width', 'sample_width'), ('channels', 'channels')):
            v = fields.get(fld)
            ok = v is not None and is_attr_of(src, roles=[role])(v)
            rep.ob('region.%s = the tokenized source\'s %s' % (fld, role), ok, w, tag + ':' + fld, 'region %s is %s (source is %s)' % (fld, show(v)[:100], show(src)[:80]),
                   sample=dict(path=tag, field=fld, value=show(v)[:100]))
        # start = start frame index * effective window of the source
        st = fields.get('start')
        bdur = is_attr_of(src, names=['block_dur']) | P.binop('/', is_attr_of(src, names=['block_size']), is_attr_of(src, roles=['sampling_rate']))
        ok = st is not None and P.prod(P.same(c1), bdur)(st)
        detail = 'region start is %s' % show(st)[:200]
        if st is not None and not ok:
            if any(x == c2 for x in walk(st)) and not any(x == c1 for x in walk(st)):
                detail += ' (uses the END index of the token)'
            elif not any(bdur(x) for x in walk(st)):
                detail += ' (does not use the effective window source.block_dur = block_size / rate)'
        rep.ob('region.start = token start index * effective window of the source (block_size / rate)', ok, w, tag + ':start', detail, sample=dict(path=tag, start=show(st)[:160]))
        # the tokenizer reads the same source, as a generator
        tc = d['tokenize_call']
        kws = dict(tc[3])
        gen_true = kws.get('generator') == ('c', True) or (len(tc[2]) >= 3 and tc[2][2] == ('c', True))
        rep.ob('tokenize(..., generator=True) feeds the regions (C08: lazy)', gen_true, w, tag + ':generator-mode', 'tokenize call is %s' % show(tc)[-160:])
        rep.ob('callback mode is not used by split()', 'callback' not in kws or kws['callback'] == ('c', None), w, tag + ':callback')
        rep.ob('regions are produced lazily (generator expression / map, not a list)', d['lazy'] is True, w, tag + ':lazy', 'split() returns a %s' % d['kind'])
        # validator and tokenizer arguments in the right slots
        ta = sw.tokenizer_args(d)
        if ta is None:
            rep.unknown('split(): tokenizer construction not resolved')
            continue
        args, ctor = ta
        val = args.get('validator')
        if val is not None and val[0] == 'call' and val[1][0] == 'g' and val[1][2] == 'AudioEnergyValidator':
            lk = cx.model.lookup(val[1])
            r = cx.model.find_method(val[1][1], lk[1], '__init__')
            vb = bind_call(val, r[2], skip_self=True)
            for pn, role in (('sample_width', 'sample_width'), ('channels', 'channels')):
                v = vb.get(pn)
                rep.ob('energy validator gets the source\'s %s' % role, v is not None and is_attr_of(src, roles=[role])(v), w, tag + ':validator-' + pn,
                       'validator %s is %s' % (pn, show(v)[:100]))
        for pn, dur in (('min_length', 'min_dur'), ('max_length', 'max_dur'), ('max_continuous_silence', 'max_silence')):
            v = args.get(pn)
            ok = v is not None and any(x == ('p', dur) for x in walk(v)) and not any(x[0] == 'p' and x[1] in ('min_dur', 'max_dur', 'max_silence') and x[1] != dur for x in walk(v))
            rep.ob('tokenizer %s is derived from %s (and from no other duration)' % (pn, dur), ok, w, tag + ':tokenizer-' + pn, '%s is %s' % (pn, show(v)[:160]))
        for pn in ('init_min', 'init_max_silence'):
            v = args.get(pn)
            okv = v is None
            if v is not None:
                try:
                    okv = const_value(cx, v) <= (1 if pn == 'init_min' else 10 ** 9)
                except ValueError:
                    okv = False
            rep.ob('split() uses no initial phase (init_min <= 1: the configuration C04 is proved for)', okv, w, tag + ':' + pn, '%s is %s' % (pn, show(v)[:80] if v else None))
        # mode = 4*drop + 2*strict
        mv = args.get('mode')
        def decided(pname):
            cs = [c[1] for c in d['leaf'].conds if c[0] == ('p', pname)]
            return [cs[0]] if cs else [False, True]
        if mv is None:
            rep.unknown('split(): mode argument not resolved')
        else:
            for drop in decided('drop_trailing_silence'):
                for strict in decided('strict_min_dur'):
                    try:
                        got = const_value(cx, mv, env=dict(drop_trailing_silence=drop, strict_min_dur=strict))
                        rep.ob('tokenizer mode = 4*drop_trailing_silence + 2*strict_min_dur', got == 4 * drop + 2 * strict, w, tag + ':mode[drop=%s,strict=%s]' % (drop, strict),
                               'mode evaluates to %r for drop=%s strict=%s' % (got, drop, strict))
                    except ValueError as exc:
                        rep.unknown('split(): mode term not constant-evaluable (%s)' % exc)

    # ---------------------------------------------------------------- a region input keeps its own parameters whatever the caller passes
    nreg = 0
    for l in cx.leaves('core', 'split'):
        if l.outcome != 'return':
            continue
        isreg = any(c[0][0] == 'call' and c[0][1] == ('b', 'isinstance') and len(c[0][2]) == 2 and c[0][2][0] == ('p', 'input') and term_name(c[0][2][1]).endswith('AudioRegion') and c[1] for c in l.conds)
        if not isreg:
            continue
        rd = [e for e in l.effects if e[0] == 'call' and e[1][0] == 'call' and e[1][1][0] == 'g' and e[1][1][2] == 'AudioReader']
        if not rd:
            rep.unknown('split(): no AudioReader is built on the AudioRegion-input path')
            continue
        nreg += 1
        kws = dict(rd[-1][1][3])
        items = {}
        cur = kws.get('**')
        while cur is not None and cur[0] == 'upd':
            if cur[2][0] == 'c' and cur[2][1] not in items:
                items[cur[2][1]] = cur[3]
            cur = cur[1]
        if cur is not None and cur[0] == 'dict':
            for kk, vv in cur[1]:
                if kk[0] == 'c' and kk[1] not in items:
                    items[kk[1]] = vv
        for k_, v_ in kws.items():
            if k_ != '**':
                items[k_] = v_
        for long_, role in (('sampling_rate', 'sampling_rate'), ('sample_width', 'sample_width'), ('channels', 'channels')):
            v = items.get(long_)
            shorts = [k_ for k_, v_ in items.items() if k_ != long_ and ROLE_OF.get(k_) == role and is_attr_of(('p', 'input'), roles=[role])(v_)]
            if v is None and not shorts:
                # dict.setdefault(long, <the region's value>) on an unfiltered copy of the caller's keywords: the binding only
                # takes effect when the caller did not pass that keyword, so a caller-supplied value overrides the region's own
                root = cur
                def _unfiltered(t):
                    return t == ('p', 'kwargs') or (t[0] == 'call' and t[1] == ('attr', ('p', 'kwargs'), 'copy') and not t[2]) \
                        or (t[0] == 'call' and t[1] == ('b', 'dict') and t[2] == (('p', 'kwargs'),) and not t[3])
                def _chain_root(t):
                    while t is not None and t[0] == 'upd':
                        t = t[1]
                    return t
                sds = [e for e in l.effects if e[0] == 'call' and e[1][0] == 'call' and e[1][1][0] == 'attr' and e[1][1][2] == 'setdefault'
                       and len(e[1][2]) == 2 and e[1][2][0] == ('c', long_) and _chain_root(e[1][1][1]) == root]
                others = [e for e in l.effects if e not in sds and e[0] == 'call' and repr(('c', long_)) in repr(e[1][1:3]) and e is not rd[-1]]
                if sds and not others and root is not None and _unfiltered(root) and all(is_attr_of(('p', 'input'), roles=[role])(e[1][2][1]) for e in sds):
                    rep.ob('an AudioRegion input is read with ITS OWN %s: it is bound under the long keyword (which wins over any alias the caller passed)' % role, False, cx.where('core', sds[-1][3]), 'split[AudioRegion input]:%s' % long_,
                           '%s is bound with setdefault() on a copy of the caller\'s keywords: it only takes effect when the caller passed no %s=, so a caller-supplied value overrides the region\'s own' % (long_, long_), sample=dict(path='AudioRegion input', key=long_, value='setdefault'))
                    continue
                rep.unknown('split(): how the parameters of an AudioRegion input reach the reader was not recognised (%s is not set on the keyword dictionary)' % long_)
                continue
            ok = v is not None and is_attr_of(('p', 'input'), roles=[role])(v)
            rep.ob('an AudioRegion input is read with ITS OWN %s: it is bound under the long keyword (which wins over any alias the caller passed)' % role, ok, cx.where('core', rd[-1][3]), 'split[AudioRegion input]:%s' % long_,
                   '%s is %s; the region\'s value is only set under %s, so a caller-supplied %s= overrides it' % (long_, show(v)[:60] if v else 'not set', shorts, long_), sample=dict(path='AudioRegion input', key=long_, value=show(v)[:60] if v else None))
    rep.floor('AudioRegion-input paths of split()', nreg, 1)
    # ---------------------------------------------------------------- AudioRegion.__post_init__
    pl = cx.leaves('core', 'AudioRegion.__post_init__')
    pinit = cx.fn('core', 'AudioRegion.__post_init__')
    sets = {}
    for l in pl:
        for e in l.effects:
            if e[0] == 'call' and P.call(P.attr(P.glob('object'), '__setattr__'), P.Pat(lambda t: t == ('self',), 'self'), P.ANY, P.ANY)(e[1]):
                name = e[1][2][1]
                if name[0] == 'c':
                    sets.setdefault(name[1], []).append((e[1][2][2], l, e))
    selff = lambda n: P.field(n)
    dur_pat = P.binop('/', P.call('len', selff('data')), P.prod(P.role('sampling_rate'), P.role('sample_width'), P.role('channels')))
    if 'duration' not in sets:
        rep.unknown('AudioRegion.__post_init__: duration is not set through object.__setattr__')
    for v, l, e in sets.get('duration', []):
        rep.ob('region.duration = len(data) / (rate * width * channels)', dur_pat(v), cx.where('core', e[3]), 'AudioRegion.__post_init__:duration', 'duration is %s' % show(v)[:160],
               sample=dict(field='duration', value=show(v)[:140]))
    ends = [x for x in sets.get('end', []) if x[0] != ('c', None)]
    if not ends:
        rep.unknown('AudioRegion.__post_init__: end is not set')
    for v, l, e in ends:
        ok = P.summ(selff('start'), selff('duration') | dur_pat)(v)
        rep.ob('region.end = start + duration', ok, cx.where('core', e[3]), 'AudioRegion.__post_init__:end', 'end is %s' % show(v)[:120], sample=dict(field='end', value=show(v)[:100]))
    # ---------------------------------------------------------------- AudioRegion.split delegates in role
    ml = cx.leaves('core', 'AudioRegion.split')
    nret = 0
    for l in ml:
        if l.outcome != 'return':
            continue
        nret += 1
        v = l.value
        ok = v[0] == 'call' and v[1] == ('g', 'core', 'split') and v[2][:1] == (('self',),)
        rep.ob('AudioRegion.split delegates to split(self, ...)', ok, cx.where('core', l.node), 'AudioRegion.split:delegation', 'returns %s' % show(v)[:120])
        if ok:
            b = bind_call(v, cx.fn('core', 'split'))
            for pn in ('min_dur', 'max_dur', 'max_silence', 'drop_trailing_silence', 'strict_min_dur'):
                rep.ob('AudioRegion.split passes %s in role' % pn, b.get(pn) == ('p', pn), cx.where('core', l.node), 'AudioRegion.split:' + pn, '%s receives %s' % (pn, show(b.get(pn)) if b.get(pn) else None))
    rep.floor('AudioRegion.split returning paths', nret, 1)
    # the method and the function are the same operation: same defaults for the parameters they share
    sfn, mfn = cx.fn('core', 'split'), cx.fn('core', 'AudioRegion.split')

    def defaults(fn):
        a = fn.args
        pos = a.posonlyargs + a.args
        out = {x.arg: d for x, d in zip(pos[len(pos) - len(a.defaults):], a.defaults)}
        out.update({x.arg: d for x, d in zip(a.kwonlyargs, a.kw_defaults) if d is not None})
        return out
    ds, dm = defaults(sfn), defaults(mfn)
    for pn in sorted(set(ds) & set(dm)):
        try:
            vs, vm = ast.literal_eval(ds[pn]), ast.literal_eval(dm[pn])
        except (ValueError, SyntaxError):
            rep.unknown('split(): default of %s is not a literal' % pn)
            continue
        rep.ob('AudioRegion.split and split() have the same default for %s' % pn, vs == vm and type(vs) == type(vm), cx.where('core', mfn), 'AudioRegion.split:default-%s' % pn, 'method %r, function %r' % (vm, vs),
               sample=dict(parameter=pn, default=repr(vs)))
    # ---------------------------------------------------------------- role rule (package-wide instances relevant to split)
    check_roles(cx, rep, lambda p: p['func'] in ('split', '_make_audio_region', 'AudioRegion.__post_init__', 'AudioRegion.split', 'AudioRegion.load', 'make_silence', '_Recorder.rewind', 'get_audio_source', 'AudioEnergyValidator.__init__'), floor=15)
    rep.explanation = ('Wiring of split() decided on every returning path from provenance terms of the current source: region data = b"".join(token frames); rate/width/channels '
                       'are the tokenized source\'s own; start = token START index * effective window (source.block_dur = block_size/rate, not the requested analysis_window); the '
                       'tokenizer reads the same source with generator=True and the result is a lazy iterable; validator/tokenizer arguments sit in the right slots, no initial phase, '
                       'mode = 4*drop + 2*strict; duration = len(data)/(rate*width*channels), end = start + duration; AudioRegion.split delegates in role. '
                       'an AudioRegion input is read with its own rate/width/channels bound under the long keywords (a caller\'s keyword cannot override them); AudioRegion.split and split() have the same defaults. NOT decided here: byte equality itself -- it is the composition of C01 (token frames are stream positions start..end) and C10 (frame k is samples [k*block, ...)).')
    rep.assumptions = ['C01 and C10 hold (checked by their own commands)']
    rep.analysed['functions'] = ['core.split', 'core._make_audio_region', 'core.AudioRegion.__post_init__', 'core.AudioRegion.split']
