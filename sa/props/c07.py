"""C07 -- a window is active exactly when its log energy reaches the threshold (DESIGN 4.7)"""
import ast
import math

from ..facts import Ctx, norm_cmp, exc_name, const_value
from ..symex import show, walk, term_name
from ..linear import C as LC, V as LV, add as ladd, scale as lscale, le as lle, lt as llt, ge as lge, gt as lgt, eq as leq, feasible, entails
from .. import pat as P
from .c05 import check_roles

LEVEL = 'other'


def npname(t):
    n = term_name(t)
    return n.split('.')[-1]


def is_np_call(t, names):
    return t[0] == 'call' and npname(t[1]) in names


def strip_conv(t):
    """drop array conversions: np.array(x), np.asarray(x), x.astype(float64), float casts"""
    while True:
        if t[0] == 'call' and npname(t[1]) in ('array', 'asarray', 'float64', 'asanyarray') and len(t[2]) >= 1 and t[1][0] != 'attr' or \
                (t[0] == 'call' and t[1][0] in ('ext',) and npname(t[1]) in ('array', 'asarray', 'asanyarray') and t[2]):
            t = t[2][0]
            continue
        if t[0] == 'call' and t[1][0] == 'attr' and t[1][2] == 'astype':
            t = t[1][1]
            continue
        return t


class CappedEnergy(Exception):
    def __init__(s, bound):
        s.bound = bound


def energy_normal_form(cx, t):
    """t = c * log10(F(mean(sq(x), axis)))  ->  dict(coef_ms, floor_db, axis, squared_of) or raises ValueError(reason)"""
    if not (t[0] == 'bin' and t[1] == '*'):
        raise ValueError('energy is not a product c * log10(...): %s' % show(t)[:80])
    a, b = t[2], t[3]
    try:
        c = const_value(cx, a)
        L = b
    except ValueError:
        c = const_value(cx, b)
        L = a
    if not is_np_call(L, ('log10',)) or len(L[2]) != 1:
        raise ValueError('no log10 in %s' % show(L)[:80])
    X = L[2][0]
    sqrt_out = False
    floor_arg = None
    clip_inside_sqrt = False

    def unclip(u):
        if is_np_call(u, ('clip',)):
            kws = dict(u[3])
            amin = kws.get('a_min', u[2][1] if len(u[2]) > 1 else None)
            amax = kws.get('a_max', u[2][2] if len(u[2]) > 2 else ('c', None))
            if amax not in (('c', None), None):
                try:
                    ub = const_value(cx, amax)
                except ValueError:
                    raise ValueError('clip has an upper bound that is not a constant')
                # the RMS of full-scale 4-byte samples is 2**31; a lower ceiling caps the energy of loud windows (they fall below a
                # threshold they exceed)
                raise CappedEnergy(ub)
            return u[2][0], amin
        if is_np_call(u, ('maximum',)) and len(u[2]) == 2:
            return u[2][0], u[2][1]
        return u, None
    Y, A1 = unclip(X)
    if is_np_call(Y, ('sqrt',)):
        sqrt_out = True
        Y = Y[2][0]
        Y, A2 = unclip(Y)
    else:
        A2 = None
    Mn = Y
    if not ((is_np_call(Mn, ('mean',)) and Mn[2]) or (Mn[0] == 'call' and Mn[1][0] == 'attr' and Mn[1][2] == 'mean')):
        raise ValueError('no mean(...) under the logarithm: %s' % show(Mn)[:80])
    if Mn[1][0] == 'attr' and Mn[1][2] == 'mean' and not is_np_call(Mn, ('mean',)):
        SQ = Mn[1][1]
        rest = Mn[2]
    else:
        SQ = Mn[2][0]
        rest = Mn[2][1:]
    axis = dict(Mn[3]).get('axis', rest[0] if rest else None)
    try:
        axisv = const_value(cx, axis) if axis is not None else None
    except ValueError:
        axisv = '?'
    # squared input
    sq_of = None
    if SQ[0] == 'bin' and SQ[1] == '**' and SQ[3] == ('c', 2):
        sq_of = SQ[2]
    elif SQ[0] == 'bin' and SQ[1] == '*' and SQ[2] == SQ[3]:
        sq_of = SQ[2]
    elif is_np_call(SQ, ('square',)):
        sq_of = SQ[2][0]
    elif is_np_call(SQ, ('power',)) and len(SQ[2]) == 2 and SQ[2][1] == ('c', 2):
        sq_of = SQ[2][0]
    if sq_of is None:
        raise ValueError('mean is not taken over the squared samples: %s' % show(SQ)[:80])
    coef_ms = c / 2.0 if sqrt_out else float(c)
    floor_db = None
    if A1 is not None:
        floor_db = c * math.log10(const_value(cx, A1))
    elif A2 is not None:
        floor_db = coef_ms * math.log10(const_value(cx, A2))
    return dict(coef_ms=coef_ms, floor_db=floor_db, axis=axisv, squared_of=strip_conv(sq_of))


def lin_of(t, vars_):
    """linear expression over the given parameter names, or None"""
    if t[0] == 'c' and isinstance(t[1], int) and not isinstance(t[1], bool):
        return LC(t[1])
    if t[0] == 'p' and t[1] in vars_:
        return LV(t[1])
    if t[0] == 'bin' and t[1] in ('+', '-'):
        a, b = lin_of(t[2], vars_), lin_of(t[3], vars_)
        if a is None or b is None:
            return None
        return ladd(a, b, 1 if t[1] == '+' else -1)
    if t[0] == 'un' and t[1] == '-':
        a = lin_of(t[2], vars_)
        return None if a is None else lscale(a, -1)
    return None


def lin_cond(ct, truth, vars_):
    g = norm_cmp(ct, truth)
    if g is None:
        return None
    a, b = lin_of(g[1], vars_), lin_of(g[2], vars_)
    if a is None or b is None:
        return None
    return {'<': llt, '<=': lle, '>': lgt, '>=': lge, '==': leq}.get(g[0], lambda x, y: None)(a, b)


def check(repo, rep):
    cx = Ctx(repo)
    rep.cx = cx
    # ---------------------------------------------------------------- 1. the decision
    vl = cx.leaves('util', 'AudioEnergyValidator.is_valid')
    vfn = cx.fn('util', 'AudioEnergyValidator.is_valid')
    defs = cx.field_defs('util', 'AudioEnergyValidator')
    thr_fields = [f for f, ds in defs.items() if ds and all(d['value'] == ('p', 'energy_threshold') for d in ds)]
    sel_fields = [f for f, ds in defs.items() if ds and all(d['value'][0] == 'call' and d['value'][1] == ('g', 'util', 'make_channel_selector') for d in ds)]
    agg_fields = [f for f, ds in defs.items() if ds and all(d['value'][0] == 'ite' for d in ds)]
    # or: the field handed to calculate_energy as aggregation, defined on two branches of the constructor
    for l_ in vl:
        for x_ in walk(l_.value) if l_.value else []:
            if x_[0] == 'call' and x_[1][0] == 'g' and x_[1][2] == 'calculate_energy':
                a1_ = x_[2][1] if len(x_[2]) > 1 else dict(x_[3]).get('agg_fn')
                if a1_ is not None and a1_[0] == 'attr' and a1_[1] == ('self',) and a1_[2] in defs and a1_[2] not in agg_fields:
                    agg_fields.append(a1_[2])
    isthr = P.Pat(lambda t: t[0] == 'attr' and t[1] == ('self',) and t[2] in thr_fields, 'threshold')
    nret = 0
    energy_call = None
    for l in vl:
        if l.outcome != 'return':
            continue
        nret += 1
        val = l.value
        while val[0] == 'call' and len(val[2]) == 1 and (val[1] == ('b', 'bool') or npname(val[1]) in ('all', 'any', 'bool_')):
            val = val[2][0]          # bool(np.all(x)) of a scalar / 1-element comparison
        g = norm_cmp(val, True)
        ok = g is not None and ((g[0] == '>=' and isthr(g[2]) and not any(isthr(x) for x in walk(g[1]))) or (g[0] == '<=' and isthr(g[1]) and not any(isthr(x) for x in walk(g[2]))))
        rep.ob('window is active iff energy >= threshold (inclusive, threshold only on one side: raising it can only deactivate)', ok, cx.where('util', l.node), 'AudioEnergyValidator.is_valid:comparison',
               'is_valid returns %s' % show(l.value)[:160], sample=dict(decision=show(l.value)[:140]))
        if g is not None:
            e = g[1] if isthr(g[2]) else g[2]
            if e[0] == 'call' and e[1][0] == 'g' and e[1][2] == 'calculate_energy':
                energy_call = e
                a0 = e[2][0] if e[2] else None
                ok2 = a0 is not None and a0[0] == 'call' and a0[1][0] == 'attr' and a0[1][1] == ('self',) and a0[1][2] in sel_fields and a0[2] == (('p', 'data'),)
                rep.ob('the energy is computed on selector(data)', ok2, cx.where('util', l.node), 'AudioEnergyValidator.is_valid:selector', 'energy argument is %s' % (show(a0)[:100] if a0 else None))
                a1 = e[2][1] if len(e[2]) > 1 else dict(e[3]).get('agg_fn')
                ok3 = a1 is not None and a1[0] == 'attr' and a1[1] == ('self',) and a1[2] in agg_fields
                rep.ob('the channel aggregation chosen at construction is applied', ok3, cx.where('util', l.node), 'AudioEnergyValidator.is_valid:aggregation', 'aggregation argument is %s' % (show(a1)[:80] if a1 else None))
            else:
                rep.unknown('is_valid: energy expression %s is not a call of calculate_energy' % show(e)[:80])
    rep.floor('is_valid returning paths', nret, 1)
    rep.ob('the threshold field is the constructor argument energy_threshold', len(thr_fields) == 1, cx.where('util', vfn), 'AudioEnergyValidator:threshold-field', 'candidate fields %s' % thr_fields)
    # ---------------------------------------------------------------- 2. the energy formula
    el = cx.leaves('signal', 'calculate_energy')
    efn = cx.fn('signal', 'calculate_energy')
    plain = [l for l in el if l.outcome == 'return' and not (l.value[0] == 'call' and l.value[1] == ('p', 'agg_fn'))]
    agg = [l for l in el if l.outcome == 'return' and l.value[0] == 'call' and l.value[1] == ('p', 'agg_fn')]
    rep.floor('calculate_energy plain/aggregated return paths', min(len(plain), len(agg)), 1)
    for l, kind in [(x, 'plain') for x in plain] + [(x, 'agg') for x in agg]:
        t = l.value if kind == 'plain' else (l.value[2][0] if l.value[2] else None)
        where = cx.where('signal', l.node)
        try:
            nf = energy_normal_form(cx, t)
        except CappedEnergy as exc:
            big = isinstance(exc.bound, (int, float)) and exc.bound >= 2 ** 31
            if big:
                rep.unknown('calculate_energy: clipped above at %r (no sample value reaches it)' % (exc.bound,))
            else:
                rep.ob('the energy is not capped from above (a window louder than any threshold stays active for every sample width)', False, where, 'calculate_energy:ceiling',
                       'the RMS is clipped at %r, below the RMS 2**31 that 4-byte samples reach' % (exc.bound,))
            continue
        except ValueError as exc:
            rep.unknown('calculate_energy: %s' % exc)
            continue
        rep.ob('energy = 10*log10(mean square)  (20*log10(sqrt(.)) accepted)', abs(nf['coef_ms'] - 10.0) < 1e-9, where, 'calculate_energy:coefficient', 'coefficient on log10(mean square) is %g' % nf['coef_ms'],
               sample=dict(normal_form=nf if kind == 'plain' else None, path=kind))
        rep.ob('digital silence is floored at -200 dB', nf['floor_db'] is not None and abs(nf['floor_db'] + 200.0) < 1e-6, where, 'calculate_energy:floor', 'floor is %s dB' % nf['floor_db'])
        rep.ob('mean is taken over the samples of each channel (last axis)', nf['axis'] == -1, where, 'calculate_energy:axis', 'axis is %r' % (nf['axis'],))
        rep.ob('the mean is over the squared samples of the input', nf['squared_of'] == ('p', 'x'), where, 'calculate_energy:input', 'squares %s' % show(nf['squared_of'])[:80])
        if kind == 'agg':
            cond_ok = any(norm_cmp(c[0], c[1]) == ('is not', ('p', 'agg_fn'), ('c', None)) for c in l.conds) or any(c[0] == ('p', 'agg_fn') and c[1] for c in l.conds)
            rep.ob('aggregation is applied exactly when an aggregation function is given', cond_ok, where, 'calculate_energy:agg-condition')
    # ---------------------------------------------------------------- 3. aggregation = max over channels for None/'any'
    all_sets = []
    for f in agg_fields:
        branch_defs = [d for d in defs[f] if d['value'][0] != 'ite']
        if branch_defs:
            # if/else form: np.max under (use_channel in (None, 'any')), None otherwise
            for d in branch_defs:
                cc = [c for c in d['conds'] if c[0][0] == 'cmp' and c[0][1] == 'in' and c[0][2] == ('p', 'use_channel')]
                if not cc:
                    rep.unknown('AudioEnergyValidator.__init__: aggregation %s assigned without a test of use_channel' % f)
                    continue
                keys = {x[1] for x in cc[0][0][3][1] if x[0] == 'c'}
                all_sets.append(frozenset(keys))
                v = d['value']
                okv = (npname(v) in ('max', 'amax')) if cc[0][1] else (v == ('c', None))
                rep.ob('default / "any" channel mode aggregates with the maximum over channels', keys == {None, 'any'} and okv, cx.where('util', d['node']), 'AudioEnergyValidator.__init__:aggregation',
                       'aggregation is %s when use_channel in %s is %s' % (show(v)[:40], sorted(map(str, keys)), cc[0][1]), sample=dict(aggregation=show(v)[:60], branch=cc[0][1]))
            continue
        for d in defs[f]:
            v = d['value']
            c, a, b = v[1], v[2], v[3]
            okc = c[0] == 'cmp' and c[1] == 'in' and c[2] == ('p', 'use_channel') and c[3][0] in ('tuple', 'list', 'set')
            keys = set()
            if okc:
                keys = {x[1] for x in c[3][1] if x[0] == 'c'}
                all_sets.append(frozenset(keys))
            okv = npname(a) in ('max', 'amax') and b == ('c', None)
            rep.ob('default / "any" channel mode aggregates with the maximum over channels', okc and keys == {None, 'any'} and okv, cx.where('util', d['node']), 'AudioEnergyValidator.__init__:aggregation',
                   'aggregation is %s' % show(v)[:120], sample=dict(aggregation=show(v)[:100]))
    rep.ob('an aggregation field exists', bool(agg_fields), cx.where('util', vfn), 'AudioEnergyValidator:no-aggregation-field')
    # ---------------------------------------------------------------- 4. decoding
    tl = cx.leaves('signal', 'to_array')
    tfn = cx.fn('signal', 'to_array')
    for l in tl:
        if l.outcome != 'return':
            continue
        v = l.value
        where = cx.where('signal', l.node)
        ok = v[0] == 'call' and v[1][0] == 'attr' and v[1][2] == 'reshape'
        if not ok:
            rep.unknown('to_array: result %s is not a reshape' % show(v)[:80])
            continue
        kws = dict(v[3])
        shape_ = v[2][0][1] if len(v[2]) == 1 and v[2][0][0] in ('tuple', 'list') else v[2]          # reshape(a, b) and reshape((a, b)) are the same call
        rep.ob('channels are de-interleaved: reshape(channels, -1, order="F")', tuple(shape_[:2]) == (('p', 'channels'), ('c', -1)) and kws.get('order') == ('c', 'F'), where, 'to_array:reshape', 'reshape arguments %s %s' % ([show(a) for a in v[2]], kws.get('order')),
               sample=dict(reshape=show(v)[-60:]))
        base = strip_conv(v[1][1])
        okb = is_np_call(base, ('frombuffer',)) and base[2][:1] == (('p', 'data'),)
        rep.ob('samples are decoded with numpy.frombuffer(data, dtype=...)', okb, where, 'to_array:frombuffer', 'decodes with %s' % show(base)[:100])
        if okb:
            dt = dict(base[3]).get('dtype', base[2][1] if len(base[2]) > 1 else None)
            def is_table(g_):
                lk_ = cx.model.lookup(g_) if g_[0] == 'g' else None
                return bool(lk_) and lk_[0] == 'const' and isinstance(lk_[1], ast.Dict)
            okd = dt is not None and ((dt[0] == 'call' and dt[1][0] == 'g' and dt[2] == (('p', 'sample_width'),))                                  # helper(sample_width)
                                      or (dt[0] == 'call' and dt[1][0] == 'attr' and dt[1][2] == 'get' and is_table(dt[1][1]) and dt[2][:1] == (('p', 'sample_width'),))   # TABLE.get(sample_width)
                                      or (dt[0] == 'sub' and is_table(dt[1]) and dt[2] == ('p', 'sample_width')))                                 # TABLE[sample_width]
            rep.ob('the dtype is looked up from the sample width', okd, where, 'to_array:dtype-lookup', 'dtype is %s' % (show(dt)[:80] if dt else None))
    # dtype table
    tab = cx.model.mods['signal']['consts'].get('SAMPLE_WIDTH_TO_DTYPE')
    tables = [(k, v) for k, v in cx.model.mods['signal']['consts'].items() if isinstance(v, ast.Dict)]
    okt = False
    for name, dnode in tables:
        ents = {}
        for k, v in zip(dnode.keys, dnode.values):
            if isinstance(k, ast.Constant) and isinstance(v, ast.Attribute):
                ents[k.value] = v.attr
        if ents:
            want = {1: 'int8', 2: 'int16', 4: 'int32'}
            okt = ents == want
            rep.ob('dtype table: widths 1/2/4 decode as signed integers of the same size (int8/int16/int32)', okt, cx.where('signal', dnode), 'signal.%s' % name, 'table is %s' % ents, sample=dict(table=ents))
    rep.ob('a sample-width -> dtype table exists', bool(tables), cx.where('signal', tfn), 'signal:no-dtype-table')
    dl = cx.leaves('signal', '_get_numpy_dtype', required=False)
    if dl:
        r = [l for l in dl if l.outcome == 'raise']
        rep.ob('an unknown sample width raises ValueError', bool(r) and all(exc_name(l) == 'ValueError' for l in r), cx.where('signal', cx.fn('signal', '_get_numpy_dtype')), '_get_numpy_dtype:unknown-width')
    # ---------------------------------------------------------------- 5. channel selection
    sl = cx.leaves('util', 'make_channel_selector')
    sfn = cx.fn('util', 'make_channel_selector')
    to_arr = P.call(P.glob('partial'), P.glob('to_array'), sample_width=P.param('sample_width'), channels=P.param('channels'))

    def applied(xpat):
        # the decoder applied to the window: the partial object called with it, or (what the evaluator reduces that to) the call itself
        return P.call(to_arr, xpat) | P.call(P.glob('to_array'), xpat, sample_width=P.param('sample_width'), channels=P.param('channels')) \
            | P.call(P.glob('to_array'), xpat, P.param('sample_width'), P.param('channels'))
    int_accept, int_reject = [], []
    seen = dict(all=0, int=0, mix=0, bad=0)
    sel_sets = []
    mean_leaves = []
    for l in sl:
        where = cx.where('util', l.node)
        conds = l.conds
        is_mono = any(norm_cmp(c[0], c[1]) == ('==', ('p', 'channels'), ('c', 1)) for c in conds)
        def member(key):
            # [(set term, is-member?)] for the tests `selected in <set containing key>` on this path (written with `in` or `not in`)
            out = []
            for c in conds:
                g = norm_cmp(c[0], c[1])
                if g and g[0] in ('in', 'not in') and g[1] == ('p', 'selected') and any(x == ('c', key) for x in walk(g[2])):
                    out.append((('cmp', 'in', g[1], g[2]), g[0] == 'in'))
                elif g and g[0] in ('==', '!=', 'is', 'is not') and g[1] == ('p', 'selected') and g[2] == ('c', key):
                    out.append((('cmp', 'in', g[1], ('tuple', (g[2],))), g[0] in ('==', 'is')))        # selected == "mix" is selected in ("mix",)
            # the membership that holds on this path first
            out.sort(key=lambda x: not x[1])
            return out
        anyc = member(None)
        mixc = member('mix')
        intc = [c for c in conds if c[0][0] == 'call' and c[0][1] == ('b', 'isinstance') and c[0][2] == (('p', 'selected'), ('b', 'int'))]
        for c in anyc:
            sel_sets.append(frozenset(x[1] for x in c[0][3][1] if x[0] == 'c'))
        if is_mono or (anyc and anyc[0][1]):
            seen['all'] += 1
            rep.ob('single-channel audio / None / "any": all channels are handed to the energy computation', l.outcome == 'return' and to_arr(l.value), where, 'make_channel_selector[all]', 'returns %s' % show(l.value)[:100],
                   sample=dict(mode='mono' if is_mono else 'any', selector=show(l.value)[:90]))
            continue
        if intc and intc[0][1]:
            seen['int'] += 1
            cs = [lin_cond(c[0], c[1], ('selected', 'channels')) for c in conds]
            cs = [c for c in cs if c is not None]
            if not feasible([lge(LV('channels'), LC(2))] + cs):
                continue            # path impossible for channels >= 2 (mono returned earlier)
            if l.outcome == 'raise':
                int_reject.append((cs, l))
                rep.ob('an out-of-range channel index raises ValueError', exc_name(l) == 'ValueError', where, 'make_channel_selector[int]:exception', 'raises %s' % exc_name(l))
            else:
                int_accept.append((cs, l))
                v = l.value
                ok = v[0] == 'lambda' and len(v[1]) == 1 and v[2][0] == 'sub' and applied(P.Pat(lambda t, _v=v: t == ('lp', _v[1][0]), 'x'))(v[2][1])
                idx = v[2][2] if ok else None
                okidx = idx in (('p', 'selected'), ('bin', '+', ('p', 'selected'), ('p', 'channels')))
                why = ''
                if ok and not okidx:
                    # not one of the two textbook forms: decide by evaluating the row index under this path's condition
                    from ..semantic import evaluator, holds, value, Undecided
                    try:
                        okidx, npt = True, 0
                        for ch_ in (2, 3, 4):
                            for sel_ in range(-ch_ - 1, ch_ + 1):
                                a_ = {('p', 'selected'): sel_, ('p', 'channels'): ch_, ('p', 'sample_width'): 7}
                                if not holds(l, evaluator(a_)):
                                    continue
                                npt += 1
                                got = value(idx, evaluator(a_))
                                if not isinstance(got, int) or isinstance(got, bool) or not (-ch_ <= got < ch_) or got % ch_ != sel_ % ch_:
                                    okidx, why = False, ' (selected=%d with %d channels picks row %r)' % (sel_, ch_, got)
                        if npt == 0:
                            raise Undecided('no grid point satisfies the path condition')
                    except Undecided as exc:
                        rep.unknown('make_channel_selector[int]: row index %s not evaluable (%s)' % (show(idx)[:80], exc))
                        continue
                rep.ob('an integer selects that channel\'s row of the de-interleaved array', ok and okidx, where, 'make_channel_selector[int]:row', 'selector is %s%s' % (show(v)[:140], why), sample=dict(mode='int', selector=show(v)[:120]))
            continue
        if mixc and mixc[0][1]:
            seen['mix'] += 1
            keys = {x[1] for x in mixc[0][0][3][1] if x[0] == 'c'}
            v = l.value
            ok = l.outcome == 'return' and v[0] == 'lambda' and len(v[1]) == 1 and v[2][0] == 'call' and v[2][1][0] == 'attr' and v[2][1][2] == 'mean' \
                and applied(P.Pat(lambda t, _v=v: t == ('lp', _v[1][0]), 'x'))(v[2][1][1]) and dict(v[2][3]).get('axis', v[2][2][0] if v[2][2] else None) == ('c', 0)
            mean_leaves.append(l)
            rep.ob('"mix"/"avg"/"average": per-sample arithmetic mean of the channels (mean over axis 0)', ok, where, 'make_channel_selector[mix]', 'names %s -> %s' % (sorted(keys), show(v)[:120]),
                   sample=dict(mode='mix', names=sorted(keys), selector=show(v)[:100]))
            continue
        if l.outcome == 'raise':
            seen['bad'] += 1
            rep.ob('an unknown channel selection raises ValueError', exc_name(l) == 'ValueError', where, 'make_channel_selector[unknown]', 'raises %s' % exc_name(l))
        else:
            # which names lead here is decided by the name-dispatch rule below (each name is taken through the path conditions);
            # here only the shape of what is returned is checked
            v = l.value
            ismean = v is not None and v[0] == 'lambda' and len(v[1]) == 1 and v[2][0] == 'call' and v[2][1][0] == 'attr' and v[2][1][2] == 'mean' \
                and applied(P.Pat(lambda t, _v=v: t == ('lp', _v[1][0]), 'x'))(v[2][1][1]) and dict(v[2][3]).get('axis', v[2][2][0] if v[2][2] else None) == ('c', 0)
            if ismean:
                seen['mix'] += 1
                mean_leaves.append(l)
            elif v is not None and to_arr(v):
                seen['all'] += 1
            else:
                rep.unknown('make_channel_selector: a path returns %s, which is neither all channels, a row, nor the mean' % (show(v)[:80] if v else None))
    for k, n in seen.items():
        rep.ob('make_channel_selector has a %s branch' % k, n >= 1, cx.where('util', sfn), 'make_channel_selector:missing-%s' % k)
    # integer guard region == { -channels <= selected < channels } (given channels >= 2): the path taken by each (selected, channels)
    # of a small grid is selected by evaluating the path conditions; it must accept exactly the indices of the region
    from ..semantic import evaluator, holds, Undecided
    from ..facts import split_ites
    try:
        bad = None
        npt = 0
        sl2 = split_ites(sl)
        for ch_ in (2, 3, 5):
            for sel_ in range(-ch_ - 3, ch_ + 4):
                a_ = {('p', 'selected'): sel_, ('p', 'channels'): ch_}
                hit = [l for l in sl2 if holds(l, evaluator(a_))]
                if len(hit) != 1:
                    raise Undecided('%d paths apply to selected=%d, channels=%d' % (len(hit), sel_, ch_))
                l = hit[0]
                npt += 1
                inside = -ch_ <= sel_ < ch_
                if inside and l.outcome == 'raise':
                    bad = bad or (l, 'channel index %d of %d channels is rejected (%s)' % (sel_, ch_, exc_name(l)))
                if not inside and l.outcome != 'raise':
                    bad = bad or (l, 'channel index %d of %d channels is accepted (outside [-channels, channels))' % (sel_, ch_))
                if not inside and l.outcome == 'raise' and exc_name(l) != 'ValueError':
                    bad = bad or (l, 'channel index %d of %d channels raises %s, not ValueError' % (sel_, ch_, exc_name(l)))
        rep.ob('integer channel indices are accepted exactly in [-channels, channels), ValueError outside', bad is None, cx.where('util', bad[0].node) if bad and bad[0].node is not None else cx.where('util', sfn),
               'make_channel_selector[int]:region', bad[1] if bad else None, sample=dict(rule='index region', grid_points=npt))
    except Undecided as exc:
        rep.unknown('make_channel_selector: integer index region not decided (%s)' % exc)
    # which names select what, decided by taking each name through the path conditions (2 and 3 channels)
    try:
        bad = None
        for ch_ in (2, 3):
            for name_, want in ((None, 'all'), ('any', 'all'), ('mix', 'mean'), ('avg', 'mean'), ('average', 'mean'), ('left', 'error'), ('', 'error'), ('Mix', 'error'), ('max', 'error')):
                a_ = {('p', 'selected'): name_, ('p', 'channels'): ch_}
                hit = [l for l in sl2 if holds(l, evaluator(a_))]
                if len(hit) != 1:
                    raise Undecided('%d paths apply to selected=%r, channels=%d' % (len(hit), name_, ch_))
                l = hit[0]
                got = 'error' if l.outcome == 'raise' else ('all' if to_arr(l.value) else ('mean' if any(l is m_ for m_ in mean_leaves) or (l.value[0] == 'lambda' and any(x[0] == 'attr' and x[2] == 'mean' for x in walk(l.value))) else 'other'))
                if got != want:
                    bad = bad or (l, 'use_channel=%r with %d channels selects %s; it must select %s' % (name_, ch_, got, {'all': 'all channels (maximum over channels)', 'mean': 'the mean of the channels', 'error': 'nothing (ValueError)'}[want]))
                elif want == 'error' and exc_name(l) != 'ValueError':
                    bad = bad or (l, 'use_channel=%r raises %s, not ValueError' % (name_, exc_name(l)))
        rep.ob('None/"any" select all channels, "mix"/"avg"/"average" their mean, any other name raises ValueError', bad is None, cx.where('util', bad[0].node) if bad and bad[0].node is not None else cx.where('util', sfn),
               'make_channel_selector:names', bad[1] if bad else None, sample=dict(rule='name dispatch'))
    except Undecided as exc:
        rep.unknown('make_channel_selector: name dispatch not decided (%s)' % exc)
    # sibling agreement: the "all channels" name set is the same in selector and aggregation
    for a in all_sets:
        for b in sel_sets:
            rep.ob('selector and aggregation agree on the names that mean "all channels"', a == b, cx.where('util', sfn), 'all-channels-name-set', 'aggregation %s vs selector %s' % (sorted(map(str, a)), sorted(map(str, b))))
    rep.ob('selector tests None/"any"', bool(sel_sets), cx.where('util', sfn), 'make_channel_selector:no-any-test')
    check_roles(cx, rep, lambda p: p['func'] in ('AudioEnergyValidator.__init__', 'to_array', 'make_channel_selector', 'AudioRegion.numpy'), floor=5)
    rep.explanation = ('Formula shape of the energy decision decided from provenance terms: is_valid = (calculate_energy(selector(data), aggregation) >= threshold) with the threshold on one side only; the energy term is '
                       'normalised by rewrite rules (c*log10(sqrt(u)) = (c/2)*log10(u); clip inside/outside the sqrt) to coefficient 10 on log10(mean square over the last axis) with floor -200 dB obtained by '
                       'constant-folding c*log10(EPSILON); aggregation = np.max exactly for None/"any" and the same name set as the selector; decoding = frombuffer with the table {1:int8, 2:int16, 4:int32}, '
                       'unknown width -> ValueError, reshape(channels, -1, order="F"); selector dispatch: mono/None/"any" -> all channels, integer -> that row with ValueError exactly outside [-channels, channels) '
                       '(region comparison by linear entailment), mix/avg/average -> mean(axis=0), anything else ValueError. The accepted index region, the selected row and the name dispatch (None/any -> all, mix/avg/average -> mean, other names -> ValueError) are decided by taking sample values through the path conditions. NOT decided: numpy numerics; little-endian decoding is the platform\'s native order.')
    rep.assumptions = ['numpy functions have their documented semantics; the platform is little-endian (np.int16 is native order)']
