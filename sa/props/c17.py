"""C17 -- region algebra: concatenate, repeat, divide, join are byte-exact and safe (DESIGN 4.17)"""
import ast

from ..facts import Ctx, norm_cmp, exc_name
from ..effects import Effects
from ..symex import show, walk, term_name, ROLE_OF
from .. import pat as P
from .c05 import check_roles

LEVEL = 'other'
SELF = P.Pat(lambda t: t == ('self',), 'self')
ROLES = ('sampling_rate', 'sample_width', 'channels')


def check(repo, rep):
    cx = Ctx(repo)
    rep.cx = cx
    W = lambda n: cx.where('core', n)
    cls = cx.cls('core', 'AudioRegion')
    sdata = P.attr(SELF, 'data')
    checker = None
    # ---------------------------------------------------------------- parameter compatibility check
    # the method whose every raising leaf is an AudioParameterError comparing self.X with other.X
    for fn in cls.body:
        if isinstance(fn, ast.FunctionDef) and len(fn.args.args) == 2:
            lv = cx.leaves_of('core', cls, fn)
            r = [l for l in lv if l.outcome == 'raise']
            if r and all(exc_name(l) == 'AudioParameterError' for l in r):
                checker = fn
    if checker is None:
        rep.unknown('AudioRegion: no parameter-compatibility check found (a method raising only AudioParameterError)')
    else:
        on = checker.args.args[1].arg
        lv = cx.leaves_of('core', cls, checker)
        passing = [l for l in lv if l.outcome != 'raise']
        for l in passing:
            covered = set()
            for ct, tr, _ in l.conds:
                g = norm_cmp(ct, tr)
                if g and g[0] == '==' and g[1][0] == 'attr' and g[2][0] == 'attr':
                    ra, rb = ROLE_OF.get(g[1][2]), ROLE_OF.get(g[2][2])
                    bases = {g[1][1], g[2][1]}
                    if ra and ra == rb and bases == {('self',), ('p', on)}:
                        covered.add(ra)
                    elif ra and rb and ra != rb:
                        rep.ob('compatibility check compares like with like', False, W(checker), 'AudioRegion.%s:mixed-roles' % checker.name, 'compares %s with %s' % (show(g[1]), show(g[2])))
            rep.ob('regions are combined only if rate, width AND channel count are all equal', covered == set(ROLES), W(checker), 'AudioRegion.%s:coverage' % checker.name,
                   'the passing path has checked %s' % sorted(covered), sample=dict(check=checker.name, compares=sorted(covered)))
        rep.floor('compatibility-check passing paths', len(passing), 1)
    ischeck = lambda t, arg=None: checker is not None and t[0] == 'call' and t[1] == ('attr', ('self',), checker.name) and (arg is None or t[2] == (arg,))
    # ---------------------------------------------------------------- __add__
    al = cx.leaves('core', 'AudioRegion.__add__')
    afn = cx.fn('core', 'AudioRegion.__add__')
    oth = ('p', afn.args.args[1].arg)
    seen_type = False
    for l in al:
        if l.outcome == 'raise':
            isinst = l.conds and l.conds[-1][0][0] == 'call' and l.conds[-1][0][1] == ('b', 'isinstance') and not l.conds[-1][1]
            if isinst:
                seen_type = True
                rep.ob('adding a non-region raises TypeError', exc_name(l) == 'TypeError', W(l.node), 'AudioRegion.__add__:type-error', 'raises %s' % exc_name(l))
            continue
        if l.outcome != 'return':
            continue
        v = l.value
        empty_other = any(ct == ('attr', oth, 'data') and not tr for ct, tr, _ in l.conds) or any((g := norm_cmp(ct, tr)) and g[0] == '==' and g[1] == ('call', ('b', 'len'), (oth,), ()) and g[2] == ('c', 0) for ct, tr, _ in l.conds)
        ok = (v[0] == 'call' and v[1] == ('g', 'core', 'AudioRegion') and v[2] and v[2][0] == ('bin', '+', ('attr', ('self',), 'data'), ('attr', oth, 'data'))) or (v == ('self',) and empty_other)
        rep.ob('a + b carries exactly a.data + b.data (in this order)', ok, W(l.node), 'AudioRegion.__add__:data', 'returns %s' % show(v)[:120], sample=dict(op='+', result=show(v)[:100]))
        idx_check = [i for i, e in enumerate(l.effects) if e[0] == 'call' and ischeck(e[1], oth)]
        inlined_check = set()          # the check may have been followed into (a helper the rules do not know): its comparisons are then on the path
        for ct, tr, _ in l.conds:
            g = norm_cmp(ct, tr)
            if g and g[0] == '==' and g[1][0] == 'attr' and g[2][0] == 'attr' and {g[1][1], g[2][1]} == {('self',), oth} and ROLE_OF.get(g[1][2]) and ROLE_OF.get(g[1][2]) == ROLE_OF.get(g[2][2]):
                inlined_check.add(ROLE_OF[g[1][2]])
        rep.ob('a + b passes the parameter check before a region is returned', bool(idx_check) or inlined_check == set(ROLES), W(l.node), 'AudioRegion.__add__:check',
               'no call of the compatibility check on the returning path (role comparisons on the path: %s)' % sorted(inlined_check))
    rep.ob('adding a non-region is rejected', seen_type, W(afn), 'AudioRegion.__add__:no-type-guard')
    # ---------------------------------------------------------------- join
    jl = cx.leaves('core', 'AudioRegion.join')
    for l in jl:
        if l.outcome != 'return':
            continue
        v = l.value
        ok = v[0] == 'call' and v[1] == ('g', 'core', 'AudioRegion') and v[2] and v[2][0][0] == 'call' and v[2][0][1] == ('attr', ('attr', ('self',), 'data'), 'join')
        rep.ob('silence.join(regions) joins the regions\' bytes with the silence\'s bytes', ok, W(l.node), 'AudioRegion.join:data', 'returns %s' % show(v)[:140], sample=dict(op='join', result=show(v)[:120]))
        if not ok:
            continue
        arg = v[2][0][2][0] if v[2][0][2] else None
        okg = arg is not None and arg[0] in ('gen', 'listcomp') and len(arg[2]) == 1 and arg[1] == ('attr', ('lp', arg[2][0][0]), 'data') and not arg[2][0][2]
        if not okg and arg is not None and arg[0] in ('list', 'loopvar', 'tuple'):
            # the joined sequence is a list the method fills in a loop over `others` (check the element, append its data)
            jfn0 = cx.fn('core', 'AudioRegion.join')
            op_ = ('p', jfn0.args.args[1].arg)
            enters = [e for e in l.effects if e[0] == 'loop-enter' and e[1] == op_]
            skips = [e for e in l.effects if e[0] == 'loop-skip' and e[1] == op_]
            if skips and not enters and arg in (('list', ()), ('tuple', ())):
                rep.ob('every joined element contributes its own data, unfiltered, in order', True, W(l.node), sample=dict(path='no element: nothing to join'))
                continue
            if enters:
                elem = ('elem', op_)
                apps = [i for i, e in enumerate(l.effects) if e[0] == 'call' and e[1][0] == 'call' and e[1][1][0] == 'attr' and e[1][1][2] == 'append' and e[1][2] == (('attr', elem, 'data'),)]
                chks = [i for i, e in enumerate(l.effects) if e[0] == 'call' and ischeck(e[1], elem)]
                guards = [c for c in l.conds if any(x == elem for x in walk(c[0]))]
                rep.ob('every joined element contributes its own data, unfiltered, in order', len(apps) == 1 and not guards, W(l.node), 'AudioRegion.join:elements',
                       'the loop over the regions appends %d time(s) per element under %d condition(s) on it' % (len(apps), len(guards)), loop_rule=True)
                rep.ob('every joined element passes the parameter check in the iteration that hands it over', bool(chks) and bool(apps) and chks[0] < apps[0], W(l.node), 'AudioRegion.join:check-each',
                       'check calls at %s, append at %s' % (chks, apps), loop_rule=True)
                continue
            rep.unknown('AudioRegion.join: how the joined sequence %s is built was not recognised' % show(arg)[:80])
            continue
        rep.ob('every joined element contributes its own data, unfiltered, in order', okg, W(l.node), 'AudioRegion.join:elements', 'joined iterable is %s' % (show(arg)[:120] if arg else None))
        if okg:
            it = arg[2][0][1]
            # the iterable must be the checked view of `others`
            okc = False
            recognised = False
            if it[0] == 'call' and it[1][0] == 'attr' and it[1][1] == ('self',):
                h = cx.model.find_method('core', cls, it[1][2])
                if h:
                    gen_ok = []
                    for hl in cx.leaves_dyn(h):
                        ents = [e for e in hl.effects if e[0] == 'loop-enter']
                        if ents:
                            recognised = True
                            if hl.outcome == 'raise':
                                continue                       # the check (or the iteration) raised: nothing is handed over
                            elem = ('elem', ents[0][1])
                            ic = [i for i, e in enumerate(hl.effects) if e[0] == 'call' and ischeck(e[1], elem)]
                            iy = [i for i, e in enumerate(hl.effects) if e[0] == 'yield' and e[1] == elem]
                            # EVERY way through an iteration checks the element and then hands over that very element, once
                            gen_ok.append(len(ic) >= 1 and len(iy) == 1 and ents[0][1] == ('p', h[2].args.args[1].arg))      # (check before or after the yield: join consumes the whole iterable before it produces anything)
                            okc = all(gen_ok)
                        elif hl.outcome == 'return' and hl.value and hl.value[0] == 'call' and hl.value[1][0] == 'g':
                            # the checked view is an iterator object of the package: its __next__ hands over what next() of the
                            # wrapped iterator gave, after the parameter check of the reference region (= self) on that very item
                            lk = cx.model.lookup(hl.value[1])
                            nx = cx.model.find_method(hl.value[1][1], lk[1], '__next__') if lk and lk[0] == 'class' else None
                            if nx and checker is not None:
                                from ..facts import ctor_fields
                                cf = ctor_fields(cx, hl.value)
                                idefs = cx.field_defs(lk[1]._home, lk[1].name)
                                ref_f = [f for f, ds in idefs.items() if any(d['method'] == '__init__' and d['value'][0] == 'p' and cf.get(d['value'][1]) == ('self',) for d in ds)]
                                oth_f = [f for f, ds in idefs.items() if any(d['method'] == '__init__' and d['value'][0] == 'p' and cf.get(d['value'][1]) == ('p', h[2].args.args[1].arg) for d in ds)]
                                rets = [l2 for l2 in cx.leaves_of(nx[0], nx[1], nx[2]) if l2.outcome == 'return']
                                good = bool(rets) and bool(ref_f) and bool(oth_f)
                                for l2 in rets:
                                    v2 = l2.value
                                    is_next = v2 is not None and v2[0] == 'call' and v2[1] == ('b', 'next') and len(v2[2]) >= 1
                                    chk = [e for e in l2.effects if e[0] == 'call' and e[1][0] == 'call' and e[1][1][0] == 'attr' and e[1][1][2] == checker.name
                                           and e[1][1][1][0] == 'attr' and e[1][1][1][1] == ('self',) and e[1][1][1][2] in ref_f and e[1][2] == (v2,)]
                                    good = good and is_next and bool(chk)
                                recognised = True
                                okc = good
            jfn_ = cx.fn('core', 'AudioRegion.join')
            if not recognised and it == ('p', jfn_.args.args[1].arg):
                recognised, okc = True, False          # the raw argument is joined: no element is checked as it is handed over
            if not recognised:
                rep.unknown('AudioRegion.join: how the iterable %s checks each element was not recognised (neither a checking generator nor a checking iterator class)' % show(it)[:80])
                continue
            rep.ob('every joined element passes the parameter check in the iteration that hands it over', okc, W(l.node), 'AudioRegion.join:check-each', 'iterable is %s' % show(it)[:100])
    # ---------------------------------------------------------------- __mul__ / __rmul__
    ml = cx.leaves('core', 'AudioRegion.__mul__')
    mfn = cx.fn('core', 'AudioRegion.__mul__')
    n_ = ('p', mfn.args.args[1].arg)
    seen_type = False
    for l in ml:
        if l.outcome == 'raise':
            seen_type = seen_type or exc_name(l) == 'TypeError'
            rep.ob('multiplying by a non-int raises TypeError', exc_name(l) == 'TypeError', W(l.node), 'AudioRegion.__mul__:type-error')
        elif l.outcome == 'return':
            v = l.value
            ok = v[0] == 'call' and v[1] == ('g', 'core', 'AudioRegion') and v[2] and v[2][0] in (('bin', '*', ('attr', ('self',), 'data'), n_), ('bin', '*', n_, ('attr', ('self',), 'data')))
            rep.ob('region * n carries data * n', ok, W(l.node), 'AudioRegion.__mul__:data', 'returns %s' % show(v)[:100], sample=dict(op='*', result=show(v)[:90]))
    rep.ob('multiplying by a non-int is rejected', seen_type, W(mfn), 'AudioRegion.__mul__:no-type-guard')
    # ---------------------------------------------------------------- __radd__ (sum support)
    rl = cx.leaves('core', 'AudioRegion.__radd__', required=False)
    if rl:
        ok = any(l.outcome == 'return' and l.value == ('self',) and any(norm_cmp(c[0], c[1]) and norm_cmp(c[0], c[1])[0] == '==' and norm_cmp(c[0], c[1])[2] == ('c', 0) for c in l.conds) for l in rl)
        rep.ob('0 + region is the region itself (sum() works)', ok, W(cx.fn('core', 'AudioRegion.__radd__')), 'AudioRegion.__radd__:zero')
    # ---------------------------------------------------------------- __eq__
    el = cx.leaves('core', 'AudioRegion.__eq__')
    efn = cx.fn('core', 'AudioRegion.__eq__')
    o_ = ('p', efn.args.args[1].arg)
    for l in el:
        if l.outcome != 'return':
            continue
        v = l.value
        if v in (('c', True), ('c', False)):
            if v == ('c', False):
                ok = any(c[0][0] == 'call' and c[0][1] == ('b', 'isinstance') and not c[1] for c in l.conds)
                # or: a compared field differs on this path
                diff = any((g := norm_cmp(c[0], c[1])) and g[0] == '!=' and g[1][0] == 'attr' and g[2][0] == 'attr' and {g[1][1], g[2][1]} == {('self',), o_} and ROLE_OF.get(g[1][2], g[1][2]) == ROLE_OF.get(g[2][2], g[2][2]) for c in l.conds)
                rep.ob('False is returned only for a non-region or when a compared field differs', ok or diff, W(l.node), 'AudioRegion.__eq__:false-path')
            else:
                ok = any(norm_cmp(c[0], c[1]) and norm_cmp(c[0], c[1])[0] == 'is' for c in l.conds)
                rep.ob('True is returned only for the identical object', ok, W(l.node), 'AudioRegion.__eq__:identity')
            continue
        parts = list(v[1]) if v[0] == 'and' else [v]
        # fields already found equal on this path (early `return False` on inequality)
        for c in l.conds:
            g = norm_cmp(c[0], c[1])
            if g and g[0] == '==' and g[1][0] == 'attr' and g[2][0] == 'attr' and {g[1][1], g[2][1]} == {('self',), o_}:
                parts.append(('cmp', '==', g[1], g[2]))
        fields = set()
        good = True
        for pz in parts:
            g = norm_cmp(pz, True)
            if not g or g[0] != '==' or g[1][0] != 'attr' or g[2][0] != 'attr' or {g[1][1], g[2][1]} != {('self',), o_}:
                good = False
                continue
            a, b = g[1][2], g[2][2]
            ra, rb = ROLE_OF.get(a, a), ROLE_OF.get(b, b)
            if ra != rb:
                good = False
            fields.add(ra)
        rep.ob('two regions are equal iff bytes, rate, width and channels are all equal', good and fields == {'data', 'sampling_rate', 'sample_width', 'channels'}, W(l.node), 'AudioRegion.__eq__:fields',
               'compares %s' % sorted(fields), sample=dict(op='==', compares=sorted(fields)))
    # ---------------------------------------------------------------- immutability
    deco = [d for d in cls.decorator_list if isinstance(d, ast.Call) and isinstance(d.func, ast.Name) and d.func.id == 'dataclass']
    frozen = any(any(k.arg == 'frozen' and isinstance(k.value, ast.Constant) and k.value.value is True for k in d.keywords) for d in deco)
    rep.ob('AudioRegion is a frozen dataclass (regions are immutable)', frozen, W(cls), 'AudioRegion:frozen')
    nset = 0
    for mod, tree in repo.trees.items():
        for n in ast.walk(tree):
            is_ref = isinstance(n, ast.Attribute) and n.attr == '__setattr__' and isinstance(n.ctx, ast.Load) and not (isinstance(getattr(n, '_parent', None), ast.Call) and n._parent.func is n)
            if is_ref or (isinstance(n, ast.Call) and ((isinstance(n.func, ast.Attribute) and n.func.attr == '__setattr__') or (isinstance(n.func, ast.Name) and n.func.id == 'setattr'))):
                # (a call of the bypass, or a reference to it kept for later: put = partial(object.__setattr__, self))
                # enclosing function / class
                p = n
                fn = cl = None
                while getattr(p, '_parent', None) is not None:
                    p = p._parent
                    if isinstance(p, ast.FunctionDef) and fn is None:
                        fn = p
                    if isinstance(p, ast.ClassDef) and cl is None:
                        cl = p
                nset += 1
                inside = mod == 'core' and cl is not None and cl.name == 'AudioRegion' and fn is not None and fn.name == '__post_init__'
                if not inside and mod == 'core' and cl is not None and cl.name == 'AudioRegion' and fn is not None and fn.name.startswith('_'):
                    # a private helper of the class that is reachable only from __post_init__
                    callers = set()
                    for m2, t2 in repo.trees.items():
                        for f2 in ast.walk(t2):
                            if isinstance(f2, ast.FunctionDef) and f2 is not fn and any(isinstance(x, ast.Attribute) and x.attr == fn.name for x in ast.walk(f2)):
                                callers.add(f2.name)
                    inside = callers == {'__post_init__'}
                own = cl is not None and cl.name != 'AudioRegion' and n.args and isinstance(n.args[0], ast.Name) and n.args[0].id == 'self' and False
                meta = cl is not None and cl.name == '_AudioRegionMetadata'
                rep.ob('the frozen-dataclass bypass (object.__setattr__) is used only inside AudioRegion.__post_init__', inside or meta, cx.where(mod, n), '%s.%s:setattr' % (cl.name if cl else mod, fn.name if fn else '?'),
                       'setattr in %s.%s' % (cl.name if cl else mod, fn.name if fn else '?'))
    rep.floor('object.__setattr__ sites', nset, 1)
    ef = Effects(cx.model)
    for name in ('__add__', '__radd__', '__mul__', '__rmul__', '__truediv__', 'join', '__getitem__', '__eq__', '__len__', '__bytes__', 'numpy', 'split') + ((checker.name,) if checker else ()):
        r = cx.model.find_method('core', cls, name)
        if not r:
            continue
        eff = ef.transitive(r[0], r[1], r[2])
        wr = sorted(e for e in eff if e[0] in ('self', 'param', 'global') or (e[0] == 'setattr' and 'self' not in e[1]))
        wr = [e for e in wr if not (e[0] == 'setattr')]       # __post_init__ of the NEW region sets its own derived fields
        rep.ob('%s writes no field of its operands and no module state' % name, not wr, cx.where(r[0], r[2]), 'AudioRegion.%s:writes' % name, 'may write %s' % wr, sample=dict(method=name, writes=wr))
    # ---------------------------------------------------------------- whole-sample check at construction
    pl = cx.leaves('core', 'AudioRegion.__post_init__')
    okall = all(l.outcome == 'raise' or any(e[0] == 'call' and e[1][0] == 'call' and e[1][1] == ('g', 'io', 'check_audio_data') and e[4] == 0 and e[1][2][:1] == (('attr', ('self',), 'data'),) for e in l.effects) for l in pl)
    rep.ob('construction rejects data that is not a whole number of samples (check_audio_data(self.data, ...) unconditionally)', okall, W(cx.fn('core', 'AudioRegion.__post_init__')), 'AudioRegion.__post_init__:check_audio_data')
    # ---------------------------------------------------------------- make_silence
    sl = cx.leaves('core', 'make_silence')
    for l in sl:
        if l.outcome != 'return':
            continue
        v = l.value
        from ..facts import ctor_fields
        d = ctor_fields(cx, v).get('data') if v[0] == 'call' else None
        nzero = P.prod(P.call('round', P.prod(P.param('duration'), P.role('sampling_rate'))), P.role('sample_width'), P.role('channels'))
        ok = d is not None and (P.prod(P.const(b'\x00'), nzero)(d) or P.call('bytes', nzero)(d) or P.call('bytearray', nzero)(d))
        rep.ob('make_silence(d) holds round(d * rate) all-zero samples (x width x channels zero bytes)', ok, W(l.node), 'make_silence:data', 'data is %s' % (show(d)[:140] if d else None), sample=dict(op='make_silence', data=show(d)[:120] if d else None))
    # ---------------------------------------------------------------- division
    dl = cx.leaves('core', 'AudioRegion.__truediv__')
    dfn = cx.fn('core', 'AudioRegion.__truediv__')
    dn = ('p', dfn.args.args[1].arg)
    tguards = [l for l in dl if l.outcome == 'raise']
    # every divisor that is not a positive int is taken through the conditions on n of every path: each path it can take raises TypeError
    from ..semantic import evaluator as _ev17
    from ..termeval import NotEvaluable as _NE17
    badpath = None
    for bad in (1.5, 'a', None, 0, -1, -3, 0.0, 2.0):
        took = 0
        for l in dl:
            consistent = True
            for ct, tr, _ in l.conds:
                if not any(x == dn for x in walk(ct)):
                    continue
                try:
                    e_ = _ev17({dn: bad})
                    got = e_.ev(ct)
                except _NE17:
                    continue
                if e_.leaves:
                    continue
                if bool(got) != tr:
                    consistent = False
                    break
            if consistent:
                took += 1
                if not (l.outcome == 'raise' and exc_name(l) == 'TypeError') and badpath is None:
                    badpath = (l, 'n = %r can take a path that %s' % (bad, 'raises %s' % exc_name(l) if l.outcome == 'raise' else 'does not raise'))
        if not took and badpath is None:
            badpath = (None, 'no path applies to n = %r' % (bad,))
    rep.ob('dividing by a non-int or non-positive n raises TypeError', badpath is None and len(tguards) >= 1, W(badpath[0].node) if badpath and badpath[0] is not None and badpath[0].node is not None else W(dfn), 'AudioRegion.__truediv__:guards',
           badpath[1] if badpath else 'raising paths: %d' % len(tguards), loop_rule=True)
    # every positive int divisor is accepted: the conditions of the raising paths that mention n are evaluated for n = 1, 2, 7
    from ..semantic import evaluator, Undecided
    from ..termeval import NotEvaluable
    try:
        for nv in (1, 2, 7):
            for l in tguards:
                rel = [(ct, tr) for ct, tr, _ in l.conds if any(x == dn for x in walk(ct))]
                if len(rel) != len(l.conds):
                    continue          # raises for a reason that is not only about n
                takes = True
                for ct, tr in rel:
                    ev_ = evaluator({dn: nv})
                    got = ev_.ev(ct)
                    if ev_.leaves:
                        raise Undecided('condition %s depends on more than n' % show(ct)[:60])
                    if bool(got) != tr:
                        takes = False
                rep.ob('dividing by a positive int is accepted (n = %d)' % nv, not takes, W(l.node) if l.node is not None else W(dfn), 'AudioRegion.__truediv__:rejects-%d' % nv,
                       'region / %d raises %s under %s' % (nv, exc_name(l), [(show(c)[:40], t) for c, t in rel]))
    except (Undecided, NotEvaluable) as exc:
        rep.unknown('AudioRegion.__truediv__: guard on n not evaluable (%s)' % exc)
    nloop = 0
    for l in dl:
        ends = [n for n in l.notes if isinstance(n, tuple) and n[0] == 'loop-end-env']
        if not ends:
            continue
        nloop += 1
        envend = ends[-1][2]
        apps = [e for e in l.effects if e[0] == 'call' and e[1][0] == 'call' and e[1][1][0] == 'attr' and e[1][1][2] == 'append']
        pieces = [e for e in apps if e[1][2] and e[1][2][0][0] == 'sub' and e[1][2][0][1] == ('self',) and e[1][2][0][2][0] == 'slice']
        rep.ob('each piece is a sample slice self[onset:offset] of the dividend', len(pieces) == 1, W(dfn), 'AudioRegion.__truediv__:piece', 'appends: %s' % [show(e[1])[:80] for e in apps], loop_rule=True)
        if len(pieces) != 1:
            continue
        sl_ = pieces[0][1][2][0][2]
        on, off = sl_[1], sl_[2]
        nxt = [k for k, v in envend.items() if v == off and on is not None and on[0] == 'loopvar' and on[1] == k]
        rep.ob('pieces are contiguous: the next piece starts where this one ends', bool(nxt), W(pieces[0][3]), 'AudioRegion.__truediv__:contiguous', 'slice [%s : %s]; loop variables at the end of the iteration: %s' % (show(on)[:40] if on else None, show(off)[:80] if off else None, {k: show(v)[:50] for k, v in envend.items() if v}), loop_rule=True)
        if on is None or on[0] != 'loopvar' or len(on) != 4:
            rep.unknown('AudioRegion.__truediv__: onset of the pieces (%s) is not a loop variable with an initial value' % (show(on)[:40] if on else None))
        else:
            rep.ob('the first piece starts at sample 0', on[3] == ('c', 0), W(pieces[0][3]), 'AudioRegion.__truediv__:first-onset', 'onset initial value %s' % show(on[3]), loop_rule=True)
        nlen = ('call', ('b', 'len'), (('self',),), ())
        q = P.Pat(lambda t: (t[0] == 'sub' and t[1][0] == 'call' and t[1][1] == ('b', 'divmod') and t[1][2] == (nlen, dn) and t[2] == ('c', 0)) or t == ('bin', '//', nlen, dn), 'len // n')
        bit = P.Pat(lambda t: t in (('c', 0), ('c', 1)) or (t[0] == 'ite' and {t[2], t[3]} <= {('c', 0), ('c', 1)}) or (t[0] == 'call' and t[1] == ('b', 'int') and len(t[2]) == 1 and t[2][0][0] == 'cmp'), '0|1')
        onp = P.same(on) if on else P.ANY
        if off is None:
            rep.unknown('AudioRegion.__truediv__: piece end not found')
        else:
            okq = P.summ(onp, q)(off) or P.summ(onp, q, bit)(off)
            uses_q = any(q(x) for x in walk(off))
            if okq or uses_q:
                rep.ob('piece length is len // n or len // n + 1', okq, W(pieces[0][3]), 'AudioRegion.__truediv__:piece-length', 'offset is %s' % show(off)[:120], sample=dict(op='/', piece='self[%s : %s]' % (show(on)[:30], show(off)[:80])), loop_rule=True)
            else:
                rep.unknown('AudioRegion.__truediv__: piece end %s is not of the form onset + len//n (+1)' % show(off)[:80])
        # the loop stops when the data is used up: min(n, len) pieces, no empty trailing pieces
        ent = [e for e in l.effects if e[0] == 'loop-enter']
        if ent:
            t = ent[-1][1]
            node = ent[-1][3]
            if isinstance(node, ast.While):
                g = norm_cmp(t, True)
                ok = g is not None and ((g[0] == '<' and g[1] == on and g[2] == nlen) or (g[0] == '>' and g[1] == nlen and g[2] == on))
                rep.ob('division yields min(n, len) pieces: the loop runs while samples remain (onset < len)', ok, W(node), 'AudioRegion.__truediv__:loop-bound', 'loop condition %s' % show(t)[:80], loop_rule=True)
            else:
                ok = t[0] == 'call' and t[1] == ('b', 'range') and len(t[2]) == 1 and t[2][0][0] == 'call' and t[2][0][1] == ('b', 'min') and set(t[2][0][2]) == {dn, nlen}
                plain = t[0] == 'call' and t[1] == ('b', 'range') and t[2] == (dn,)
                # decided by values: (length, divisor) pairs are taken through the conditions of the path; where the path applies, the bound of
                # the loop must be min(divisor, length) (a path reached only when len // n > 0 may loop n times)
                from ..semantic import evaluator as _ev17
                from ..termeval import NotEvaluable as _NE17
                verdict = None
                if t[0] == 'call' and t[1] == ('b', 'range') and len(t[2]) == 1:
                    verdict = True
                    applied = 0
                    for L_, N_ in ((0, 1), (1, 1), (3, 5), (5, 3), (4, 4), (7, 2), (2, 7), (0, 3), (9, 4)):
                        assign = {nlen: L_, dn: N_}
                        try:
                            takes = True
                            for ct, tr, _ in l.conds[:ent[-1][4] if len(ent[-1]) > 4 and isinstance(ent[-1][4], int) else len(l.conds)]:
                                e_ = _ev17(assign)
                                try:
                                    got = e_.ev(ct)
                                except _NE17:
                                    continue
                                if e_.leaves:
                                    continue
                                if bool(got) != tr:
                                    takes = False
                                    break
                            if not takes:
                                continue
                            e_ = _ev17(assign)
                            nb = e_.ev(t[2][0])
                            if e_.leaves:
                                verdict = None
                                break
                            applied += 1
                            if nb != min(N_, L_):
                                verdict = (L_, N_, nb)
                                break
                        except _NE17:
                            verdict = None
                            break
                    if verdict is True and not applied:
                        verdict = None
                if verdict is None:
                    if ok or plain:
                        rep.ob('division yields min(n, len) pieces: the loop is bounded by the number of samples, not only by n', ok, W(node), 'AudioRegion.__truediv__:loop-bound',
                               'loop over %s: for n > len this produces n pieces with empty trailing regions' % show(t)[:60], loop_rule=True)
                    else:
                        rep.unknown('AudioRegion.__truediv__: loop %s not understood' % show(t)[:60])
                else:
                    rep.ob('division yields min(n, len) pieces: the loop is bounded by the number of samples, not only by n', verdict is True, W(node), 'AudioRegion.__truediv__:loop-bound',
                           'loop over %s: %s' % (show(t)[:60], '' if verdict is True else 'a region of %d samples divided by %d is cut into %r pieces' % verdict), loop_rule=True)
    rep.floor('__truediv__ loop paths', nloop, 1)
    check_roles(cx, rep, lambda p: p['func'].startswith('AudioRegion.') or p['func'] in ('make_silence', 'split_and_join_with_silence'), floor=30)
    rep.explanation = ('Operator provenance decided from terms on every path: a+b = AudioRegion(a.data + b.data, same parameters) with TypeError for non-regions and the compatibility check on every returning path; '
                       'join = self.data.join(o.data for every checked o), each element checked in the iteration that hands it over; the compatibility check covers rate AND width AND channels (like with like) and raises '
                       'AudioParameterError; a*n = data*n with TypeError for non-int; == compares {data, rate, width, channels}; frozen dataclass and object.__setattr__ only inside __post_init__ '
                       '(who-may-call census over the package); effect analysis: no operator writes a field of an operand or module state; check_audio_data(self.data, ...) unconditionally at construction; '
                       'make_silence = b"\\0" * (round(d*rate)*width*channels); division: TypeError guards, pieces are contiguous slices self[onset:offset] from 0 with length len//n or len//n+1. '
                       'Positive divisors are accepted (guard conditions evaluated for n = 1, 2, 7). NOT decided: the piece count min(n, len) and the +-1 distribution (loop arithmetic with a product n*q outside the linear domain).')
    rep.assumptions = ['bytes +, * and join have their Python semantics', 'C16 (slicing) for the pieces of a division']
