"""C20 -- results never depend on an object's earlier use (DESIGN 4.20)"""
import ast

from ..facts import Ctx
from ..effects import Effects
from ..tokrun import feed
from ..symex import show, walk, term_name
from .. import pat as P
from ._split import SplitWiring

LEVEL = 'other'

CONTROL_SNIPPET = '''
_CACHE = {}
def f(x, acc=[]):
    global _COUNT
    _COUNT = 1
    acc.append(x)
    _CACHE[x] = 1
    return acc
'''


def mutable_defaults(fn):
    out = []
    for d in list(fn.args.defaults) + [d for d in fn.args.kw_defaults if d is not None]:
        if isinstance(d, (ast.List, ast.Dict, ast.Set)) or (isinstance(d, ast.Call) and isinstance(d.func, ast.Name) and d.func.id in ('list', 'dict', 'set', 'bytearray')):
            out.append(d)
    return out


def module_state_findings(tree, modname, model=None):
    """(kind, name, lineno) for module-global writes and mutable defaults inside functions of a module tree"""
    out = []
    consts = {t.id for n in tree.body if isinstance(n, ast.Assign) for t in n.targets if isinstance(t, ast.Name)}
    for fn in [n for n in ast.walk(tree) if isinstance(n, (ast.FunctionDef, ast.AsyncFunctionDef))]:
        for d in mutable_defaults(fn):
            out.append(('mutable default argument', fn.name, d.lineno))
        globs = set()
        for n in ast.walk(fn):
            if isinstance(n, ast.Global):
                globs |= set(n.names)
        locals_ = {a.arg for a in fn.args.args + fn.args.kwonlyargs}
        for n in ast.walk(fn):
            if isinstance(n, ast.Name) and isinstance(n.ctx, ast.Store):
                if n.id in globs:
                    out.append(('write to module global', '%s in %s' % (n.id, fn.name), n.lineno))
                else:
                    locals_.add(n.id)
        for n in ast.walk(fn):
            tgt = None
            if isinstance(n, (ast.Assign, ast.AugAssign)):
                for t in (n.targets if isinstance(n, ast.Assign) else [n.target]):
                    if isinstance(t, (ast.Subscript, ast.Attribute)):
                        r = t
                        while isinstance(r, (ast.Subscript, ast.Attribute)):
                            r = r.value
                        if isinstance(r, ast.Name) and r.id in consts and r.id not in locals_:
                            out.append(('write into module-level object', '%s in %s' % (r.id, fn.name), n.lineno))
            if isinstance(n, ast.Call) and isinstance(n.func, ast.Attribute) and n.func.attr in ('append', 'update', 'add', 'setdefault', 'extend', 'pop', 'clear', 'insert'):
                r = n.func.value
                while isinstance(r, (ast.Subscript, ast.Attribute)):
                    r = r.value
                if isinstance(r, ast.Name) and r.id in consts and r.id not in locals_:
                    out.append(('mutation of module-level object', '%s in %s' % (r.id, fn.name), n.lineno))
    return out


def _stateful(cx, mod, cls):
    """the methods (other than the constructor) through which instances of the class change: they assign a field of self"""
    out = []
    try:
        chain = cx.model.mro(mod, cls)
    except ValueError:
        chain = [(mod, cls)]
    for m_, c_ in chain:
        for fn in c_.body:
            if not isinstance(fn, ast.FunctionDef) or fn.name in ('__init__', '__new__', '__post_init__') or not fn.args.args:
                continue
            me = fn.args.args[0].arg
            for n in ast.walk(fn):
                tg = n.targets if isinstance(n, ast.Assign) else ([n.target] if isinstance(n, (ast.AugAssign, ast.AnnAssign)) else [])
                for t in tg:
                    for x in ast.walk(t):
                        if isinstance(x, ast.Attribute) and isinstance(x.value, ast.Name) and x.value.id == me and isinstance(x.ctx, ast.Store):
                            out.append('%s.%s' % (c_.name, fn.name))
    return sorted(set(out))


def check_no_memoised_stateful(cx, rep):
    """a function whose result is remembered across calls (functools.lru_cache / cache) does not return an object that changes while
    it is used (a tokenizer, a reader, a source, a worker): two users that are alive at the same time -- two split() generators
    consumed alternately -- would drive ONE automaton, and each would see what the other left"""
    CACHES = ('lru_cache', 'cache')
    n = 0
    for mod in cx.code_mods():
        tree = cx.model.mods[mod]['tree']
        for fn in ast.walk(tree):
            if not isinstance(fn, (ast.FunctionDef, ast.AsyncFunctionDef)):
                continue
            n += 1
            decos = []
            for d in fn.decorator_list:
                d0 = d.func if isinstance(d, ast.Call) else d
                decos.append(d0.id if isinstance(d0, ast.Name) else (d0.attr if isinstance(d0, ast.Attribute) else ''))
            if not any(d in CACHES for d in decos):
                continue
            for r in ast.walk(fn):
                if not (isinstance(r, ast.Return) and isinstance(r.value, ast.Call)):
                    continue
                f_ = r.value.func
                nm = f_.id if isinstance(f_, ast.Name) else (f_.attr if isinstance(f_, ast.Attribute) else None)
                if nm is None:
                    continue
                h = cx.model.home(mod, nm)
                if h is None or not isinstance(h[1], ast.ClassDef):
                    continue
                muts = _stateful(cx, h[0], h[1])
                rep.ob('no memoised function hands out a shared instance of a class whose objects change while they are used', not muts, cx.where(mod, r), '%s:%s:memoised-%s' % (mod, fn.name, nm),
                       '%s is cached (%s) and returns %s(...), whose state is changed by %s' % (fn.name, [d for d in decos if d in CACHES], nm, muts[:4]))
    rep.floor('functions scanned for memoised constructors', n, 50)


def check(repo, rep):
    cx = Ctx(repo)
    rep.cx = cx
    # ---------------------------------------------------------------- (a) taint of per-run tokenizer state from an arbitrary earlier run
    d = feed(rep, repo, 'C20', 'general')
    ntaint = sum(1 for o in rep.obligations)
    # the finalisation of a token generator (a `finally` / `with` exit around its yields) runs when the generator is closed or
    # collected -- for an abandoned generator that is at an arbitrary moment of a LATER run of the same tokenizer: it must not write
    # the tokenizer's state
    tkc = cx.cls('core', 'StreamTokenizer', required=False)
    ngen = 0
    if tkc is not None:
        stored_by = {}
        for fn in tkc.body:
            if isinstance(fn, ast.FunctionDef) and fn.args.args:
                me = fn.args.args[0].arg
                stored_by[fn.name] = [t for n in ast.walk(fn) for tg in (n.targets if isinstance(n, ast.Assign) else ([n.target] if isinstance(n, (ast.AugAssign, ast.AnnAssign)) else []))
                                      for t in ast.walk(tg) if isinstance(t, ast.Attribute) and isinstance(t.value, ast.Name) and t.value.id == me and isinstance(t.ctx, ast.Store)]
        for fn in tkc.body:
            if not (isinstance(fn, ast.FunctionDef) and any(isinstance(x, (ast.Yield, ast.YieldFrom)) for x in ast.walk(fn))):
                continue
            ngen += 1
            me = fn.args.args[0].arg if fn.args.args else 'self'
            for t in ast.walk(fn):
                if isinstance(t, ast.Try) and t.finalbody and any(isinstance(x, (ast.Yield, ast.YieldFrom)) for b in t.body for x in ast.walk(b)):
                    writes = [x for b in t.finalbody for x in ast.walk(b) if isinstance(x, ast.Attribute) and isinstance(x.value, ast.Name) and x.value.id == me and isinstance(x.ctx, ast.Store)]
                    calls = [x.func.attr for b in t.finalbody for x in ast.walk(b) if isinstance(x, ast.Call) and isinstance(x.func, ast.Attribute) and isinstance(x.func.value, ast.Name)
                             and x.func.value.id == me and stored_by.get(x.func.attr)]
                    rep.ob('the finalisation of the token generator does not write the tokenizer\'s state (it runs whenever an abandoned generator is closed or collected, possibly in the middle of a later run)',
                           not writes and not calls, cx.where('core', t.finalbody[0]), 'StreamTokenizer.%s:finally-writes-state' % fn.name,
                           'finally writes %s' % sorted({w.attr for w in writes} | set(calls)))
    rep.extra['token_generators_scanned_for_finalisers'] = ngen
    # every run starts from an arbitrary object state; the other tokenizer obligations (C01-C04) were proved from that same start
    for r in d['runs']:
        if 'error' in r or r.get('c04'):
            continue
        tainted_keys = {k: v for k, v in r.get('taint', {}).items() if v}
        rep.ob('tokenizer invariants are established from an ARBITRARY previous object state (mode=%s)' % r['mode'], True, 'auditok/core.py:%s' % r.get('structure', {}).get('loop_line', '?'),
               sample=dict(run='mode=%s' % r['mode'], fields_still_holding_old_values_per_state=tainted_keys,
                           meaning='these fields are written before being read in those states (no obligation reads them)'))
        nob = sum(1 for o in r['obligations'] if o['ok'])
        rep.extra.setdefault('tokenizer_obligations_proved_from_arbitrary_start', {})['mode=%s' % r['mode']] = nob
    # ---------------------------------------------------------------- (b) the energy validator is pure
    ef = Effects(cx.model)
    r = cx.method('util', 'AudioEnergyValidator', 'is_valid')
    eff = ef.transitive(r[0], r[1], r[2])
    W = cx.where('util', r[2])
    writes = sorted(e for e in eff if e[0] in ('self', 'global', 'callee-self', 'setattr', 'param'))
    rep.ob('AudioEnergyValidator.is_valid and everything it calls write no object, module or argument state', not writes, W, 'AudioEnergyValidator.is_valid:writes',
           'is_valid may write: %s' % writes, sample=dict(function='AudioEnergyValidator.is_valid', transitive_writes=writes))
    # the selector closures created by make_channel_selector are pure too
    mcs = cx.fn('util', 'make_channel_selector')
    eff2 = ef.transitive('util', None, mcs)
    w2 = sorted(e for e in eff2 if e[0] in ('global', 'setattr', 'param'))
    rep.ob('make_channel_selector (and the selector it returns) writes no state', not w2, cx.where('util', mcs), 'make_channel_selector:writes', 'writes: %s' % w2)
    for fname in ('to_array', 'calculate_energy'):
        f = cx.fn('signal', fname)
        e3 = sorted(e for e in ef.transitive('signal', None, f) if e[0] in ('global', 'setattr', 'param'))
        rep.ob('signal.%s writes no module state and does not modify its argument' % fname, not e3, cx.where('signal', f), 'signal.%s:writes' % fname, 'writes: %s' % e3)
    # fields of the validator are written only by its constructor
    vd = cx.field_defs('util', 'AudioEnergyValidator')
    for f, defs in vd.items():
        bad = [x for x in defs if x['method'] != '__init__']
        rep.ob('validator field %s is written only by the constructor' % f, not bad, cx.where('util', (bad or defs)[0]['node']), 'AudioEnergyValidator.%s:written-after-init' % f,
               'written in %s' % [x['method'] for x in bad])
    # ---------------------------------------------------------------- (c) no module-level mutable state, no mutable defaults
    total = 0
    for mod, tree in repo.trees.items():
        if mod in ('plotting', 'dataset', '__init__'):
            continue
        fs = module_state_findings(tree, mod)
        total += len(fs)
        for kind, name, line in fs:
            rep.ob('no function writes module-level state / uses a mutable default', False, 'auditok/%s.py:%d' % (mod, line), '%s:%s' % (mod, name), '%s: %s' % (kind, name))
        nfun = sum(1 for n in ast.walk(tree) if isinstance(n, ast.FunctionDef))
        rep.ob('no function of module %s writes module-level state or has a mutable default (%d functions)' % (mod, nfun), not fs, 'auditok/%s.py:1' % mod)
    ctl = module_state_findings(ast.parse(CONTROL_SNIPPET), 'control')
    kinds = {k for k, _, _ in ctl}
    if not {'mutable default argument', 'write to module global', 'write into module-level object'} <= kinds:
        rep.unknown('positive control of the module-state rule did not fire (%s)' % sorted(kinds))
    rep.extra['positive_control_module_state'] = sorted(kinds)
    # ---------------------------------------------------------------- (c2) no memoised constructor of a stateful object
    check_no_memoised_stateful(cx, rep)
    # ---------------------------------------------------------------- (d) split() builds fresh objects per call
    sw = SplitWiring(cx)
    for dd in sw.paths:
        tag = 'split[%s]' % ('AudioReader input' if dd['reader_branch'] else 'other input')
        tok = dd['tok']
        if tok is None:
            rep.unknown('split(): the tokenizer feeding the returned iterable was not identified (%s)' % (dd['kind'] or show(dd['leaf'].value)[:60]))
            continue
        ok = tok is not None and tok[0] == 'call' and tok[1][0] == 'g' and cx.model.lookup(tok[1]) and cx.model.lookup(tok[1])[0] == 'class'
        rep.ob('split() constructs a new tokenizer inside the call', bool(ok), dd['where'], tag + ':fresh-tokenizer', 'tokenizer is %s' % (show(tok)[:80] if tok else None))
        src = dd['src']
        if not dd['reader_branch'] and src is not None:
            ok = src[0] == 'call' and src[1][0] == 'g' and src[1][2] == 'AudioReader'
            rep.ob('split() constructs a new reader for non-reader inputs', ok, dd['where'], tag + ':fresh-reader', 'source is %s' % show(src)[:80])
            # an AudioRegion input is copied to bytes
            if any(c[0][0] == 'call' and c[0][1] == ('b', 'isinstance') and term_name(c[0][2][1]).endswith('AudioRegion') and c[1] for c in dd['leaf'].conds):
                a0 = src[2][0] if src[2] else None
                rep.ob('an AudioRegion input is handed over as its immutable bytes', a0 is not None and (P.call('bytes', P.param('input'))(a0) or P.attr(P.param('input'), 'data')(a0)), dd['where'], tag + ':region-bytes',
                       'reader input is %s' % (show(a0)[:80] if a0 else None))
    # ---------------------------------------------------------------- (e) BufferAudioSource.close() returns to the start
    r = cx.method('io', 'BufferAudioSource', 'close')
    eff = ef.transitive(r[0], r[1], r[2])
    cl = cx.leaves_of(r[0], r[1], r[2])
    pos_fields = [f for f, defs in cx.field_defs('io', 'BufferAudioSource').items() if any(x['method'] == 'read' for x in defs)]
    ok_all = True
    for l in cl:
        calls = [e[1] for e in l.effects if e[0] == 'call']
        stores = [e for e in l.effects if e[0] == 'store']
        rew = any(P.method(P.Pat(lambda t: t == ('self',), 'self'), 'rewind')(c) for c in calls)
        pos0 = any(s_[1][0] == 'attr' and s_[1][1] == ('self',) and s_[1][2] in (['position'] + pos_fields) and s_[2] == ('c', 0) for s_ in stores)
        ok_all = ok_all and (rew or pos0)
    rep.ob('BufferAudioSource.close() rewinds on every path (reopening restarts at the beginning)', ok_all, cx.where('io', r[2]), 'BufferAudioSource.close:rewind')
    rw = cx.method('io', 'BufferAudioSource', 'rewind')
    okr = False
    for l in cx.leaves_of(rw[0], rw[1], rw[2]):
        for e in l.effects:
            if e[0] == 'store' and e[1][0] == 'attr' and e[1][1] == ('self',) and e[1][2] in (['position'] + pos_fields) and e[2] == ('c', 0):
                okr = True
    rep.ob('BufferAudioSource.rewind() sets the position to 0', okr, cx.where('io', rw[2]), 'BufferAudioSource.rewind:position-0')
    rep.explanation = ('(a) The tokenizer analysis starts from an ARBITRARY object state (every per-run field holds any value left by a complete, partial or abandoned earlier run) and runs the '
                       're-initialisation code symbolically: a field still holding an old value is tainted; no branch condition, slice bound or delivered value may read a tainted field or buffer, '
                       'and all C01-C04 obligations are proved from that same start, so the tokens of a reused tokenizer are those of a fresh one. (b) effect analysis: the energy validator, the channel '
                       'selector and signal.to_array/calculate_energy write no object, module or argument state; validator fields are written only by the constructor. (c) census over all functions of the '
                       'package: no write to module-level state, no mutable default argument (a positive-control snippet must be flagged on every run). (d) split() constructs tokenizer and reader inside the '
                       'call and copies a region to bytes. (e) BufferAudioSource.close() reaches rewind()/position = 0 on every path.')
    rep.assumptions = ['numpy functions used by the validator are pure', 'a recorder rewound between splits replays identically (C19)']
    rep.trusted_base = ["the analyser's model of the Python subset used by StreamTokenizer and its own Fourier-Motzkin core"]
