"""C08 -- detection is online: bounded latency, lazy reading, prefix-consistent output (DESIGN 4.8)"""
import ast

from ..facts import Ctx, split_ites
from ..tokrun import feed
from ..symex import show, walk, term_name
from .. import pat as P
from ._split import SplitWiring

LEVEL = 'other'


def check(repo, rep):
    cx = Ctx(repo)
    rep.cx = cx
    # ---------------------------------------------------------------- E3 obligations (one read per iteration, same-iteration hand-over, eos once, latency)
    d = feed(rep, repo, 'C08', 'general')
    gen_name = None
    for r in d['runs']:
        if 'structure' in r:
            gen_name = r['structure']['generator']
    # ---------------------------------------------------------------- tokenize(): three thin wrappers over the same generator
    tk = cx.fn('core', 'StreamTokenizer.tokenize')
    lv = split_ites(cx.leaves('core', 'StreamTokenizer.tokenize'))
    W = lambda n: cx.where('core', n)
    isgen = lambda t: t[0] == 'call' and t[1][0] == 'attr' and t[1][1] == ('self',) and (gen_name is None or t[1][2] == gen_name) and len(t[2]) >= 1 and t[2][0] == ('p', 'data_source')
    modes = {'callback': 0, 'generator': 0, 'list': 0}
    for l in lv:
        gens = [e for e in l.effects if e[0] == 'call' and isgen(e[1])]
        where = W(l.node) if l.node is not None else W(tk)
        if not gens and l.outcome != 'raise':
            # the tokens of this path do not come from the generator the tokenizer analysis covered (a second driver loop, a helper):
            # what that code delivers was not decided
            other = sorted({e[1][1][2] for e in l.effects if e[0] == 'call' and e[1][0] == 'call' and e[1][1][0] == 'attr' and e[1][1][1] == ('self',) and ('p', 'data_source') in e[1][2]})
            modes['uncovered'] = modes.get('uncovered', 0) + 1
            # what CAN be decided about such a second driver: the end of the stream is the value None -- a frame that is merely falsy
            # (an empty block, 0, an empty array) is a frame
            if not modes.get('uncovered_scanned'):
                modes['uncovered_scanned'] = 1
                tcls = cx.cls('core', 'StreamTokenizer')
                todo, seen_ = ['tokenize'], set()
                while todo:
                    mn_ = todo.pop()
                    r_ = cx.model.find_method('core', tcls, mn_)
                    if r_ is None or mn_ in seen_ or mn_ == gen_name:
                        continue
                    seen_.add(mn_)
                    fn_ = r_[2]
                    todo += [c_.func.attr for c_ in ast.walk(fn_) if isinstance(c_, ast.Call) and isinstance(c_.func, ast.Attribute) and isinstance(c_.func.value, ast.Name) and c_.func.value.id == 'self']
                    frames_ = {t_.id for a_ in ast.walk(fn_) if isinstance(a_, (ast.Assign, ast.NamedExpr)) and isinstance(a_.value, ast.Call) and isinstance(a_.value.func, ast.Attribute) and a_.value.func.attr == 'read'
                               for t_ in (a_.targets if isinstance(a_, ast.Assign) else [a_.target]) if isinstance(t_, ast.Name)}
                    for n_ in ast.walk(fn_):
                        if isinstance(n_, (ast.While, ast.If)):
                            t_ = n_.test
                            t_ = t_.operand if isinstance(t_, ast.UnaryOp) and isinstance(t_.op, ast.Not) else t_
                            if isinstance(t_, ast.Name) and t_.id in frames_:
                                rep.ob('a driver loop outside the token generator ends the stream on None only (a falsy frame is a frame)', False, cx.where(r_[0], n_), 'StreamTokenizer.%s:falsy-frame-ends-stream' % mn_,
                                       'the value read from the source is tested by truth value: %s' % ast.unparse(n_.test)[:60])
            rep.unknown('StreamTokenizer.tokenize: a path serves its caller without the token generator%s (through %s); that code is not covered by the tokenizer analysis' % (' ' + gen_name if gen_name else '', other or 'nothing recognised'))
            continue
        rep.ob('tokenize() creates the token generator exactly once per call', len({id(e[3]) for e in gens}) == 1, where, 'StreamTokenizer.tokenize:one-generator',
               '%d generator creations on a path' % len(gens))
        if not gens:
            continue
        g = gens[0][1]
        cb = [c for c in l.conds if c[0] == ('p', 'callback') or c[0] == ('cmp', 'is not', ('p', 'callback'), ('c', None))]
        ge = [c for c in l.conds if c[0] == ('p', 'generator')]
        if cb and cb[0][1]:
            # callback mode: loop over the generator calling callback(*token); nothing else consumes or filters
            loops = [e for e in l.effects if e[0] == 'loop-enter' and e[1] == g]
            skipped = [e for e in l.effects if e[0] == 'loop-skip' and e[1] == g]
            if skipped and not loops:
                continue     # the zero-iteration variant of the same path
            modes['callback'] += 1
            if not loops and any(e[0] == 'call' and e[1][0] == 'call' and e[1][1] == ('b', 'next') and e[1][2][:1] == (g,) for e in l.effects):
                # the generator is stepped by hand (token = next(gen, sentinel) ... in a while loop): which tokens reach the callback
                # is not followed
                rep.unknown('StreamTokenizer.tokenize: callback mode steps the token generator with next(); the hand-over of each token to the callback is not followed')
                continue
            calls = [e for e in l.effects if e[0] == 'call' and e[1][0] == 'call' and e[1][1] == ('p', 'callback')]
            el = ('elem', g)
            ok = bool(loops) and len(calls) == 1 and not calls[0][1][3] and calls[0][1][2] in ((('star', el),), tuple(('sub', el, ('c', i)) for i in range(3)))
            conds_in_loop = [c for c in l.conds if any(x == ('elem', g) for x in walk(c[0]))]
            rep.ob('callback mode: callback(*token) for every token of the generator, unfiltered', ok and not conds_in_loop, where, 'StreamTokenizer.tokenize:callback-mode',
                   'callback calls on the path: %s ; conditions on the token: %s' % ([show(c[1])[:80] for c in calls], [show(c[0])[:60] for c in conds_in_loop]),
                   sample=dict(mode='callback', loop_over=show(g), call=[show(c[1])[:80] for c in calls]))
        elif ge and ge[0][1]:
            modes['generator'] += 1
            rep.ob('generator mode returns the token generator itself', l.outcome == 'return' and l.value == g, where, 'StreamTokenizer.tokenize:generator-mode', 'returns %s' % show(l.value)[:100],
                   sample=dict(mode='generator', returns=show(l.value)[:80]))
        elif l.outcome == 'return':
            modes['list'] += 1
            lv_ = l.value
            star_list = lv_ is not None and lv_[0] in ('list', 'tuple') and len(lv_[1]) == 1 and lv_[1][0] == ('star', g)       # [*gen] is list(gen)
            rep.ob('list mode returns list(token generator)', P.call('list', P.same(g))(l.value) or (star_list and lv_[0] == 'list'), where, 'StreamTokenizer.tokenize:list-mode', 'returns %s' % show(l.value)[:100],
                   sample=dict(mode='list', returns=show(l.value)[:80]))
    for k, n in modes.items():
        if k == 'uncovered' or (n == 0 and modes.get('uncovered')):
            continue                      # a mode served by code outside the generator: already reported as undecided
        rep.ob('tokenize() has a %s mode' % k, n >= 1, W(tk), 'StreamTokenizer.tokenize:missing-%s-mode' % k)
    # ---------------------------------------------------------------- split(): lazy
    sw = SplitWiring(cx)
    rep.floor('returning paths of split()', len(sw.paths), 4)
    for dd in sw.paths:
        tag = 'split[%s]' % ('AudioReader input' if dd['reader_branch'] else 'other input')
        if dd['lazy'] is None:
            rep.unknown('split(): return value not recognised: %s' % show(dd['leaf'].value)[:80])
            continue
        rep.ob('split() returns a lazy iterable over the token generator (no list/tuple/sorted)', dd['lazy'] is True, dd['where'], tag + ':lazy', 'split() returns a %s' % dd['kind'],
               sample=dict(path=tag, returns=dd['kind']))
        tc = dd.get('tokenize_call')
        if tc is None:
            rep.unknown('split(): tokenize call not found')
            continue
        kws = dict(tc[3])
        rep.ob('split() asks the tokenizer for a generator', kws.get('generator') == ('c', True) or (len(tc[2]) >= 3 and tc[2][2] == ('c', True)), dd['where'], tag + ':generator=True',
               'tokenize call: %s' % show(tc)[-120:])
        # nothing in split() itself consumes the source before returning
        for e in dd['leaf'].effects:
            if e[0] == 'call' and e[1][0] == 'call' and e[1][1][0] == 'attr' and e[1][1][2] in ('read', 'tokenize') and e[1][1][2] == 'read':
                rep.ob('split() does not read the source before returning', False, cx.where('core', e[3]), tag + ':early-read', 'split() calls %s' % show(e[1])[:80])
    # the max_read limiter must not pull more from its input than it hands on (lazy reading through the wrapper split() uses)
    from . import c10
    sub = type(rep)(rep.prop, rep.tier, rep.repo_root, rep.level)
    c10.check(repo, sub)
    for o in sub.obligations:
        if 'limiter' in o['rule']:
            rep.obligations.append(o)
    for v in sub.violations:
        if 'limiter' in v['rule'] or '_Limiter' in v['construct']:
            rep.violations.append(v)
    for u in sub.inconclusive:
        if '_Limiter' in u:
            rep.unknown(u)
    # split_and_join / list consumers are not part of the lazy path; workers iterate the generator directly (C12)
    from .c10 import check_one_inner_read
    check_one_inner_read(cx, rep)          # ... and each reader wrapper under split() passes one request on as one request
    from .c20 import check_no_memoised_stateful
    check_no_memoised_stateful(cx, rep)    # two generators alive at the same time never share one automaton
    rep.explanation = ('(1) From the tokenizer abstract interpretation (all states x inputs x 4 modes): exactly one source read per loop iteration and before any append/deliver; every token built in an '
                       'iteration is yielded in that same iteration (no stash, no deferred hand-over); after end of stream the loop is left, so end of stream is requested once; a token that is not a cut is '
                       'decided at most max(max_continuous_silence,0)+1 frames after its last frame (proved as an entailment). (2) Structural: tokenize() creates one generator and its callback / generator / '
                       'list modes are thin wrappers over it (callback(*token) unfiltered, the generator itself, list(generator)); split() returns a generator expression / map over '
                       'tokenize(source, generator=True) and does not read before returning; the max_read limiter asks its input for min(budget, size) and returns None without reading when the budget is used up. (3) Prefix consistency, as an inductive obligation stated with the end-of-stream leaves of the code itself: whenever end of stream would flush a token from an abstract state, any further frame either delivers a token with the same start or keeps the buffer (same first frame) in a state where the flush still delivers. Prefix consistency follows from determinism of the step function plus decision-time delivery (argument, DESIGN 4.8).')
    rep.assumptions = ['the consumer drives the generator; Python generator semantics (suspension at yield)']
    rep.trusted_base = ["the analyser's model of the Python subset used by StreamTokenizer and its own Fourier-Motzkin core"]
    rep.analysed['functions'] = ['core.StreamTokenizer.tokenize', 'core.StreamTokenizer.%s' % (gen_name or '?'), 'core.split']
