"""C10 -- AudioReader framing: fixed-size blocks, overlap and max_read are exact (DESIGN 4.10)"""
import ast

from ..facts import Ctx, norm_cmp, exc_name, formula, role_leaf, mul, fcall
from ..nullness import Nullness
from ..symex import show, walk, term_name, flatten_product
from .. import pat as P

LEVEL = 'other'
READER_CLASSES = ('_AudioReadingProxy', '_Recorder', '_Limiter', '_FixedSizeAudioReader', '_OverlapAudioReader', 'AudioReader', 'Recorder')


def bind_hop(call, fn):
    from ..symex import bind_call
    return bind_call(call, fn, skip_self=True).get('hop_dur')


def find_field_by_def(cx, mod, clsname, pattern, expected=None):
    """fields of a class whose (only) definitions match pattern (or are equal, as formulas, to expected(def)) -> list of names"""
    from ..termeval import equivalent
    out = []
    for f, defs in cx.field_defs(mod, clsname).items():
        if defs and all(pattern(d['value']) or (expected is not None and d['value'][0] in ('call', 'bin') and equivalent(d['value'], expected(d['value'])) is True) for d in defs):
            out.append(f)
    return out


def check_nullness(cx, rep, funcs_pred, rule='read result may be None at a dereference'):
    nl = Nullness(cx.model)
    findings = nl.check(only_mods=tuple(cx.code_mods()))
    n = 0
    for f in findings:
        if f.get('inconclusive'):
            rep.unknown('nullness: %s in %s' % (f['kind'], f['func']))
            continue
        if not funcs_pred(f):
            continue
        n += 1
        rep.violation(rule, '%s:%s' % (f['func'], f['kind']), f['where'],
                      'in %s the result of %s is %s at a dereference (%s); path: %s' % (f['func'], f['value'], 'None' if f['state'] == 'None' else 'possibly None', f['kind'], f.get('path')))
    sites = nl.read_sites
    opt = [x for x in sites if x['cls'] == 'optional']
    for x in sites:
        if funcs_pred(dict(mod=x['mod'], func=x['func'])):
            bad = any(f['func'] == x['func'] and not f.get('inconclusive') for f in findings if funcs_pred(f))
            if bad:
                rep.obligations.append(dict(rule=rule, ok=False, where='auditok/%s.py:%d' % (x['mod'], x['line'])))
            else:
                rep.ob(rule, True, 'auditok/%s.py:%d' % (x['mod'], x['line']),
                       sample=dict(read_site='%s:%d' % (x['func'], x['line']), receiver=x['receiver'], kind=x['cls'], verdict='every use of the result is guarded or passes it on'))
    return sites, opt


def small_block_guard_ok(ct, tr, is_size):
    """is the condition (ct is tr) `the block size is 0`?  decided by values: the size term inside it is given 0, 1 and 5 and the
    condition must hold exactly for 0 (whatever its spelling: == 0, < 1, not size, size falsy ...); None when not evaluable"""
    from ..semantic import evaluator
    from ..termeval import NotEvaluable
    size_terms = [x for x in walk(ct) if is_size(x)]
    if not size_terms:
        return False            # the test is not on the block size at all (it must be: block_size == 0 is the documented condition)
    X = size_terms[0]
    try:
        res = {}
        for v in (0, 1, 5):
            e_ = evaluator({X: v})
            got = e_.ev(ct)
            if e_.leaves:
                return None
            res[v] = (bool(got) == tr)
        return res == {0: True, 1: False, 5: False}
    except NotEvaluable:
        return None


def check_one_inner_read(cx, rep):
    """each call of a wrapper's read() asks the wrapped source at most once, never in a loop: the tokenizer asks for one window at
    a time and hands a token over before asking again (C08: the source is not read further before the hand-over; end of stream
    is requested once), and a block is what ONE inner read returned (C10)"""
    n = 0
    for cname in ('_AudioReadingProxy', '_FixedSizeAudioReader', '_Limiter', '_Recorder', 'AudioReader'):
        c = cx.cls('util', cname, required=False)
        if c is None:
            continue
        r = cx.model.find_method('util', c, 'read')
        if r is None:
            continue
        try:
            lv = cx.leaves_dyn(r)
        except Exception:
            continue
        for l in lv:
            depth, inner, inloop = 0, 0, False
            for e in l.effects:
                if e[0] == 'loop-enter':
                    depth += 1
                elif e[0] in ('loop-exit',):
                    depth = max(0, depth - 1)
                elif e[0] == 'call' and e[1][0] == 'call' and e[1][1][0] == 'attr' and e[1][1][2] == 'read' and e[1][1][1] != ('self',):
                    recv = e[1][1][1]
                    if recv[0] == 'attr' and recv[1] == ('self',):
                        inner += 1
                        inloop = inloop or depth > 0
            if inner == 0:
                continue
            n += 1
            rep.ob('a reader wrapper asks the wrapped source at most once per read() call, never in a loop', inner == 1 and not inloop, cx.where(r[0], l.node if l.node is not None else r[2]), '%s.read:inner-reads' % cname,
                   '%d inner read(s) on a path%s' % (inner, ', inside a loop' if inloop else ''), loop_rule=True, sample=dict(wrapper=cname, inner_reads=inner))
    rep.floor('wrapper read() paths with an inner read', n, 4)


def check_reported_durations(cx, rep):
    """the durations a reader reports (block_dur / hop_dur getters of the framing readers and of AudioReader) are exactly
    <its size in samples> / <sampling rate>: split() takes its analysis window from them for reader inputs (C06) and the region
    times are multiples of them (C05)"""
    from ..termeval import equivalent
    from ..facts import role_leaf
    n = 0
    for cname in ('_FixedSizeAudioReader', '_OverlapAudioReader', 'AudioReader'):
        c = cx.cls('util', cname, required=False)
        if c is None:
            continue
        for pname, size_words in (('block_dur', ('block_size',)), ('hop_dur', ('hop_size',))):
            fn = next((f for f in c.body if isinstance(f, ast.FunctionDef) and f.name == pname and cx.model.is_property(f)), None)
            if fn is None:
                continue
            for l in cx.leaves_of('util', c, fn):
                if l.outcome != 'return' or l.value is None:
                    continue
                v = l.value
                if v[0] == 'attr' and v[2] in ('block_dur', 'hop_dur', '_block_dur', '_hop_dur'):
                    continue                                   # another duration (itself checked where it is defined)
                size = next((x for x in walk(v) if x[0] == 'attr' and any(w in x[2] for w in ('block_size', 'hop_size'))), None)
                rate = role_leaf(v, 'sampling_rate')
                if size is None or rate is None:
                    rep.unknown('%s.%s: the reported duration %s is not built from a size in samples and the sampling rate' % (cname, pname, show(v)[:80]))
                    continue
                eq = equivalent(v, ('bin', '/', size, rate))
                if eq is None:
                    rep.unknown('%s.%s: %s could not be compared with %s / %s' % (cname, pname, show(v)[:80], show(size), show(rate)))
                    continue
                n += 1
                rep.ob('a reader reports its window / hop duration as exactly <size in samples> / <sampling rate> (no rounding)', eq, cx.where('util', l.node if l.node is not None else fn), '%s.%s:formula' % (cname, pname),
                       '%s returns %s, expected %s / %s' % (pname, show(v)[:100], show(size), show(rate)), sample=dict(reader=cname, getter=pname, value=show(v)[:80]))
    rep.floor('reported-duration getters compared', n, 3)


def check(repo, rep):
    cx = Ctx(repo)
    rep.cx = cx
    mod = 'util'
    # ---------------------------------------------------------------- R1 nullness in the reader stack
    sites, opt = check_nullness(cx, rep, lambda f: cx.in_module(f['mod'], 'util'))
    rep.floor('read() call sites in the package', len(sites), 17)
    rep.floor('Optional-returning read() call sites', len(opt), 13)

    # ---------------------------------------------------------------- R2 fixed-size reader
    W = lambda n: cx.where(mod, n)
    BS = find_field_by_def(cx, mod, '_FixedSizeAudioReader', P.call('int', P.prod(P.param('block_dur'), P.role('sampling_rate'))),
                           lambda v: fcall('int', mul(('p', 'block_dur'), role_leaf(v, 'sampling_rate', ('attr', ('self',), 'sr')))))
    defs = cx.field_defs(mod, '_FixedSizeAudioReader')
    cands = [f for f, ds in defs.items() if any(any(t == ('p', 'block_dur') for t in walk(d['value'])) for d in ds)]
    init = cx.fn(mod, '_FixedSizeAudioReader.__init__')
    if not cands:
        rep.unknown('_FixedSizeAudioReader: no field derived from block_dur found')
    for f in cands:
        for d in defs[f]:
            rep.ob('block_size = int(block_dur * sampling_rate) (floor, not round)', f in BS, W(d['node']), '_FixedSizeAudioReader.%s' % f,
                   'block size field %s is defined as %s, expected int(block_dur * <sampling rate>)' % (f, show(d['value'])),
                   sample=dict(field=f, definition=show(d['value'])))
    lv = cx.leaves(mod, '_FixedSizeAudioReader.__init__')
    raising = [l for l in lv if l.outcome == 'raise']
    seen_small = seen_nonpos = False
    for l in raising:
        g = norm_cmp(l.conds[-1][0], l.conds[-1][1]) if l.conds else None
        en = exc_name(l)
        if en == 'TooSmallBlockDuration':
            ok = g is not None and ((g[0] == '==' and g[2] == ('c', 0)) or (g[0] in ('<', '<=') and g[2][0] == 'c' and g[2][1] in (1, 0) and (g[0], g[2][1]) in (('<', 1), ('<=', 0)))) \
                and (g[1][0] == 'attr' and g[1][2] in BS or P.call('int', P.prod(P.param('block_dur'), P.role('sampling_rate')))(g[1]))
            if l.conds and l.conds[-1][0][0] == 'attr' and l.conds[-1][1] is False and l.conds[-1][0][2] in BS:
                ok = True      # `if not self._block_size`
            if not ok and l.conds:
                sem_ = small_block_guard_ok(l.conds[-1][0], l.conds[-1][1], lambda x: (x[0] == 'attr' and x[1] == ('self',) and x[2] in BS) or P.call('int', P.prod(P.param('block_dur'), P.role('sampling_rate')))(x))
                if sem_ is None:
                    rep.unknown('_FixedSizeAudioReader.__init__: the condition under which TooSmallBlockDuration is raised (%s) could not be evaluated' % show(l.conds[-1][0])[:80])
                    seen_small = True
                    continue
                ok = sem_
            rep.ob('TooSmallBlockDuration exactly when block_size == 0', ok, W(l.node), '_FixedSizeAudioReader.__init__:TooSmallBlockDuration',
                   'TooSmallBlockDuration is raised under %s' % (show(l.conds[-1][0]) if l.conds else 'no condition'))
            seen_small = True
        elif en == 'ValueError':
            ok = g is not None and g[0] == '<=' and g[1] == ('p', 'block_dur') and g[2] == ('c', 0)
            rep.ob('ValueError exactly when block_dur <= 0', ok, W(l.node), '_FixedSizeAudioReader.__init__:ValueError',
                   'ValueError is raised under %s' % (show(l.conds[-1][0]) if l.conds else 'no condition'))
            seen_nonpos = True
        else:
            rep.ob('only ValueError / TooSmallBlockDuration are raised by the framing reader', False, W(l.node), '_FixedSizeAudioReader.__init__:%s' % en, 'unexpected exception %s' % en)
    rep.ob('a block_dur shorter than one sample is rejected (TooSmallBlockDuration raised)', seen_small, W(init), '_FixedSizeAudioReader.__init__:no-too-small-guard')
    rep.ob('a non-positive block_dur is rejected', seen_nonpos, W(init), '_FixedSizeAudioReader.__init__:no-nonpositive-guard')
    # read() asks the inner source for exactly block_size samples
    rd = cx.leaves(mod, '_FixedSizeAudioReader.read')
    for l in rd:
        if l.outcome == 'return':
            ok = P.method(P.ANY, 'read', P.Pat(lambda t: t[0] == 'attr' and t[1] == ('self',) and t[2] in BS, 'block_size'))(l.value)
            rep.ob('fixed-size read() returns inner.read(block_size) unchanged', ok, W(l.node), '_FixedSizeAudioReader.read', 'read() returns %s' % show(l.value),
                   sample=dict(function='_FixedSizeAudioReader.read', returns=show(l.value)))
    # block_dur property = block_size / sr  (effective window, C05)
    for cname in ('_FixedSizeAudioReader',):
        r = cx.method(mod, cname, 'block_dur', required=False)
        if r:
            for l in cx.leaves_of(r[0], r[1], r[2]):
                if l.outcome == 'return':
                    ok = P.binop('/', P.Pat(lambda t: t[0] == 'attr' and t[2] in BS + ['block_size'], 'block_size'), P.role('sampling_rate'))(l.value)
                    rep.ob('block_dur property = block_size / sampling_rate (the effective window)', ok, cx.where(r[0], l.node), '%s.block_dur' % cname, 'block_dur returns %s' % show(l.value))

    # ---------------------------------------------------------------- R3/R4 overlap reader
    HS = find_field_by_def(cx, mod, '_OverlapAudioReader', P.call('int', P.prod(P.param('hop_dur'), P.role('sampling_rate'))),
                           lambda v: fcall('int', mul(('p', 'hop_dur'), role_leaf(v, 'sampling_rate', ('attr', ('self',), 'sr')))))
    odefs = cx.field_defs(mod, '_OverlapAudioReader')
    hcands = [f for f, ds in odefs.items() if any(any(t == ('p', 'hop_dur') for t in walk(d['value'])) for d in ds)]
    if not hcands:
        rep.unknown('_OverlapAudioReader: no field derived from hop_dur found')
    for f in hcands:
        for d in odefs[f]:
            rep.ob('hop_size = int(hop_dur * sampling_rate)', f in HS, W(d['node']), '_OverlapAudioReader.%s' % f,
                   'hop size field %s is defined as %s' % (f, show(d['value'])), sample=dict(field=f, definition=show(d['value'])))
    lv = cx.leaves(mod, '_OverlapAudioReader.__init__')
    oinit = cx.fn(mod, '_OverlapAudioReader.__init__')
    found = False
    for l in lv:
        if l.outcome == 'raise':
            g = norm_cmp(l.conds[-1][0], l.conds[-1][1]) if l.conds else None
            ok = exc_name(l) == 'ValueError' and g is not None and g[0] in ('>', '>=') and g[1] == ('p', 'hop_dur') and g[2] == ('p', 'block_dur')
            ok = ok or (exc_name(l) == 'ValueError' and g is not None and g[0] in ('<', '<=') and g[1] == ('p', 'block_dur') and g[2] == ('p', 'hop_dur'))
            if g is not None and {g[1], g[2]} == {('p', 'hop_dur'), ('p', 'block_dur')}:
                found = True
                rep.ob('hop_dur > block_dur is rejected with ValueError', ok, W(l.node), '_OverlapAudioReader.__init__:guard', 'raises %s under %s' % (exc_name(l), show(l.conds[-1][0])))
    rep.ob('hop_dur > block_dur is rejected with ValueError', found, W(oinit), '_OverlapAudioReader.__init__:no-guard', 'no guard comparing hop_dur with block_dur')
    # the generator
    gen = [f for f in cx.cls(mod, '_OverlapAudioReader').body if isinstance(f, ast.FunctionDef) and any(isinstance(x, ast.Yield) for x in ast.walk(f))]
    if len(gen) != 1:
        rep.unknown('_OverlapAudioReader: expected exactly one block generator, found %d' % len(gen))
    else:
        g = gen[0]
        gl = cx.leaves(mod, '_OverlapAudioReader.%s' % g.name)
        isBS = P.Pat(lambda t: t[0] == 'attr' and t[1] == ('self',) and t[2] in BS, 'block_size')
        isHS = P.Pat(lambda t: t[0] == 'attr' and t[1] == ('self',) and t[2] in HS, 'hop_size')
        hopbytes = P.prod(isHS, P.role('sample_width'), P.role('channels'))
        nfirst = nloop = 0
        for l in gl:
            reads = [e for e in l.effects if e[0] == 'call' and e[1][0] == 'call' and e[1][1][0] == 'attr' and e[1][1][2] == 'read']
            inloop = False
            idx_loop = None
            evs = l.effects
            # position of the main (constant-true) loop
            for i, e in enumerate(evs):
                if e[0] == 'loop-enter' and e[1] == ('c', True):
                    idx_loop = i
            for i, e in enumerate(evs):
                if e in reads:
                    if idx_loop is None or i < idx_loop:
                        nfirst += 1
                        rep.ob('first overlap read asks for block_size samples', len(e[1][2]) == 1 and isBS(e[1][2][0]), W(e[3]), '%s:first-read' % g.name,
                               'first read asks %s' % show(e[1]))
                    else:
                        nloop += 1
                        rep.ob('later overlap reads ask for hop_size samples', len(e[1][2]) == 1 and isHS(e[1][2][0]), W(e[3]), '%s:loop-read' % g.name,
                               'loop read asks %s' % show(e[1]))
            # yields inside the loop on the data path: previous tail + new data, tail = block[hop_bytes:]
            if idx_loop is not None:
                ys = [e for e in evs[idx_loop:] if e[0] == 'yield' and e[1] != ('c', None)]
                for y in ys:
                    t = y[1]
                    okshape = t[0] == 'bin' and t[1] == '+'
                    if not okshape:
                        rep.unknown('%s: yielded block %s is not cache + new data' % (g.name, show(t)[:80]))
                        continue
                    left, right = t[2], t[3]
                    left_is_cache = left[0] == 'loopvar' or (left[0] == 'sub')
                    right_is_new = right[0] == 'call' and right[1][0] == 'attr' and right[1][2] == 'read'
                    rep.ob('overlap block = tail of the previous block followed by the new samples (in this order)', left_is_cache and right_is_new, W(y[3]),
                           '%s:block-order' % g.name, 'yielded block is %s' % show(t)[:160], loop_rule=True)
                    # the cache after this iteration
                    cachevars = [k for k, v in l.env.items() if isinstance(v, tuple) and v[0] == 'sub' and v[1] == t]
                    if not cachevars:
                        rep.ob('overlap cache = block[hop_bytes:] of the block just returned', False, W(y[3]), '%s:cache-update' % g.name,
                               'after yielding the block no variable holds block[hop_bytes:]')
                    for cv in cachevars:
                        v = l.env[cv]
                        sl = v[2]
                        lo = sl[1] if sl[0] == 'slice' else None
                        ok = sl[0] == 'slice' and sl[2] is None and lo is not None and hopbytes(lo)
                        rep.ob('overlap cache drops exactly hop_size * sample_width * channels bytes', ok, W(y[3]), '%s:cache-slice' % g.name,
                               'cache is %s' % show(v)[:200], sample=dict(cache=show(v)[:160]), loop_rule=True)
            # initial cache (before the loop): first block [hop_bytes:]
            if idx_loop is not None:
                for k, v in l.env.items():
                    pass
        rep.floor('overlap generator: first-read sites on paths', nfirst, 1)
        rep.floor('overlap generator: loop-read sites on paths', nloop, 1)
        # initial cache: statement `cache = block[hop_bytes:]` before the loop -> check by AST on the first segment
        pre = []
        for st in g.body:
            if isinstance(st, ast.While) and isinstance(st.test, ast.Constant):
                break
            pre.append(st)
        sx_env_leaves = [l for l in gl if any(e[0] == 'loop-enter' and e[1] == ('c', True) for e in l.effects)]
        for l in sx_env_leaves[:1]:
            # loopvar wrappers remember the value before the loop
            for e in l.effects:
                pass
        for l in sx_env_leaves:
            for t in [y[1] for y in l.effects if y[0] == 'yield']:
                for x in walk(t):
                    if x[0] == 'loopvar' and len(x) == 4:
                        v = x[3]
                        ok = v[0] == 'sub' and v[2][0] == 'slice' and v[2][2] is None and v[2][1] is not None and hopbytes(v[2][1]) \
                            and v[1][0] == 'call' and v[1][1][0] == 'attr' and v[1][1][2] == 'read'
                        is_read = v[0] == 'call' and v[1][0] == 'attr' and v[1][2] == 'read'
                        if not ok and is_read and t == x:
                            # the loop variable is the WINDOW itself (first value: the first block, yielded as it is); the part kept for
                            # the next window is cut inside the loop -- checked there: window[hop_bytes:] of that same variable
                            kept = [y for l2 in gl for e2 in l2.effects for y in (walk(e2[1]) if isinstance(e2[1], tuple) else []) if y[0] == 'sub' and y[2][0] == 'slice' and y[1][0] == 'loopvar' and y[1][1] == x[1]]
                            okk = bool(kept) and all(k_[2][2] is None and k_[2][1] is not None and hopbytes(k_[2][1]) for k_ in kept)
                            rep.ob('initial overlap cache = first block [hop_bytes:]', okk, W(g), '%s:initial-cache' % g.name, 'the window kept for the next round is %s' % [show(k_)[:80] for k_ in kept][:2])
                            continue
                        if not ok and not (v[0] == 'sub' and v[2][0] == 'slice'):
                            rep.unknown('%s: the value the overlap loop starts from (%s) is neither the first block cut at the hop nor the first block itself' % (g.name, show(v)[:80]))
                            continue
                        rep.ob('initial overlap cache = first block [hop_bytes:]', ok, W(g), '%s:initial-cache' % g.name, 'initial cache is %s' % show(v)[:200])
        # after exhaustion: yields None forever or ends
        ends_ok = all((l.outcome in ('return', 'loop-back', 'fall')) for l in gl)
        rep.ob('after exhaustion the block generator yields None or ends', ends_ok, W(g), '%s:exhaustion' % g.name)
        # read(): next(generator), StopIteration -> None
        rl = cx.leaves(mod, '_OverlapAudioReader.read')
        has_stop = any(any(e[0] == 'except' and term_name(e[1]).endswith('StopIteration') for e in l.effects) and l.outcome == 'return' and l.value == ('c', None) for l in rl)
        # next(generator, None): the default is what an exhausted generator maps to
        has_stop = has_stop or any(x[0] == 'call' and x[1] == ('b', 'next') and len(x[2]) == 2 and x[2][1] == ('c', None)
                                   for l in rl for t_ in [l.value] + [e[1] for e in l.effects if e[0] == 'call'] if t_ is not None for x in walk(t_))
        rep.ob('overlap read(): exhausted generator maps to None', has_stop, W(cx.fn(mod, '_OverlapAudioReader.read')), '_OverlapAudioReader.read:StopIteration')

        # a block generator built by the constructor exists before open(): a read() on the not-yet-open reader must not let the
        # inner source's "not open" error escape from INSIDE the generator (that finishes the generator for good: every read()
        # after open() would then return None).  Accepted: an is_open() test before the first inner read in the generator, an
        # is_open() test before next() in read(), or open() re-creating the generator.
        ctor_built = any(e[0] == 'store' and any(x[0] == 'call' and x[1] == ('attr', ('self',), g.name) for x in walk(e[2]) if isinstance(x, tuple) and x)
                         for l in cx.leaves(mod, '_OverlapAudioReader.__init__') for e in l.effects if e[0] == 'store' and len(e) > 2 and isinstance(e[2], tuple))
        def _before(effs, is_target):
            out = []
            for e in effs:
                if is_target(e):
                    return out
                out.append(e)
            return None
        is_inner_read = lambda e: e[0] == 'call' and e[1][0] == 'call' and e[1][1][0] == 'attr' and e[1][1][2] == 'read' and e[1][1][1] != ('self',)
        is_next = lambda e: e[0] == 'call' and e[1][0] == 'call' and e[1][1] == ('b', 'next')
        pre_gen = [b for b in (_before(l.effects, is_inner_read) for l in gl) if b is not None]
        pre_read = [b for b in (_before(l.effects, is_next) for l in rl) if b is not None]
        mentions = lambda effs: any(e[0] in ('call', 'eval') and "'is_open'" in repr(e[1]) for e in effs)
        has_open_override = any(isinstance(f, ast.FunctionDef) and f.name == 'open' and any(isinstance(x, ast.Attribute) and x.attr == g.name for x in ast.walk(f))
                                for f in cx.cls(mod, '_OverlapAudioReader').body)
        if ctor_built and pre_gen and pre_read:
            guarded = all(mentions(b) for b in pre_gen) or all(mentions(b) for b in pre_read) or has_open_override
            plain = all(not any(e[0] == 'call' for e in b) for b in pre_gen + pre_read)
            if guarded or plain:
                rep.ob('a read() before open() does not finish the block generator built by the constructor (is_open() is tested before the first inner read, or open() rebuilds the generator)',
                       guarded, W(g), '%s:closed-guard' % g.name,
                       'the generator is built in __init__ and its first statement reaching the source is an unguarded read: on a reader that is not open yet the source\'s AudioIOError escapes from inside the generator, '
                       'which ends it; after open() every read() returns None', sample=dict(generator=g.name, guard='none'))
            else:
                rep.unknown('%s: calls precede the first inner read / next() but none is an is_open() test: whether a read() before open() finishes the generator was not decided' % g.name)

    # ---------------------------------------------------------------- R5 wrapper composition order in AudioReader.__init__
    il = cx.leaves(mod, 'AudioReader.__init__')
    ainit = cx.fn(mod, 'AudioReader.__init__')
    ncomp = 0
    for l in il:
        if l.outcome == 'raise':
            continue
        st = [e for e in l.effects if e[0] == 'store' and e[1] == ('attr', ('self',), '_audio_source')]
        if not st:
            st = [e for e in l.effects if e[0] == 'store' and e[1][0] == 'attr' and e[1][1] == ('self',) and e[2][0] == 'call' and any(t == ('p', 'block_dur') for t in walk(e[2]))]
        if not st:
            rep.unknown('AudioReader.__init__: no store of the composed reader found on a path')
            continue
        t = st[-1][2]
        ncomp += 1
        # unwrap ctor nesting from the outside
        chain = []
        cur = t
        while cur[0] == 'call' and cur[1][0] == 'g' and cur[2]:
            chain.append((cur[1][2], cur))
            cur = cur[2][0]
        kinds = []
        for name, c in chain:
            args = list(c[2][1:]) + [v for _, v in c[3]]
            if any(a == ('p', 'block_dur') for a in args):
                kinds.append('framing')
            elif any(a == ('p', 'max_read') for a in args):
                kinds.append('limiter')
            elif name in ('get_audio_source',):
                kinds.append('source')
            else:
                kinds.append('recorder' if len(c[2]) == 1 and not c[3] else 'other:' + name)
        want_rec = any(c[0] == ('p', 'record') and c[1] for c in l.conds)
        want_lim = any(c[0] == ('cmp', 'is not', ('p', 'max_read'), ('c', None)) and c[1] for c in l.conds) or any(c[0] == ('cmp', 'is', ('p', 'max_read'), ('c', None)) and not c[1] for c in l.conds)
        expect = ['framing'] + (['limiter'] if want_lim else []) + (['recorder'] if want_rec else [])
        got = [k for k in kinds if k != 'source']
        rep.ob('wrapper composition: the framing reader is outermost; limiter and recorder (when configured) wrap the source inside it', got[:1] == ['framing'] and sorted(got[1:]) == sorted(expect[1:]), W(st[-1][3]),
               'AudioReader.__init__:composition[record=%s,max_read=%s]' % (want_rec, want_lim), 'composed reader is %s ; expected nesting %s, found %s' % (show(t)[:200], expect, got),
               sample=dict(path='record=%s max_read=%s' % (want_rec, want_lim), composed=show(t)[:200]))
        # hop_dur == block_dur or None -> fixed-size reader ; else overlap reader with (block_dur, hop_dur) in role
        if chain:
            outer = chain[0][1]
            lk = cx.model.lookup(outer[1])
            if lk and lk[0] == 'class':
                r = cx.model.find_method(outer[1][1], lk[1], '__init__')
                if r:
                    params = [a.arg for a in r[2].args.args][1:]
                    for i, a in enumerate(outer[2]):
                        if i < len(params) and a[0] == 'p' and a[1] in ('block_dur', 'hop_dur'):
                            rep.ob('block_dur / hop_dur passed in role to the framing reader', params[i] == a[1], W(st[-1][3]), 'AudioReader.__init__:framing-arg-%s' % a[1],
                                   '%s passed as %s' % (a[1], params[i]))
    rep.floor('AudioReader.__init__ composition paths', ncomp, 4)
    # routing: the non-overlapping reader is chosen only for hop_dur None or hop_dur == block_dur (as durations); every other
    # hop goes to the overlap reader, the only place that rejects hop_dur > block_dur
    ovl = cx.cls(mod, '_OverlapAudioReader', required=False)
    for l in il:
        if l.outcome == 'raise':
            continue
        st = [e for e in l.effects if e[0] == 'store' and e[1] == ('attr', ('self',), '_audio_source')]
        if not st or st[-1][2][0] != 'call' or st[-1][2][1][0] != 'g':
            continue
        outer = st[-1][2]
        lk = cx.model.lookup(outer[1])
        takes_hop = False
        if lk and lk[0] == 'class':
            r = cx.model.find_method(outer[1][1], lk[1], '__init__')
            takes_hop = bool(r) and any(a.arg == 'hop_dur' for a in r[2].args.args)
        if takes_hop:
            hop_arg = bind_hop(outer, r[2])
            rep.ob('the overlap reader receives the caller\'s hop_dur unchanged', hop_arg == ('p', 'hop_dur'), W(st[-1][3]), 'AudioReader.__init__:overlap-hop-arg', 'hop passed is %s' % (show(hop_arg)[:60] if hop_arg else None))
            continue
        gs = [norm_cmp(c[0], c[1]) for c in l.conds]
        is_none = any(g and g[0] == 'is' and g[1] == ('p', 'hop_dur') and g[2] == ('c', None) for g in gs)
        is_eq = any(g and g[0] == '==' and {g[1], g[2]} == {('p', 'hop_dur'), ('p', 'block_dur')} for g in gs)
        if not (is_none or is_eq):
            # decided by values: (hop, block) pairs are taken through the path's tests on them; the fixed-size reader may be chosen
            # for hop None and hop == block only
            from ..semantic import evaluator as _ev10
            from ..termeval import NotEvaluable as _NE10
            takers_ = []
            for hop_, blk_ in ((None, 0.5), (0.5, 0.5), (0.2, 0.5), (0.7, 0.5)):
                ok_ = True
                for ct, tr, _ in l.conds:
                    if not any(x in (('p', 'hop_dur'), ('p', 'block_dur')) for x in walk(ct)):
                        continue
                    try:
                        e_ = _ev10({('p', 'hop_dur'): hop_, ('p', 'block_dur'): blk_})
                        got_ = e_.ev(ct)
                    except _NE10:
                        continue
                    if e_.leaves:
                        continue
                    if bool(got_) != tr:
                        ok_ = False
                        break
                if ok_:
                    takers_.append((hop_, blk_))
            if takers_ and set(takers_) <= {(None, 0.5), (0.5, 0.5)}:
                is_none = True
        rep.ob('the non-overlapping reader is used only when hop_dur is None or equals block_dur (any other hop must reach the overlap reader, which rejects hop_dur > block_dur)', is_none or is_eq, W(st[-1][3]),
               'AudioReader.__init__:routing', 'fixed-size reader chosen under %s' % [(show(c[0])[:60], c[1]) for c in l.conds if any(x == ('p', 'hop_dur') for x in walk(c[0]))],
               sample=dict(routing='fixed', conditions=[(show(c[0])[:50], c[1]) for c in l.conds if any(x == ('p', 'hop_dur') for x in walk(c[0]))]))
    # the wrappers and the sources below them never close themselves while being read (None on every further call)
    from . import c11
    sub = type(rep)(rep.prop, rep.tier, rep.repo_root, rep.level)
    c11.check(repo, sub)
    for o in sub.obligations:
        if 'open state' in o['rule']:
            rep.obligations.append(o)
    for v in sub.violations:
        if 'open state' in v['rule']:
            rep.violations.append(v)
    for cname in READER_CLASSES:
        c = cx.cls(mod, cname, required=False)
        if c is None:
            continue
        r = cx.model.find_method(mod, c, 'read')
        if r is None or r[1] is not c:
            continue
        bad = [n for n in ast.walk(r[2]) if isinstance(n, ast.Call) and isinstance(n.func, ast.Attribute) and n.func.attr in ('close',)]
        rep.ob('%s.read never closes anything: after exhaustion it returns None on every further call' % cname, not bad, W(r[2]), '%s.read:closes' % cname)

    # ---------------------------------------------------------------- R6 limiter
    ldefs = cx.field_defs(mod, '_Limiter')
    from ..termeval import equivalent as _eqv
    MS = [f for f, ds in ldefs.items() if ds and all(P.call('round', P.prod(P.param('max_read'), P.role('sampling_rate')))(d['value']) or (d['value'][0] in ('call', 'bin') and _eqv(d['value'], fcall('round', mul(('p', 'max_read'), role_leaf(d['value'], 'sampling_rate', ('attr', ('self',), 'sr'))))) is True) for d in ds)]
    msc = [f for f, ds in ldefs.items() if any(any(t == ('p', 'max_read') for t in walk(d['value'])) and d['value'] != ('p', 'max_read') for d in ds)]
    if not msc:
        rep.unknown('_Limiter: no sample budget derived from max_read found')
    for f in msc:
        for d in ldefs[f]:
            v_ = d['value']
            lk_ = cx.model.lookup(v_[1]) if v_[0] == 'call' and v_[1][0] == 'g' else None
            if f not in MS and lk_ and lk_[0] == 'class':
                # the budget lives in a helper object of the package (a counter / budget class): its arithmetic is in that class's
                # methods, which these formula rules do not follow
                rep.unknown('_Limiter.%s holds an object (%s): the budget arithmetic inside it is not followed by the limiter rules' % (f, show(v_)[:60]))
                continue
            rep.ob('limiter budget = round(max_read * sampling_rate) samples', f in MS, W(d['node']), '_Limiter.%s' % f, 'budget field %s is %s' % (f, show(d['value'])),
                   sample=dict(field=f, definition=show(d['value'])))
    BPS = [f for f, ds in ldefs.items() if all(P.prod(P.role('sample_width'), P.role('channels'))(d['value']) for d in ds)]
    # counter = field reset to 0 in __init__ and updated in read
    CNT = [f for f, ds in ldefs.items() if any(d['method'] == '__init__' and d['value'] == ('c', 0) for d in ds) and any(d['method'] == 'read' for d in ds)]
    if len(CNT) != 1:
        rep.unknown('_Limiter: sample counter not identified (%s)' % CNT)
    else:
        cnt = CNT[0]
        isMS = P.Pat(lambda t: t[0] == 'attr' and t[1] == ('self',) and t[2] in MS, 'max_samples')
        isCNT = P.field(cnt)
        budget = P.binop('-', isMS, isCNT)
        lr = cx.leaves(mod, '_Limiter.read')
        # the counter may count what was delivered (budget - counter is left) or what is LEFT (refilled to the budget by the
        # constructor and by rewind, decreased by read): decided from the direction of its updates in read
        upd_ = [e[2] for l in lr for e in l.effects if e[0] == 'store' and e[1] == ('attr', ('self',), cnt)]
        remaining_mode = bool(upd_) and all(u[0] == 'bin' and u[1] == '-' and isCNT(u[2]) for u in upd_)
        if remaining_mode:
            from .c19 import effective_stores
            lcls_ = cx.cls(mod, '_Limiter')
            refills = [effective_stores(cx, mod, lcls_, m_).get(cnt, []) for m_ in ('__init__', 'rewind')]
            ms_defs_ = [d_['value'] for f_ in MS for d_ in ldefs[f_]]
            if not all(r_ and (isMS(r_[-1]) or r_[-1] in ms_defs_) for r_ in refills):
                rep.unknown('_Limiter.%s counts down, but the constructor / rewind do not visibly refill it to the sample budget (%s)' % (cnt, [[show(x)[:40] for x in r_] for r_ in refills]))
            budget = isCNT
        nread = 0
        for l in lr:
            reads = [e for e in l.effects if e[0] == 'call' and e[1][0] == 'call' and e[1][1][0] == 'attr' and e[1][1][2] == 'read']
            for e in reads:
                nread += 1
                arg = e[1][2][0] if e[1][2] else None
                ok = arg is not None and (P.call('min', budget, P.param('size'))(arg) or P.call('min', P.param('size'), budget)(arg))
                if MS:
                    expected = fcall('min', ('attr', ('self',), cnt) if remaining_mode else ('bin', '-', ('attr', ('self',), MS[0]), ('attr', ('self',), cnt)), ('p', 'size'))
                    formula(rep, 'limiter never asks for more than min(budget - already read, requested size)', arg, expected, W(e[3]), '_Limiter.read:request', 'the inner request', pattern_ok=ok,
                            sample=dict(inner_request=show(arg)[:160]), conds=[(c_[0], c_[1]) for c_ in l.conds if c_[0][0] in ('cmp', 'not', 'and', 'or') and not any(t_ == e[1] for t_ in walk(c_[0]))])      # conditions on the read's own result come after the request
                else:
                    rep.ob('limiter never asks for more than min(budget - already read, requested size)', ok, W(e[3]), '_Limiter.read:request', 'inner read asks %s' % show(arg)[:160])
                # the guard  size <= 0 -> None  precedes the inner read
                guard = [c for c in l.conds[:e[4]] if (norm_cmp(c[0], c[1]) or (None,))[0] in ('>', '>=')]
                gok = any((g := norm_cmp(c[0], c[1])) and ((g[0] == '>' and g[2] == ('c', 0)) or (g[0] == '>=' and g[2] == ('c', 1))) for c in l.conds[:e[4]])
                rep.ob('limiter returns None without reading once the budget is used up (request <= 0)', gok, W(e[3]), '_Limiter.read:budget-guard',
                       'inner read reached under %s' % [(show(c[0])[:60], c[1]) for c in l.conds[:e[4]]])
            # counter update never under-counts what was returned
            ups = [e for e in l.effects if e[0] == 'store' and e[1] == ('attr', ('self',), cnt)]
            # ... and a read that fails (the source raises: not open, a transient error) is not charged: the budget is updated after
            # the inner read has returned, never before it
            if reads and ups:
                ir_ = min(i_ for i_, e_ in enumerate(l.effects) if e_ is reads[0])
                early = [u for i_, u in enumerate(l.effects) if u in ups and i_ < ir_]
                rep.ob('the limiter charges its budget after the inner read has returned (a read that raises consumes nothing)', not early, W(early[0][3]) if early else W(l.node), '_Limiter.read:charge-after-read',
                       'the counter is updated (%s) before the source is read' % (show(early[0][2])[:60] if early else ''))
            is_none_path = l.value is not None and any((g_ := norm_cmp(c[0], c[1])) and g_[0] == 'is' and g_[1] == l.value and g_[2] == ('c', None) for c in l.conds) or any(c[0] == l.value and not c[1] for c in l.conds)
            if l.outcome == 'return' and l.value != ('c', None) and not is_none_path:
                okup = False
                for u in ups:
                    v = u[2]
                    if v[0] == 'bin' and v[1] == ('-' if remaining_mode else '+') and isCNT(v[2]):
                        inc = v[3]
                        bps = P.Pat(lambda t: (t[0] == 'attr' and t[1] == ('self',) and t[2] in BPS) or P.prod(P.role('sample_width'), P.role('channels'))(t), 'bytes_per_sample')
                        if P.binop('//', P.call('len', P.same(l.value)), bps)(inc) or (reads and inc == reads[0][1][2][0]) or inc == ('p', 'size'):
                            okup = True
                rep.ob('limiter counts every returned sample (counter += len(block) // bytes_per_sample, or the size asked)', okup, W(l.node), '_Limiter.read:counter',
                       'counter updates on the data path: %s' % [show(u[2])[:120] for u in ups])
                rep.ob('limiter returns the inner block unchanged', l.value[0] == 'call' and l.value[1][0] == 'attr' and l.value[1][2] == 'read', W(l.node), '_Limiter.read:returns',
                       'returns %s' % show(l.value)[:120])
        rep.floor('_Limiter.read inner read sites on paths', nread, 1)
    from .c05 import check_roles
    check_one_inner_read(cx, rep)
    check_reported_durations(cx, rep)
    from .c11 import check_buffered_open
    check_buffered_open(cx, rep)          # the framing reader hands on what the source returns: a short read of the file becomes a short window
    check_roles(cx, rep, lambda p: cx.in_module(p['where'], 'util'), floor=5)
    rep.explanation = ('Structural rules on the reader stack of auditok/util.py, decided from path-sensitive provenance terms of the current source: nullness of every '
                       'read() result in the stack (E5); block_size = int(block_dur*rate), hop_size = int(hop_dur*rate), overlap cache slicing by hop_size*width*channels, '
                       'first read block_size then hop_size, block = previous tail + new data; TooSmallBlockDuration iff block_size == 0, ValueError for block_dur <= 0 and '
                       'hop_dur > block_dur; wrapper nesting framing(limiter(recorder(source))) on all 4 configuration paths; limiter budget round(max_read*rate), '
                       'request min(budget - read, size), None without reading when the budget is used up, counter never under-counts. '
                       'NOT decided: concatenation equality over all source lengths (a runtime value).')
    rep.analysed['functions'] = ['util.%s.*' % c for c in READER_CLASSES]
    rep.assumptions = ['inner sources obey C11 (read returns whole samples or None)', 'numeric behaviour of int()/round() is the documented one']
