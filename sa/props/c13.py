"""C13 -- saved stream and joined events are byte-exact under every interleaving (DESIGN 4.13, B.6)"""
import ast

from ..facts import Ctx, norm_cmp, exc_name
from ..symex import show, walk, term_name, bind_call
from .. import pat as P
from .c05 import check_roles
from .c12 import Protocol, MOD, check_stop_marker

LEVEL = 'other'
SELF = P.Pat(lambda t: t == ('self',), 'self')


def self_calls(l, name=None):
    return [(i, e) for i, e in enumerate(l.effects) if e[0] == 'call' and e[1][0] == 'call' and e[1][1][0] == 'attr' and e[1][1][1] == ('self',) and (name is None or e[1][1][2] == name)]


def drain_facts(cx, pr, rep, cname, handle_pred, what, close_field='_wfp'):
    """the shutdown hook of a saver: drain the inbox without blocking until Empty (skipping the stop marker), every drained data message handled
    exactly once, then flush / close"""
    c = cx.cls(MOD, cname)
    r = cx.model.find_method(MOD, c, '_post_process')
    W = cx.where(r[0], r[2])
    lv = cx.leaves_dyn(r)
    seen = dict(data=0, stop=0, empty=0)
    for l in lv:
        gets = [e for e in l.effects if e[0] == 'call' and pr.is_inbox_call(e[1], ('get_nowait', 'get'))]
        exc = [e for e in l.effects if e[0] == 'except']
        if exc:
            seen['empty'] += 1
            # the path reaches the end of the hook (it does not go round the loop again): left by `break` in a handler inside the loop, or by the
            # exception itself when the try statement encloses the loop
            ok = term_name(exc[0][1]).endswith('Empty') and l.outcome in ('fall', 'return')
            rep.ob('%s shutdown: the drain loop ends exactly when the inbox is empty' % cname, ok, W, '%s._post_process:drain-end' % cname, 'handler for %s, outcome %s' % (show(exc[0][1]), l.outcome))
            yield l
            continue
        if len(gets) != 1:
            rep.ob('%s shutdown: one message per drain iteration' % cname, False, W, '%s._post_process:gets' % cname, '%d gets on a path' % len(gets))
            continue
        rep.ob('%s shutdown: the drain never blocks (get_nowait)' % cname, gets[0][1][1][2] == 'get_nowait', W, '%s._post_process:blocking-get' % cname)
        msg = gets[0][1]
        handled = handle_pred(l, msg)
        # which kind of message takes this path: the stop marker and a data message are taken through the path's conditions
        from ..semantic import evaluator, Undecided
        from ..termeval import NotEvaluable
        kinds_here = []
        try:
            for kind, val in (('stop', 'STOP-MARKER'), ('data', (3, 'a-region'))):
                a_ = {msg: val}
                if pr.stop is not None:
                    a_[pr.stop] = 'STOP-MARKER'
                ok_ = True
                for ct, tr, _ in l.conds:
                    if not any(x == msg for x in walk(ct)):
                        continue
                    ev_ = evaluator(a_)
                    got = ev_.ev(ct)
                    if ev_.leaves:
                        raise Undecided('condition %s' % show(ct)[:60])
                    if bool(got) != tr:
                        ok_ = False
                        break
                if ok_:
                    kinds_here.append(kind)
        except (Undecided, NotEvaluable) as exc:
            rep.unknown('%s._post_process: a condition on the drained message could not be evaluated (%s)' % (cname, exc))
            continue
        if 'stop' in kinds_here:
            seen['stop'] += 1
            rep.ob('%s shutdown: a stop marker found while draining is skipped (not %s)' % (cname, what), handled == 0 and l.outcome == 'loop-back', W, '%s._post_process:stop-skipped' % cname)
        if 'data' in kinds_here:
            seen['data'] += 1
            rep.ob('%s shutdown: every message still queued is %s exactly once' % (cname, what), handled == 1 and l.outcome == 'loop-back', W, '%s._post_process:drain-data' % cname, 'handled %d times, outcome %s' % (handled, l.outcome),
                   sample=dict(worker=cname, drained_message='DATA', handled=handled))
        if 'stop' in kinds_here and 'data' in kinds_here:
            rep.ob('%s shutdown: drained messages are tested against the stop marker' % cname, False, W, '%s._post_process:untested-message' % cname, 'the stop marker and a data message take the same path')
    for k, n in seen.items():
        rep.ob('%s shutdown hook has a %s case' % (cname, k), n >= 1, W, '%s._post_process:missing-%s' % (cname, k))


def check_ctor_order(cx, rep):
    """a worker's constructor does not run a method of the object before it has given the fields that method reads their final
    value: a later assignment would mean the method worked with a value the finished object does not have (the output stream
    opened for another format / file name than the one the worker then exports)"""
    n = 0
    for cname, c in sorted(cx.model.mods[MOD]['classes'].items()):
        init = next((f for f in c.body if isinstance(f, ast.FunctionDef) and f.name == '__init__'), None)
        if init is None:
            continue

        def reads_of(mname, depth=0, seen=()):
            r = cx.model.find_method(MOD, c, mname)
            if r is None or mname in seen or cx.model.is_property(r[2]):
                return set()
            out = set()
            for x in ast.walk(r[2]):
                if isinstance(x, ast.Attribute) and isinstance(x.value, ast.Name) and x.value.id == 'self':
                    if isinstance(x.ctx, ast.Load):
                        out.add(x.attr)
            if depth < 2:
                for x in list(out):
                    if cx.model.find_method(MOD, c, x) is not None and not cx.model.is_property(cx.model.find_method(MOD, c, x)[2]):
                        out |= reads_of(x, depth + 1, seen + (mname,))
            return out
        for l in cx.leaves_of(MOD, c, init):
            if l.outcome == 'raise':
                continue
            evs = l.effects
            for i, e in enumerate(evs):
                if e[0] == 'call' and e[1][0] == 'call' and e[1][1][0] == 'attr' and e[1][1][1] == ('self',) and not e[1][1][2].startswith('__'):
                    mname = e[1][1][2]
                    rd = reads_of(mname)
                    if not rd:
                        continue
                    n += 1
                    late = [e2 for e2 in evs[i + 1:] if e2[0] == 'store' and e2[1][0] == 'attr' and e2[1][1] == ('self',) and e2[1][2] in rd]
                    rep.ob('a constructor calls a method of the object only after the fields that method reads have their final value', not late, cx.where(MOD, e[3]), '%s.__init__:%s-before-%s' % (cname, mname, late[0][1][2] if late else ''),
                           'self.%s() reads self.%s, which the constructor assigns afterwards (line %s)' % (mname, late[0][1][2], getattr(late[0][3], 'lineno', '?')) if late else None,
                           sample=dict(cls=cname, call=mname, reads=sorted(rd)[:6]))
    rep.floor('constructor self-calls examined', n, 1)


def check(repo, rep):
    cx = Ctx(repo)
    rep.cx = cx
    pr = Protocol(cx, rep)
    if len(pr.inbox) != 1 or pr.stop is None:
        rep.unknown('worker protocol roles not identified')
        return
    check_stop_marker(cx, rep, pr)
    check_ctor_order(cx, rep)
    W = lambda n: cx.where(MOD, n)
    # ================================================================= stream saver
    sc = cx.cls(MOD, 'StreamSaverWorker')
    sdefs = cx.field_defs(MOD, 'StreamSaverWorker')
    cachef = [f for f, ds in sdefs.items() if any(d['method'] == '__init__' and d['value'] == ('list', ()) for d in ds)]
    if not cachef:
        objf = [f for f, ds in sdefs.items() if any(d['method'] == '__init__' and d['value'][0] == 'call' and d['value'][1][0] == 'g' and (cx.model.lookup(d['value'][1]) or ('', None))[0] == 'class'
                                                    and d['value'][1][1] not in ('io', 'util', 'core') for d in ds)]
        if objf:
            rep.unknown('StreamSaverWorker: no list-valued cache field; the blocks seem to be kept in a helper object (%s), whose methods the cache rules do not follow' % objf)
            return
    if not cachef:
        # the pending blocks are kept in some other container (a deque, a bytearray that is extended, ...): the cache rules, written
        # for a list of blocks, do not apply
        rep.unknown('StreamSaverWorker: no list-valued cache field created in the constructor; how pending blocks are kept was not recognised')
        return
    rep.ob('the stream saver has one block cache', len(cachef) == 1, W(sc), 'StreamSaverWorker:cache-field', 'candidates %s' % cachef)
    if len(cachef) != 1:
        return
    cache = cachef[0]
    iscacheapp = lambda t, arg: t[0] == 'call' and t[1] == ('attr', ('attr', ('self',), cache), 'append') and t[2] == (arg,)
    # ---- S1 read(): forward every block to the writer before returning it
    rd = cx.model.find_method(MOD, sc, 'read')
    nrd = 0
    from ..facts import split_ites
    for l in split_ites(cx.leaves_dyn(rd)):
        if l.outcome != 'return':
            continue
        nrd += 1
        inner = [e for e in l.effects if e[0] == 'call' and e[1][0] == 'call' and e[1][1][0] == 'attr' and e[1][1][2] == 'read' and e[1][1][1] != ('self',)]
        rep.ob('saver.read(): the wrapped reader is read exactly once per call', len({id(e[3]) for e in inner}) == 1, cx.where(rd[0], rd[2]), 'StreamSaverWorker.read:inner-reads', '%d inner reads' % len(inner))
        if not inner:
            continue
        blk = inner[0][1]
        isnone0 = any((g := norm_cmp(ct, tr)) and g[0] == 'is' and g[1] == blk and g[2] == ('c', None) for ct, tr, _ in l.conds)
        rep.ob('saver.read(): the tokenizer sees exactly the block the wrapped reader produced', l.value == blk or (isnone0 and l.value == ('c', None)), cx.where(rd[0], l.node), 'StreamSaverWorker.read:returns', 'returns %s' % show(l.value)[:80])
        sends = [e[1] for _, e in self_calls(l, 'send')]
        isdata = any((g := norm_cmp(ct, tr)) and g[0] == 'is not' and g[1] == blk and g[2] == ('c', None) for ct, tr, _ in l.conds) or any(ct == blk and tr for ct, tr, _ in l.conds)
        isnone = any((g := norm_cmp(ct, tr)) and g[0] == 'is' and g[1] == blk and g[2] == ('c', None) for ct, tr, _ in l.conds) or any(ct == blk and not tr for ct, tr, _ in l.conds)
        truthy = [c for c in l.conds if c[0] == blk]
        if truthy:
            # the tokenizer ends the stream on `frame is None` only (C01-C04): a saver that ends it on a falsy block stops its writer on
            # an empty block while the tokenizer keeps reading -- every later block is lost
            rep.ob('saver.read(): end of stream is decided as the tokenizer decides it (block is None), not by truthiness (an empty block is a block)', False, cx.where(rd[0], truthy[0][2]),
                   'StreamSaverWorker.read:truthiness', 'tests `%s` for truth' % show(blk)[:60])
        if isdata:
            ok = len(sends) == 1 and sends[0][2] == (blk,)
            rep.ob('saver.read(): every block is forwarded to the writer exactly once, unconditionally, before it is returned', ok, cx.where(rd[0], l.node), 'StreamSaverWorker.read[DATA]', 'sends %s' % [show(s_)[:60] for s_ in sends],
                   sample=dict(read='DATA', sends=[show(s_)[:60] for s_ in sends], returns=show(l.value)[:50]))
            guards = [c for c in l.conds if not (c[0] == blk or (c[0][0] == 'cmp' and c[0][2] == blk))]
            rep.ob('saver.read(): forwarding does not depend on any other condition (cache state, size, ...)', not guards, cx.where(rd[0], l.node), 'StreamSaverWorker.read[DATA]:guards', 'extra conditions %s' % [show(g[0])[:50] for g in guards])
        elif isnone:
            ok = len(sends) == 1 and pr.isstop(sends[0][2][0])
            rep.ob('saver.read(): end of stream sends the stop marker to the writer', ok, cx.where(rd[0], l.node), 'StreamSaverWorker.read[NONE]', 'sends %s' % [show(s_)[:60] for s_ in sends], sample=dict(read='NONE', sends=[show(s_)[:60] for s_ in sends]))
        else:
            rep.ob('saver.read(): the block is tested against None before forwarding', False, cx.where(rd[0], l.node), 'StreamSaverWorker.read:untested')
    rep.floor('StreamSaverWorker.read paths', nrd, 2)
    # ---- S2 _process_message: cache every block once
    pm = cx.model.find_method(MOD, sc, '_process_message')
    pn = ('p', pm[2].args.args[1].arg)
    for l in cx.leaves_dyn(pm):
        apps = [e for e in l.effects if e[0] == 'call' and iscacheapp(e[1], pn)]
        pre = [e for e in apps if e[4] == 0]
        rep.ob('writer: every received block is appended to the cache exactly once, unconditionally', len(apps) == 1 and len(pre) == 1, cx.where(pm[0], pm[2]), 'StreamSaverWorker._process_message:append', '%d appends (%d unconditional)' % (len(apps), len(pre)),
               sample=dict(writer='_process_message', appends=len(apps)))
    # ---- S4 _write_cached_data: write join(cache) once and empty the cache on the same path
    flush = None
    for n in sc.body:
        if isinstance(n, ast.FunctionDef) and any(isinstance(x, ast.Attribute) and x.attr == 'writeframes' for x in ast.walk(n)) and n.name not in ('_post_process', '_process_message'):
            flush = n
    if flush is None:
        rep.unknown('StreamSaverWorker: flush method not identified')
    else:
        for l in cx.leaves_of(MOD, sc, flush):
            wr = [e for e in l.effects if e[0] == 'call' and e[1][0] == 'call' and e[1][1][0] == 'attr' and e[1][1][2] in ('writeframes', 'writeframesraw')]
            empt = [e for e in l.effects if e[0] == 'store' and e[1] == ('attr', ('self',), cache) and e[2] in (('list', ()), ('tuple', ()))]
            clr = [e for e in l.effects if e[0] == 'call' and e[1] == ('call', ('attr', ('attr', ('self',), cache), 'clear'), (), ())]
            if wr:
                ok = len(wr) == 1 and P.method(P.const(b''), 'join', P.field(cache))(wr[0][1][2][0]) if wr[0][1][2] else False
                rep.ob('flush writes b"".join(cache): the cached blocks in arrival order, nothing else', bool(ok), W(flush), 'StreamSaverWorker.%s:write' % flush.name, 'writes %s' % [show(w[1])[:80] for w in wr], sample=dict(flush=[show(w[1])[:70] for w in wr]))
                rep.ob('flush empties the cache on the same path (no block is written twice)', bool(empt or clr), W(flush), 'StreamSaverWorker.%s:empty-cache' % flush.name)
            else:
                okc = any(ct == ('attr', ('self',), cache) and not tr for ct, tr, _ in l.conds) or not l.conds
                rep.ob('flush skips writing only when the cache is empty', okc, W(flush), 'StreamSaverWorker.%s:skip' % flush.name, 'no write under %s' % [(show(c[0])[:40], c[1]) for c in l.conds])
    # ---- S3 shutdown: drain, flush, close
    def handled_saver(l, msg):
        return sum(1 for e in l.effects if e[0] == 'call' and (iscacheapp(e[1], msg) or e[1] == ('call', ('attr', ('self',), pm[2].name), (msg,), ())))
    for l in drain_facts(cx, pr, rep, 'StreamSaverWorker', handled_saver, 'cached'):
        cs = [(i, e[1]) for i, e in enumerate(l.effects) if e[0] == 'call']
        fl = [i for i, c in cs if flush is not None and c == ('call', ('attr', ('self',), flush.name), (), ())]
        cl = [i for i, c in cs if c[0] == 'call' and c[1][0] == 'attr' and c[1][2] == 'close' and c[1][1][0] == 'attr' and c[1][1][1] == ('self',)]
        ok = len(fl) == 1 and len(cl) == 1 and fl[0] < cl[0]
        rep.ob('saver shutdown: after the drain the cache is flushed and THEN the file is closed', ok, W(cx.model.find_method(MOD, sc, '_post_process')[2]), 'StreamSaverWorker._post_process:flush-close', 'flush at %s, close at %s' % (fl, cl),
               sample=dict(shutdown=['drain', 'flush', 'close']))
    # ---- the tokenizer must not pull a block it will not tokenize (it would be saved but never seen): stop poll before the read
    from .c14 import find_poll, check_tokenizer_read
    poll = find_poll(cx, pr, pr.tok)
    if poll is None:
        rep.unknown('tokenizer worker: stop poll not found')
    else:
        check_tokenizer_read(cx, pr, rep, pr.tok, poll)
    # ================================================================= events joiner
    jc = cx.cls(MOD, 'AudioEventsJoinerWorker')
    jdefs = cx.field_defs(MOD, 'AudioEventsJoinerWorker')
    tested = set()
    for n in jc.body:
        if isinstance(n, ast.FunctionDef):
            for l in cx.leaves_of(MOD, jc, n):
                for c in l.conds:
                    tested |= {x[2] for x in walk(c[0]) if x[0] == 'attr' and x[1] == ('self',)}
    # the two-valued state: a field set to a constant at construction, tested by the worker, and only ever assigned constants
    # (a boolean flag of either polarity, two enum members, two module constants)
    firstf = [f for f, ds in jdefs.items() if any(d['method'] == '__init__' and d['value'][0] == 'c' and d['value'][1] is not None and not isinstance(d['value'][1], (str, bytes, float)) for d in ds)
              and f in tested and all(d['value'][0] == 'c' for d in ds)]
    flag_init = {f: next(d['value'][1] for d in jdefs[f] if d['method'] == '__init__' and d['value'][0] == 'c') for f in firstf}
    flag_other = {}
    for f in list(firstf):
        vals = []
        for d in jdefs[f]:
            if not any(d['value'][1] == x and type(d['value'][1]) == type(x) for x in vals):
                vals.append(d['value'][1])
        others = [x for x in vals if not (x == flag_init[f] and type(x) == type(flag_init[f]))]
        if len(others) == 1:
            flag_other[f] = others[0]
        elif len(others) == 0 and isinstance(flag_init[f], bool):
            flag_other[f] = not flag_init[f]         # a flag that is never changed: the other state is the other boolean
        else:
            firstf.remove(f)
    # the separator field = what the event writer writes before the data on the not-first path
    silf = []
    for n in jc.body:
        if isinstance(n, ast.FunctionDef) and n.name not in ('__init__', '_post_process', '_process_message') and any(isinstance(x, ast.Attribute) and x.attr == 'writeframes' for x in ast.walk(n)):
            for l in cx.leaves_of(MOD, jc, n):
                wr = [e[1][2][0] for e in l.effects if e[0] == 'call' and e[1][0] == 'call' and e[1][1][0] == 'attr' and e[1][1][2] in ('writeframes', 'writeframesraw') and e[1][2]]
                for w in wr:
                    if w[0] == 'attr' and w[1] == ('self',) and w[2] in jdefs and w[2] not in silf:
                        silf.append(w[2])
    if len(firstf) == 1:
        rep.ob('the joiner remembers whether an event was already written (a boolean field set at construction and flipped by the event writer)', True, W(jc), 'AudioEventsJoinerWorker:first-flag', 'candidates %s' % firstf)
    else:
        # no recognisable state: a writer path that tests nothing of self yet writes more than the event itself puts a separator before the
        # first or after the last event -- that is decided; anything else is not
        decided = False
        for n in jc.body:
            if isinstance(n, ast.FunctionDef) and n.name not in ('__init__', '_post_process', '_process_message') and any(isinstance(x, ast.Attribute) and x.attr == 'writeframes' for x in ast.walk(n)):
                for l in cx.leaves_of(MOD, jc, n):
                    if any(x[0] == 'attr' and x[1] == ('self',) for c in l.conds for x in walk(c[0])):
                        continue
                    wr = [e[1][2][0] for e in l.effects if e[0] == 'call' and e[1][0] == 'call' and e[1][1][0] == 'attr' and e[1][1][2] in ('writeframes', 'writeframesraw') and e[1][2]]
                    if len(n.args.args) >= 2 and len(wr) > 1 and ('p', n.args.args[1].arg) in wr:
                        decided = True
                        rep.ob('joiner: a separator is written only between two events (never on a path that does not know whether an event came before)', False, W(n), 'AudioEventsJoinerWorker.%s[unconditional]' % n.name,
                               'writes %s without consulting any state of the worker' % [show(w)[:40] for w in wr])
        if not decided:
            rep.unknown('AudioEventsJoinerWorker: how the joiner remembers whether an event was already written was not recognised (candidates %s)' % firstf)
    if len(silf) != 1:
        rep.unknown('AudioEventsJoinerWorker: separator field not identified (%s)' % silf)
    if len(firstf) == 1 and len(silf) == 1:
        ff, sf = firstf[0], silf[0]
        zero = P.const(b'\x00')
        direct = P.prod(zero, P.call('round', P.prod(P.param('silence_duration'), P.role('sampling_rate'))), P.role('sample_width'), P.role('channels'))
        for d in jdefs[sf]:
            v = d['value']
            viams = v[0] == 'attr' and v[2] == 'data' and v[1][0] == 'call' and v[1][1] == ('g', 'core', 'make_silence')
            if viams or direct(v):
                rep.ob('separator = round(silence_duration * rate) zero samples (make_silence(...).data, as split_and_join_with_silence)', True, W(d['node']), sample=dict(separator=show(v)[:100]))
                if viams:
                    b = bind_call(v[1], cx.fn('core', 'make_silence'))
                    rep.ob('the silence duration argument reaches make_silence', b.get('duration') == ('p', 'silence_duration'), W(d['node']), 'AudioEventsJoinerWorker.__init__:silence-duration', 'duration is %s' % (show(b.get('duration')) if b.get('duration') else None))
            else:
                wrong = [x for x in walk(v) if x[0] == 'call' and term_name(x[1]).split('.')[-1] in ('int', 'floor', 'ceil', 'trunc') and any(y == ('p', 'silence_duration') for y in walk(x))]
                if wrong or any(y == ('p', 'silence_duration') for y in walk(v)):
                    rep.ob('separator = round(silence_duration * rate) zero samples (make_silence(...).data, as split_and_join_with_silence)', False, W(d['node']), 'AudioEventsJoinerWorker.__init__:silence',
                           'separator is %s%s' % (show(v)[:120], ' (not rounded to nearest: differs from make_silence / split_and_join_with_silence)' if wrong else ''))
                else:
                    rep.unknown('AudioEventsJoinerWorker: separator %s not understood' % show(v)[:80])
        wev = None
        for n in jc.body:
            if isinstance(n, ast.FunctionDef) and n.name not in ('__init__', '_post_process', '_process_message') and any(isinstance(x, ast.Attribute) and x.attr == 'writeframes' for x in ast.walk(n)):
                wev = n
        if wev is None:
            rep.unknown('AudioEventsJoinerWorker: event writer not identified')
        else:
            dp = ('p', wev.args.args[1].arg)
            # decided on the two states of the flag: in the state set by the constructor ("no event yet") the event is written alone and
            # the flag leaves that state; in the other state exactly one separator precedes the event and the flag stays
            from ..semantic import evaluator, holds, value, Undecided
            from ..facts import split_ites
            wl_ = split_ites(cx.leaves_of(MOD, jc, wev))
            b0, b1 = flag_init[ff], flag_other[ff]
            try:
                for state, label in ((b0, 'first'), (b1, 'later')):
                    a_ = {('attr', ('self',), ff): state}
                    hit = [l for l in wl_ if holds(l, evaluator(a_))]
                    if len(hit) != 1:
                        raise Undecided('%d paths of %s apply with %s = %s' % (len(hit), wev.name, ff, state))
                    l = hit[0]
                    wr = [e[1][2][0] for e in l.effects if e[0] == 'call' and e[1][0] == 'call' and e[1][1][0] == 'attr' and e[1][1][2] in ('writeframes', 'writeframesraw') and e[1][2]]
                    st = [e for e in l.effects if e[0] == 'store' and e[1] == ('attr', ('self',), ff)]
                    after = value(st[-1][2], evaluator(a_)) if st else state
                    if label == 'first':
                        rep.ob('joiner: the first event is written without leading silence and clears the flag', wr == [dp] and after == b1 and type(after) == type(b1) and l.outcome != 'raise', W(wev), 'AudioEventsJoinerWorker.%s[first]' % wev.name,
                               'writes %s, %s goes from %s to %s' % ([show(w)[:40] for w in wr], ff, state, after), sample=dict(event='first', writes=[show(w)[:40] for w in wr]))
                    else:
                        rep.ob('joiner: every later event is preceded by exactly one separator (silence, then the event)', wr == [('attr', ('self',), sf), dp] and after == b1 and type(after) == type(b1) and l.outcome != 'raise', W(wev),
                               'AudioEventsJoinerWorker.%s[later]' % wev.name, 'writes %s, %s goes from %s to %s' % ([show(w)[:40] for w in wr], ff, state, after), sample=dict(event='later', writes=[show(w)[:40] for w in wr]))
            except Undecided as exc:
                rep.unknown('AudioEventsJoinerWorker.%s: %s' % (wev.name, exc))
            isev = lambda t, msg: t[0] == 'call' and t[1] == ('attr', ('self',), wev.name) and t[2] == (('attr', ('sub', msg, ('c', 1)), 'data'),)
            pmj = cx.model.find_method(MOD, jc, '_process_message')
            mp = ('p', pmj[2].args.args[1].arg)
            for l in cx.leaves_dyn(pmj):
                n_ = sum(1 for e in l.effects if e[0] == 'call' and isev(e[1], mp))
                rep.ob('joiner: each detection message writes its region\'s data (message[1].data) exactly once', n_ == 1 and not l.conds, cx.where(pmj[0], pmj[2]), 'AudioEventsJoinerWorker._process_message', '%d writes' % n_)

            def handled_joiner(l, msg):
                # written directly, or handed to the message hook (which writes it exactly once: decided just above)
                return sum(1 for e in l.effects if e[0] == 'call' and (isev(e[1], msg) or e[1] == ('call', ('attr', ('self',), pmj[2].name), (msg,), ())))
            for l in drain_facts(cx, pr, rep, 'AudioEventsJoinerWorker', handled_joiner, 'written'):
                cl = [e for e in l.effects if e[0] == 'call' and e[1][0] == 'call' and e[1][1][0] == 'attr' and e[1][1][2] == 'close' and e[1][1][1][0] == 'attr' and e[1][1][1][1] == ('self',)]
                extra = [e for e in l.effects if e[0] == 'call' and e[1][0] == 'call' and e[1][1][0] == 'attr' and e[1][1][2] in ('writeframes', 'writeframesraw')]
                rep.ob('joiner shutdown: the file is closed after the drain and nothing is written after the last event', len(cl) == 1 and not extra, W(cx.model.find_method(MOD, jc, '_post_process')[2]), 'AudioEventsJoinerWorker._post_process:close')
    # split_and_join_with_silence uses the same construction
    sj = cx.leaves('core', 'split_and_join_with_silence')
    for l in sj:
        if l.outcome == 'return' and l.value != ('c', None):
            v = l.value
            ok = v[0] == 'call' and v[1][0] == 'attr' and v[1][2] == 'join' and v[1][1][0] == 'call' and v[1][1][1] == ('g', 'core', 'make_silence')
            rep.ob('split_and_join_with_silence = make_silence(d, region parameters).join(regions)', ok, cx.where('core', l.node), 'split_and_join_with_silence', 'returns %s' % show(v)[:120])
    # make_silence formula (shared with C17)
    for l in cx.leaves('core', 'make_silence'):
        if l.outcome == 'return':
            from ..facts import ctor_fields
            d = ctor_fields(cx, l.value).get('data') if l.value[0] == 'call' else None
            nzero = P.prod(P.call('round', P.prod(P.param('duration'), P.role('sampling_rate'))), P.role('sample_width'), P.role('channels'))
            ok = d is not None and (P.prod(P.const(b'\x00'), nzero)(d) or P.call('bytes', nzero)(d) or P.call('bytearray', nzero)(d))
            rep.ob('make_silence(d) = round(d * rate) all-zero samples', ok, cx.where('core', l.node), 'make_silence:data', 'data is %s' % (show(d)[:120] if d else None))
    # ================================================================= region saver
    rc = cx.cls(MOD, 'RegionSaverWorker')
    pmr = cx.model.find_method(MOD, rc, '_process_message')
    mp = ('p', pmr[2].args.args[1].arg)
    idt, reg = ('sub', mp, ('c', 0)), ('sub', mp, ('c', 1))
    for l in cx.leaves_dyn(pmr):
        fm = [e[1] for e in l.effects if e[0] == 'call' and e[1][0] == 'call' and e[1][1][0] == 'attr' and e[1][1][2] == 'format' and e[1][1][1][0] == 'attr' and e[1][1][1][1] == ('self',) and dict(e[1][3]).get('start') is not None]
        sv = [e[1] for e in l.effects if e[0] == 'call' and e[1][0] == 'call' and e[1][1] == ('attr', reg, 'save')]
        rep.ob('region saver: one file per detection (exactly one save call per message)', len(sv) == 1, cx.where(pmr[0], pmr[2]), 'RegionSaverWorker._process_message:save', '%d save calls' % len(sv))
        if fm:
            kws = dict(fm[0][3])
            want = dict(id=[idt], start=[('attr', ('attr', reg, 'meta'), 'start'), ('attr', reg, 'start')], end=[('attr', ('attr', reg, 'meta'), 'end'), ('attr', reg, 'end')], duration=[('attr', reg, 'duration')])
            for k, alts in want.items():
                rep.ob('region saver: {%s} in the file name is the detection\'s %s' % (k, k), kws.get(k) in alts, cx.where(pmr[0], pmr[2]), 'RegionSaverWorker._process_message:%s' % k, '{%s} = %s' % (k, show(kws[k])[:50] if k in kws else 'missing'),
                       sample=dict(placeholder=k, value=show(kws[k])[:40] if k in kws else None))
            if sv:
                rep.ob('region saver: the region is saved under the formatted name with the configured format', sv[0][2][:1] == (fm[0],) and (len(sv[0][2]) < 2 or sv[0][2][1][0] == 'attr'), cx.where(pmr[0], pmr[2]), 'RegionSaverWorker._process_message:save-args', 'save call %s' % show(sv[0])[:120])
        else:
            rep.unknown('RegionSaverWorker: file name formatting not found')
    from .c09 import check_guess_format
    check_guess_format(cx, rep)          # savers and loaders dispatch on the normalised format name
    check_roles(cx, rep, lambda p: cx.in_module(p['where'], 'workers') or p['func'] in ('make_silence', 'split_and_join_with_silence', 'initialize_workers'), floor=20)
    rep.explanation = ('Protocol facts of the three saving workers decided by path enumeration with the message abstracted to {DATA, STOP, Empty}: saver.read() reads the wrapped reader once, returns that block unchanged, '
                       'and forwards it to the writer exactly once and unconditionally before returning (None -> stop marker); the writer appends every block to the cache once; flush writes b"".join(cache) and empties the '
                       'cache on the same path; shutdown = non-blocking drain until Empty (data cached once, stop marker skipped) then flush then close -- so every block is written exactly once in FIFO order whatever '
                       'the cache size or interleaving; joiner: first event alone and flag cleared, later events = separator then event, every message routed through that writer (live and drained), separator = '
                       'make_silence(d, rate, width, channels).data = round(d*rate) zero samples, same construction as split_and_join_with_silence; region saver: one save per message, {id,start,end,duration} from the '
                       'detection. Wave header roles by the role rule. The saver decides end of stream as the tokenizer does (block is None, never truthiness); the joiner\'s first/later typestate is decided by evaluating its event writer in both states of its flag, whatever its polarity. NOT decided: file contents under concrete schedules (argued from these facts + FIFO queue).')
    rep.assumptions = ['queue.Queue is FIFO and thread-safe', 'wave.Wave_write.writeframes appends the given bytes', 'C12 (every message delivered once, in order)']
