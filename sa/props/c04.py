"""C04 -- detection is complete: agreement with the reference greedy segmentation (DESIGN 4.4, 3.3.5)"""
from ..tokrun import feed
from .. import tokenizer
from ._tok_common import TRUSTED, ASSUME, EXPL

LEVEL = 'proof'


def check(repo, rep):
    feed(rep, repo, 'C04', 'c04')
    # constructor facts that C04 relies on (oracle binding) come with the general runs
    from ..tokrun import analyse
    d = analyse(repo)
    for r in d['runs']:
        ct = r.get('ctor')
        if ct:
            for o in ct['obligations']:
                if 'C04' in o['props']:
                    rep.obligations.append(dict(rule=o['rule'], ok=o['ok'], where=o['where']))
            for a in ct['alarms']:
                if 'C04' in a['props'] and not a.get('imprecise'):
                    rep.violations.append(dict(rule=a['rule'], construct='StreamTokenizer.__init__', where=a['where'], message=a['rule'], detail=dict(branch_conditions=a['conds'])))
    rep.explanation = EXPL + (" C04: with init_min <= 1 added to the parameter region, for every reachable abstract state and input the "
                              "code's events (frame kept?, token delivered with which start/end?, open-piece length and continuation status "
                              "afterwards) are compared with the reference step function below, evaluated on the ghost state "
                              "(n=len, r=R, g=A, start=index of first frame, open = n>=1 or g); every case of the reference that is jointly "
                              "feasible with the code path must agree. Also: the loop is not left before end of stream, every token built is "
                              "yielded in the same iteration, no exception on an accepted configuration.")
    rep.extra['reference_step'] = tokenizer.REF_TEXT
    rep.trusted_base = TRUSTED + ['that the reference step function printed in this evidence file is the operational reading of C04 (by inspection, 20 lines)']
    rep.assumptions = ASSUME
    rep.floor('C04 obligations', len(rep.obligations), 300)


def thorough(repo, rep):
    from ..linear_selfcheck import run
    r = run()
    rep.extra['arithmetic_core_selfcheck'] = r
    if r['unsound']:
        rep.unknown('the Fourier-Motzkin core disagreed with brute force on %d of %d random systems: no verdict of this check can be trusted' % (r['unsound'], r['systems']))
    print('arithmetic core self-check: %s' % r)
