"""C01 -- tokens are exact, ordered, non-overlapping slices of the input stream (DESIGN 4.1)"""
from ..tokrun import feed
from ._tok_common import TRUSTED, ASSUME, EXPL

LEVEL = 'proof'


def check(repo, rep):
    feed(rep, repo, 'C01', 'general')
    rep.explanation = EXPL + (" C01 obligations: the frame appended at buffer position k has stream index start+k; at most one append "
                              "per iteration and only of the frame just read; at DELIVER start == index of first frame, end == start+len-1, "
                              "len >= 1, 0 <= start, start > previous end, end <= current index (< stream length at end of stream); the "
                              "delivered buffer is detached from the tokenizer.")
    rep.trusted_base = TRUSTED
    rep.assumptions = ASSUME
    rep.floor('C01 obligations', len(rep.obligations), 200)
