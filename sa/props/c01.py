"""C01 -- tokens are exact, ordered, non-overlapping slices of the input stream (DESIGN 4.1)"""
from ..tokrun import feed
from ._tok_common import TRUSTED, ASSUME, EXPL

LEVEL = 'proof'


def check(repo, rep):
    feed(rep, repo, 'C01', 'general')
    rep.explanation = EXPL + (" C01 obligations: the frame appended at buffer position k has stream index start+k; at most one append "
                              "per iteration and only of the frame just read; at DELIVER start == index of first frame, end == start+len-1, "
                              "len >= 1, 0 <= start, start > previous end, end <= current index (< stream length at end of stream); the "
                              "delivered buffer is detached from the tokenizer.")
    rep.trusted_base = TRUSTED
    rep.assumptions = ASSUME
    rep.floor('C01 obligations', len(rep.obligations), 200)


def thorough(repo, rep):
    from ..linear_selfcheck import run
    r = run()
    rep.extra['arithmetic_core_selfcheck'] = r
    if r['unsound']:
        rep.unknown('the Fourier-Motzkin core disagreed with brute force on %d of %d random systems: no verdict of this check can be trusted' % (r['unsound'], r['systems']))
    print('arithmetic core self-check: %s' % r)
