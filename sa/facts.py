"""Program facts shared by the rule files: cached path enumeration, field definitions, guard tables."""
import ast

from .common import AnalysisError
from .symex import Model, Sym, TooManyPaths, show, walk, NEGATE, FLIP, term_name


class Ctx:
    def __init__(s, repo):
        s.repo = repo
        s.model = Model(repo)
        from . import pat as _pat
        _pat.MODEL = s.model
        s.sx = Sym(s.model, assume={'_WITH_PYDUB': False, '_WITH_TQDM': False})
        s._leaves = {}
        s._fields = {}

    # ---------------------------------------------------------------- modules
    LEGACY = ('core', 'io', 'util', 'workers', 'cmdline', 'cmdline_util', 'signal', 'plotting', 'dataset', 'exceptions', '__init__')

    def code_mods(s):
        """the modules whole-package censuses run over: every module of the package (also ones added later) but the data,
        plotting and exception modules"""
        return [m for m in sorted(s.model.mods) if m not in ('plotting', 'dataset', 'exceptions', '__init__')]

    def in_module(s, where, legacy):
        """does a site (module name or 'auditok/<mod>.py:line') belong to the rules written for module `legacy`?  Code in a
        module that did not exist when the rules were written (a helper module things were moved to) belongs to all of them."""
        m = where
        if where.startswith('auditok/'):
            m = where[len('auditok/'):].split('.py')[0]
        return m == legacy or m not in s.LEGACY

    # ---------------------------------------------------------------- lookup
    def fn(s, mod, qual, required=True):
        """function / method by dotted name as seen from module `mod` -- followed to where it now lives: another module it
        was moved to (imported back or not), a base class or mixin (MRO), a static method behind a module-level alias"""
        f = s.repo.func(mod, qual)
        if f is None:
            parts = qual.split('.')
            h = s.model.home(mod, parts[0])
            if h is not None:
                if len(parts) == 1 and isinstance(h[1], ast.FunctionDef):
                    f = h[1]
                elif len(parts) == 2 and isinstance(h[1], ast.ClassDef):
                    r = s.model.find_method(h[0], h[1], parts[1])
                    f = r[2] if r else None
        if f is None and required:
            raise AnalysisError('function %s.%s not found (anchor vanished)' % (mod, qual))
        return f

    def cls(s, mod, name, required=True):
        c = s.model.mods.get(mod, {}).get('classes', {}).get(name)
        if c is None:
            h = s.model.home(mod, name)
            c = h[1] if h and isinstance(h[1], ast.ClassDef) else None
        if c is None and required:
            raise AnalysisError('class %s.%s not found (anchor vanished)' % (mod, name))
        return c

    def method(s, mod, clsname, name, required=True):
        """MRO-resolved method -> (mod, class node, funcdef)"""
        c = s.cls(mod, clsname, required)
        if c is None:
            return None
        r = s.model.find_method(mod, c, name)
        if r is None and required:
            raise AnalysisError('method %s.%s not found (anchor vanished)' % (clsname, name))
        return r

    def leaves(s, mod, qual, required=True):
        key = (mod, qual)
        if key in s._leaves:
            return s._leaves[key]
        parts = qual.split('.')
        cls = s.cls(mod, parts[0], required) if len(parts) == 2 else None
        fn = s.fn(mod, qual, required)
        if fn is None:
            return None
        try:
            lv = s.sx.run(getattr(fn, '_home', mod), fn, cls=cls)
        except TooManyPaths as exc:
            raise AnalysisError('%s.%s: %s' % (mod, qual, exc))
        lv = split_ites(lv)          # canonical form: a conditional expression in a value / effect is two paths
        s._leaves[key] = lv
        return lv

    def leaves_dyn(s, r):
        """leaves of an MRO-resolved method (Model.find_method result) as it runs for the class the lookup started from"""
        return s.leaves_of(r[0], getattr(r, 'start', r[1]), r[2])

    def leaves_of(s, mod, cls, fn):
        key = ('node', id(fn), id(cls))
        if key not in s._leaves:
            try:
                s._leaves[key] = split_ites(s.sx.run(getattr(fn, '_home', mod), fn, cls=cls))
            except TooManyPaths as exc:
                raise AnalysisError('%s: %s' % (fn.name, exc))
        return s._leaves[key]

    def where(s, mod, node):
        return 'auditok/%s.py:%s' % (_home_of(node, mod), getattr(node, 'lineno', '?'))

    # ---------------------------------------------------------------- fields
    def field_defs(s, mod, clsname):
        """field -> list of dict(method, value term, conds, node) for stores to self.<field> in the class body (not inherited)"""
        key = (mod, clsname)
        if key in s._fields:
            return s._fields[key]
        c = s.cls(mod, clsname)
        out = {}
        # the methods that run for instances of the class: its own and the ones it inherits, unoverridden, from base classes of
        # the package (a private base class or mixin the class was split into); a base method the class overrides runs only
        # through super() / an explicit Base.m(self) call, which is inlined where the rules do not refer to it
        fns, seen_names = [], set()
        try:
            chain = s.model.mro(mod, c)
        except ValueError:
            chain = [(mod, c)]
        for m_, c_ in chain:
            for fn in c_.body:
                if isinstance(fn, ast.FunctionDef):
                    key_ = (fn.name, tuple(ast.unparse(d) for d in fn.decorator_list if isinstance(d, ast.Attribute)))
                    if c_ is c or key_ not in seen_names:
                        fns.append(fn)
                    seen_names.add(key_)
        for fn in fns:
            for l in s.leaves_of(mod, c, fn):
                for e in l.effects:
                    if e[0] == 'store' and e[1][0] == 'attr' and e[1][1] == ('self',):
                        rec = dict(method=fn.name, value=e[2], conds=l.conds[:e[4]], node=e[3])
                        lst = out.setdefault(e[1][2], [])
                        if not any(r['method'] == rec['method'] and r['value'] == rec['value'] and r['node'] is rec['node'] for r in lst):
                            lst.append(rec)
        s._fields[key] = out
        return out


def _home_of(node, mod):
    """module of the definition an AST node sits in (a moved helper reports its own file)"""
    n = node
    for _ in range(60):
        if n is None:
            break
        h = getattr(n, '_home', None)
        if h:
            return h
        n = getattr(n, '_parent', None)
    return mod


# -------------------------------------------------------------------- guards
def norm_cmp(ct, truth=True):
    """canonical form of a comparison condition: (op, lhs, rhs) with negation applied; None if not a comparison"""
    if ct[0] == 'not':
        return norm_cmp(ct[1], not truth)
    if ct[0] != 'cmp':
        return None
    op, a, b = ct[1], ct[2], ct[3]
    if not truth:
        op = NEGATE.get(op)
        if op is None:
            return None
    # constant to the right
    if a[0] == 'c' and b[0] != 'c' and op in FLIP:
        op, a, b = FLIP[op], b, a
    return (op, a, b)


def guard_of(leaf):
    """the last path condition of a raising leaf, normalised"""
    if not leaf.conds:
        return None
    ct, truth, node = leaf.conds[-1]
    return norm_cmp(ct, truth), ct, truth, node


def exc_name(leaf):
    v = leaf.value
    if v is None:
        return None
    if v[0] == 'call':
        v = v[1]
    return term_name(v).split('.')[-1]


def calls_in(leaf, upto=None):
    """(term, node, ncond) of call effects in order"""
    out = []
    for e in leaf.effects:
        if e[0] == 'call':
            out.append((e[1], e[3], e[4]))
    return out


# -------------------------------------------------------------------- constant evaluation
def const_value(cx, t, env=None, depth=0):
    """numeric/bool/str value of a term built from constants, repo module constants, ite over env booleans;
    raises ValueError if not constant"""
    import math
    env = env or {}
    if t is None:
        raise ValueError('none')
    k = t[0]
    if k == 'c':
        return t[1]
    if k == 'p' and t[1] in env:
        return env[t[1]]
    if k == 'g' and depth < 5:
        lk = cx.model.lookup(t)
        if lk and lk[0] == 'const':
            tt = cx.sx.term(lk[1], {}, t[1])
            return const_value(cx, tt, env, depth + 1)
        raise ValueError('not a constant: %s' % (t,))
    if k == 'ext' and t[1] in ('sys.float_info.epsilon',):
        import sys
        return sys.float_info.epsilon
    if k == 'attr' and t[2] == 'eps' and t[1][0] == 'call' and term_name(t[1][1]).endswith('finfo'):
        import sys
        return sys.float_info.epsilon
    if k == 'un' and t[1] == '-':
        return -const_value(cx, t[2], env, depth)
    if k == 'not':
        return not const_value(cx, t[1], env, depth)
    if k == 'ite':
        return const_value(cx, t[2] if const_value(cx, t[1], env, depth) else t[3], env, depth)
    if k == 'bin':
        a, b = const_value(cx, t[2], env, depth), const_value(cx, t[3], env, depth)
        op = t[1]
        return {'+': lambda: a + b, '-': lambda: a - b, '*': lambda: a * b, '/': lambda: a / b, '//': lambda: a // b, '%': lambda: a % b,
                '**': lambda: a ** b, '|': lambda: a | b, '&': lambda: a & b, '^': lambda: a ^ b}[op]()
    if k == 'call':
        name = term_name(t[1])
        args = [const_value(cx, a, env, depth) for a in t[2]]
        if name in ('numpy.log10', 'math.log10') and len(args) == 1:
            return math.log10(args[0])
        if name in ('numpy.sqrt', 'math.sqrt') and len(args) == 1:
            return math.sqrt(args[0])
        if name in ('float', 'int', 'abs') and len(args) == 1:
            return {'float': float, 'int': int, 'abs': abs}[name](args[0])
    raise ValueError('not a constant: %s' % (t[:2],))


# -------------------------------------------------------------------- formulas compared semantically
def role_leaf(t, role, default=None):
    """first sub-term of t that carries the audio-parameter role (attribute, parameter or getter call)"""
    from .symex import ROLE_OF
    for x in walk(t):
        if x[0] == 'attr' and ROLE_OF.get(x[2]) == role:
            return x
        if x[0] == 'p' and ROLE_OF.get(x[1]) == role:
            return x
        if x[0] == 'call' and x[1][0] == 'attr' and not x[2] and ROLE_OF.get(x[1][2]) == role:
            return x
    return default


def mul(*ts):
    out = ts[0]
    for t in ts[1:]:
        out = ('bin', '*', out, t)
    return out


def fcall(name, *args):
    return ('call', ('b', name), tuple(args), ())


def formula(rep, rule, actual, expected, where, construct, what, pattern_ok=None, sample=None, conds=None):
    """obligation `actual` == `expected` as arithmetic formulas over the same leaves: decided by the structural pattern when it
    matches, else by randomised identity testing of the two terms (sa/termeval.py); not evaluable -> INCONCLUSIVE"""
    from .termeval import equivalent
    if actual is None:
        rep.ob(rule, False, where, construct, '%s is missing' % what)
        return False
    if pattern_ok:
        rep.ob(rule, True, where, sample=sample)
        return True
    eq = equivalent(actual, expected, conds=conds)         # compared where the path's own conditions hold (a conditional expression split into paths)
    if eq is None:
        rep.unknown('%s: %s = %s could not be compared with %s' % (construct, what, show(actual)[:80], show(expected)[:80]))
        return None
    rep.ob(rule, eq, where, construct, '%s is %s, expected a formula equal to %s' % (what, show(actual)[:140], show(expected)[:100]), sample=sample)
    return eq


# -------------------------------------------------------------------- robust argument binding
def kwargs_of(call):
    """keyword arguments of a call term including the entries of **{...} dict literals"""
    out = {}
    for k, v in call[3]:
        if k == '**':
            if v[0] == 'dict':
                for kk, vv in v[1]:
                    if kk[0] == 'c' and isinstance(kk[1], str):
                        out[kk[1]] = vv
            else:
                out['**'] = v
        else:
            out[k] = v
    return out


def ctor_fields(cx, call):
    """field/parameter name -> argument term for a call of a repo class (dataclass fields or __init__ parameters) or function"""
    import ast as _ast
    if call is None or call[0] != 'call':
        return {}
    f = call[1]
    names = None
    if f[0] == 'g':
        lk = cx.model.lookup(f)
        if lk and lk[0] == 'class':
            r = cx.model.find_method(f[1], lk[1], '__init__')
            if r:
                names = [a.arg for a in r[2].args.posonlyargs + r[2].args.args][1:]
            else:
                names = [n.target.id for n in lk[1].body if isinstance(n, _ast.AnnAssign) and isinstance(n.target, _ast.Name)]
        elif lk and lk[0] == 'func':
            names = [a.arg for a in lk[1].args.posonlyargs + lk[1].args.args]
    out = {}
    if names is not None:
        for i, a in enumerate(call[2]):
            if a[0] != 'star' and i < len(names):
                out[names[i]] = a
    out.update({k: v for k, v in kwargs_of(call).items() if k != '**'})
    return out


# -------------------------------------------------------------------- conditional expressions as paths
def subst_term(t, old, new):
    if t == old:
        return new
    if isinstance(t, tuple):
        return tuple(subst_term(x, old, new) for x in t)
    return t


def _cond_cases(ct, truth):
    """atomic decompositions of `ct is truth`: list of lists of (atomic term, truth)"""
    if ct[0] == 'not':
        return _cond_cases(ct[1], not truth)
    if ct[0] in ('and', 'or'):
        conj = (ct[0] == 'and') == truth           # and-true / or-false: all parts decided the same way
        if conj:
            res = [[]]
            for p in ct[1]:
                res = [r + c for r in res for c in _cond_cases(p, truth)]
            return res
        res = []
        prefix = [[]]
        for p in ct[1]:
            for pre in prefix:
                for c in _cond_cases(p, truth):
                    res.append(pre + c)
            prefix = [pre + c for pre in prefix for c in _cond_cases(p, not truth)]
        return res
    return [[(ct, truth)]]


def _first_ite(l):
    terms = [l.value] + [x for e in l.effects for x in (e[1], e[2]) if isinstance(x, tuple)]
    for t in terms:
        if t is None:
            continue
        for x in walk(t):
            if x[0] == 'ite':
                return x
    return None


def split_ites(leaves, limit=24):
    """leaves in which no value / effect term contains a conditional expression: each `a if c else b` becomes two paths with c
    (split into its atomic parts) among the path conditions.  Paths contradicting a pure condition already taken are dropped."""
    from .symex import _pure
    out = []
    work = list(leaves)
    while work:
        l = work.pop(0)
        ite = _first_ite(l)
        if ite is None or len(out) + len(work) > limit:
            out.append(l)
            continue
        for truth, repl in ((True, ite[2]), (False, ite[3])):
            for case in _cond_cases(ite[1], truth):
                n = l.clone()
                ok = True
                for ct, tr in case:
                    prev = [t0 for c0, t0, _ in n.conds if c0 == ct]
                    if prev and _pure(ct):
                        if prev[0] != tr:
                            ok = False
                            break
                        continue
                    n.conds.append((ct, tr, l.node))
                if not ok:
                    continue
                n.value = subst_term(n.value, ite, repl) if n.value is not None else None
                n.conds = [(subst_term(c0, ite, repl), t0, n0) for c0, t0, n0 in n.conds]
                neff = []
                for e in n.effects:
                    a1 = subst_term(e[1], ite, repl) if isinstance(e[1], tuple) else e[1]
                    a2 = subst_term(e[2], ite, repl) if isinstance(e[2], tuple) else e[2]
                    rest = tuple(e[3:])
                    if (a1 != e[1] or a2 != e[2]) and len(rest) >= 2 and isinstance(rest[1], int):
                        rest = (rest[0], len(n.conds)) + rest[2:]        # the effect now happens under the condition of the conditional expression
                    neff.append((e[0], a1, a2) + rest)
                n.effects = neff
                n.notes = [(nt[0], nt[1], {k_: (subst_term(v_, ite, repl) if isinstance(v_, tuple) else v_) for k_, v_ in nt[2].items()}) if isinstance(nt, tuple) and len(nt) == 3 and nt[0] == 'loop-end-env' and isinstance(nt[2], dict) else nt
                           for nt in n.notes]
                n.env = {k_: (subst_term(v_, ite, repl) if isinstance(v_, tuple) else v_) for k_, v_ in n.env.items()}
                work.append(n)
    return out


def path_cond(leaf, upto=None):
    """the path condition of a leaf as one boolean term"""
    cs = leaf.conds if upto is None else leaf.conds[:upto]
    parts = tuple(ct if tr else ('not', ct) for ct, tr, _ in cs)
    if not parts:
        return ('c', True)
    return ('and', parts) if len(parts) > 1 else parts[0]


# -------------------------------------------------------------------- definitions of derived fields
def self_field_exprs(cx, mod, clsname):
    """field -> the one term it is defined as in __init__ / __post_init__ (plain store or object.__setattr__(self, "f", v)),
    for fields with exactly one unconditional definition that is not a bare parameter"""
    key = ('fexpr', mod, clsname)
    if key in cx._fields:
        return cx._fields[key]
    c = cx.cls(mod, clsname)
    cand = {}
    for mname in ('__init__', '__post_init__'):
        r = cx.model.find_method(mod, c, mname)
        if r is None or r[1] is not c:
            continue
        lv = cx.leaves_dyn(r)
        ok_leaves = [l for l in lv if l.outcome != 'raise']
        for l in ok_leaves:
            for e in l.effects:
                f = v = None
                if e[0] == 'store' and e[1][0] == 'attr' and e[1][1] == ('self',):
                    f, v = e[1][2], e[2]
                elif e[0] == 'call' and e[1][0] == 'call' and e[1][1] == ('attr', ('b', 'object'), '__setattr__') and len(e[1][2]) == 3 and e[1][2][0] == ('self',) and e[1][2][1][0] == 'c':
                    f, v = e[1][2][1][1], e[1][2][2]
                if f is not None:
                    cand.setdefault(f, set()).add(v)
    out = {f: next(iter(vs)) for f, vs in cand.items() if len(vs) == 1 and next(iter(vs))[0] not in ('p', 'c')}
    cx._fields[key] = out
    return out


def opaque_helper_calls(cx, t):
    """calls, inside a term, of repository functions / methods of self that the rules do not know by name and that the evaluator
    could not inline (several paths inside an expression it cannot hoist, a generator, ...): a rule that fails on such a term did
    not see the value and must answer INCONCLUSIVE"""
    from .known_names import KNOWN
    out = []
    for x in walk(t):
        if x[0] == 'call':
            f = x[1]
            if f[0] == 'g' and f[1] in cx.model.mods and '%s.%s' % (f[1], f[2]) not in KNOWN and cx.model.lookup(f) and cx.model.lookup(f)[0] == 'func':
                out.append(x)
            elif f[0] == 'attr' and f[1] == ('self',) and f[2].startswith('_') and not any(k.endswith('.' + f[2]) for k in KNOWN):
                out.append(x)
        elif x[0] == 'localfunc':
            out.append(x)
    return out


def tuple_fields(cx, g):
    """field names, in order, of a typing.NamedTuple subclass / collections.namedtuple defined in the repository (None otherwise)"""
    import ast as _ast
    lk = cx.model.lookup(g) if g and g[0] == 'g' else None
    if lk and lk[0] == 'class' and any((isinstance(b, _ast.Name) and b.id == 'NamedTuple') or (isinstance(b, _ast.Attribute) and b.attr == 'NamedTuple') for b in lk[1].bases):
        return [n.target.id for n in lk[1].body if isinstance(n, _ast.AnnAssign) and isinstance(n.target, _ast.Name)]
    if lk and lk[0] == 'const' and isinstance(lk[1], _ast.Call) and _ast.unparse(lk[1].func).endswith('namedtuple') and len(lk[1].args) == 2:
        try:
            spec = _ast.literal_eval(lk[1].args[1])
            return spec.replace(',', ' ').split() if isinstance(spec, str) else list(spec)
        except (ValueError, SyntaxError):
            return None
    return None


def tuple_components(cx, v):
    """component terms of a value that is a tuple: a tuple literal, or the construction of a typing.NamedTuple subclass /
    collections.namedtuple defined in the repository (fields in declaration order)"""
    if v is None:
        return None
    if v[0] == 'tuple':
        return list(v[1])
    if v[0] == 'call' and v[1][0] == 'g':
        fields = tuple_fields(cx, v[1])
        if fields:
            byname = dict(zip(fields, v[2]))
            byname.update({k: x for k, x in v[3] if k in fields})
            if len(byname) == len(fields):
                return [byname[f] for f in fields]
    return None
