"""Typestate of the recording wrapper (`_Recorder`) decided on a finite abstract machine (DESIGN 10.5e).

The methods of the class are taken as the path evaluator gives them (conditions, ordered effects, result terms, every helper
inlined).  They are interpreted over a small abstract domain -- what a field can hold, not how it is called:

    None | constant | list that holds EXACTLY the blocks handed out so far (R) / some other list (X), empty or not |
    b"".join of R / other bytes | the original source | a BufferAudioSource over join(R) or over other bytes, at its start or
    not, open or not | a bound method of self | a bound method of a source | a block read from a source | unknown

and the reachable abstract states are explored to a fixpoint under the operations read() (which yields a block or None),
rewind() and data.  The property's clauses are checked on that machine, whatever fields, flags, method pointers or state
constants the class uses to remember where it is:

  * before the first rewind, `data` raises;
  * read() in recording mode hands out the wrapped source's block unchanged, and the recording stays equal to the blocks handed out;
  * after a rewind, `data` is join(R): exactly what was handed out before the FIRST rewind -- also after reads and further rewinds;
  * after every rewind the next read comes from an open in-memory source over join(R) positioned at its start, and is not recorded again.

A term the machine cannot interpret makes the affected clause undecided (INCONCLUSIVE), never a violation.
"""
import ast

from .semantic import deep_leaves, Undecided
from .symex import show, walk, term_name
from .facts import norm_cmp

NONE = ('none',)
TOP = ('top',)
ORIG = ('src', 'orig')


class Stuck(Exception):
    pass


def truth(v):
    """three-valued truthiness of an abstract value: True / False / None (unknown)"""
    k = v[0]
    if k == 'none':
        return False
    if k == 'const':
        return bool(v[1])
    if k == 'seq':
        return bool(v[2])
    if k in ('src', 'method', 'bound', 'block'):
        return True            # a block is never empty bytes (C11)
    return None


class Machine:
    def __init__(s, cx, mod, clsname):
        s.cx = cx
        s.mod = mod
        s.cls = cx.cls(mod, clsname)
        s.violations = []       # (clause, trace, message)
        s.undecided = []
        s.states_seen = 0

    # ------------------------------------------------------------ leaves
    def leaves(s, name, setter=False):
        m = s.cx.model.find_method(s.mod, s.cls, name)
        if m is None:
            raise Stuck('method %s not found' % name)
        try:
            return m, deep_leaves(s.cx, m[0], s.cls, m[2])
        except Undecided as exc:
            raise Stuck(str(exc))

    # ------------------------------------------------------------ abstract evaluation of terms
    def ev(s, t, st, env, cache):
        if t is None:
            return NONE
        if t in cache:
            return cache[t]
        k = t[0]
        if k == 'c':
            return NONE if t[1] is None else ('const', t[1])
        if k == 'p':
            return env.get(t[1], TOP)
        if k == 'self':
            return ('self',)
        if k == 'list' and not t[1]:
            return ('seq', 'R' if not st['#Rn'] and not st['#frozen'] else 'X', 0)
        if k == 'attr':
            base = s.ev(t[1], st, env, cache)
            if base == ('self',):
                if t[2] in st:
                    return st[t[2]]
                if s.cx.model.find_method(s.mod, s.cls, t[2]) is not None and not s.cx.model.is_property(s.cx.model.find_method(s.mod, s.cls, t[2])[2]):
                    return ('method', t[2])
                for m_, c_ in s.cx.model.mro(s.mod, s.cls):          # a class-level constant read through self
                    for n in c_.body:
                        if isinstance(n, ast.Assign) and len(n.targets) == 1 and isinstance(n.targets[0], ast.Name) and n.targets[0].id == t[2] and isinstance(n.value, ast.Constant):
                            return NONE if n.value.value is None else ('const', n.value.value)
                return TOP
            if base[0] == 'src':
                if t[2] in ('read', 'rewind', 'open', 'close', 'is_open'):
                    return ('bound', base, t[2])
                return TOP
            return TOP
        if k == 'not':
            tv = truth(s.ev(t[1], st, env, cache))
            return TOP if tv is None else ('const', not tv)
        if k == 'cmp':
            a, b = s.ev(t[2], st, env, cache), s.ev(t[3], st, env, cache)
            op = t[1]
            if op in ('is', 'is not', '==', '!='):
                if a[0] == 'top' or b[0] == 'top':
                    return TOP
                if a[0] == 'none' or b[0] == 'none':
                    same = a[0] == b[0]
                elif a[0] == 'const' and b[0] == 'const':
                    same = a[1] == b[1]
                elif a[0] != b[0]:
                    same = False
                else:
                    return TOP
                return ('const', same if op in ('is', '==') else not same)
            return TOP
        if k in ('and', 'or'):
            vals = [truth(s.ev(x, st, env, cache)) for x in t[1]]
            if k == 'and':
                if any(v is False for v in vals):
                    return ('const', False)
                return ('const', True) if all(v is True for v in vals) else TOP
            if any(v is True for v in vals):
                return ('const', True)
            return ('const', False) if all(v is False for v in vals) else TOP
        if k == 'localfunc':
            # a function defined inside a method (a closure over self) stored in a field: found again by the identity of its node
            for m_, c_ in s.cx.model.mro(s.mod, s.cls):
                for fn in c_.body:
                    if isinstance(fn, ast.FunctionDef):
                        for x in ast.walk(fn):
                            if isinstance(x, ast.FunctionDef) and id(x) == t[2]:
                                return ('closure', m_, x)
            return TOP
        if k == 'call':
            return TOP            # calls are evaluated where they happen (effects), their results cached by term
        return TOP

    # ------------------------------------------------------------ execution of one method path
    def run_method(s, name, args, st, choice, depth=0):
        """-> list of (state', outcome 'return'|'raise', value AV, exception name, events) over the feasible paths"""
        if depth > 3:
            raise Stuck('call depth')
        m, lv = s.leaves(name)
        params = [a.arg for a in m[2].args.args][1:]
        env = dict(zip(params, args))
        out = []
        for l in lv:
            for res in s.run_leaf(l, dict(st), env, choice, depth):
                out.append(res)
        return out

    def run_leaf(s, l, st, env, choice, depth):
        """interpret the ordered effects of one path; `choice` decides what inner reads yield ('block' | 'none').
        yields (state, outcome, value, excname, events) if every condition is (possibly) satisfied"""
        cache = {}
        events = []
        unknown_cond = False
        # conditions are checked as the effects reach their position (ncond), so that they see the state of that moment
        conds = list(l.conds)
        checked = 0

        def check_upto(n):
            nonlocal checked, unknown_cond
            while checked < min(n, len(conds)):
                ct, tr, _ = conds[checked]
                checked += 1
                v = s.ev(ct, st, env, cache)
                tv = truth(v)
                if tv is None:
                    unknown_cond = True
                elif tv != tr:
                    return False
            return True
        for e in l.effects:
            if not check_upto(e[4] if len(e) > 4 and isinstance(e[4], int) else len(conds)):
                return
            if e[0] == 'store' and e[1][0] == 'attr' and e[1][1] == ('self',):
                st[e[1][2]] = s.ev(e[2], st, env, cache)
            elif e[0] == 'call' and e[1][0] == 'call':
                t = e[1]
                try:
                    cache[t] = s.do_call(t, st, env, cache, choice, events, depth)
                except Stuck:
                    raise
            elif e[0] == 'except':
                return            # exception handlers of calls the machine lets succeed are not explored
        if not check_upto(len(conds)):
            return
        if unknown_cond:
            raise Stuck('a condition of %s depends on a value the abstract machine does not track (%s)' % (getattr(l.node, 'lineno', '?'), [show(c[0])[:50] for c in conds]))
        if l.outcome == 'raise':
            yield st, 'raise', None, (term_name(l.value[1] if l.value and l.value[0] == 'call' else l.value).split('.')[-1] if l.value else None), events
        else:
            val = s.ev(l.value, st, env, cache) if l.value is not None else NONE
            if l.value is not None and l.value[0] == 'call' and l.value not in cache:
                val = TOP
            yield st, 'return', val, None, events

    def do_call(s, t, st, env, cache, choice, events, depth):
        f = t[1]
        args = [s.ev(a, st, env, cache) for a in t[2]]
        # b"".join(x)
        if f[0] == 'attr' and f[2] == 'join' and f[1][0] == 'c' and f[1][1] == b'' and len(args) == 1:
            a = args[0]
            if a[0] == 'seq':
                return ('bytes', a[1])
            if a[0] == 'none':
                raise Stuck('b"".join(None)')
            return ('bytes', 'X') if a[0] != 'top' else TOP
        if f[0] == 'g' and f[2] == 'BufferAudioSource':
            a = args[0] if args else TOP
            if a[0] == 'bytes':
                return ('src', 'buf', a[1], True, False)
            return TOP
        if f[0] == 'attr':
            recv = s.ev(f[1], st, env, cache)
            name = f[2]
            if recv[0] == 'seq' and name == 'append' and len(args) == 1:
                # which field holds this list?  update every field holding it (aliasing through fields is not tracked further)
                new = None
                if args[0][0] == 'block' and recv[1] == 'Rold':
                    new = ('seq', 'R', 1)
                else:
                    new = ('seq', 'X', 1)
                for k_, v_ in list(st.items()):
                    if not k_.startswith('#') and v_ == recv and f[1] == ('attr', ('self',), k_):
                        st[k_] = new
                events.append(('append', args[0]))
                return NONE
            if recv[0] == 'none' and name in ('append', 'read', 'rewind'):
                raise Stuck('%s on None' % name)
            if recv == ('self',):
                if name in st:
                    if st[name][0] not in ('method', 'bound', 'closure'):
                        raise Stuck('self.%s is called but what it holds (%s) is not tracked' % (name, st[name][0]))
                    return s.call_value(st[name], args, st, choice, events, depth)
                if s.cx.model.find_method(s.mod, s.cls, name) is not None:
                    res = s.run_method(name, args, st, choice, depth + 1)
                    if len(res) != 1:
                        raise Stuck('%d paths of self.%s apply' % (len(res), name))
                    st2, oc, val, exn, ev2 = res[0]
                    if oc == 'raise':
                        raise Stuck('self.%s raises %s' % (name, exn))
                    st.clear()
                    st.update(st2)
                    events.extend(ev2)
                    return val
                return TOP
            if recv[0] == 'src':
                return s.src_call(recv, name, f[1], st, choice, events)
            if recv[0] == 'bound':
                return TOP
        if f[0] == 'attr' and f[1][0] == 'call' and f[1][1] == ('b', 'super') and f[2] == '__init__':
            base = s.cx.model.find_method(s.mod, s.cls, '__init__', skip_self=True)
            if base is not None:
                params = [a.arg for a in base[2].args.args][1:]
                for l in deep_leaves(s.cx, base[0], s.cls, base[2]):
                    for e in l.effects:
                        if e[0] == 'store' and e[1][0] == 'attr' and e[1][1] == ('self',):
                            st[e[1][2]] = s.ev(e[2], st, dict(zip(params, args)), {})
            return NONE
        return TOP

    def call_value(s, fv, args, st, choice, events, depth):
        if fv[0] == 'method':
            res = s.run_method(fv[1], args, st, choice, depth + 1)
            if len(res) != 1:
                raise Stuck('%d paths of self.%s apply' % (len(res), fv[1]))
            st2, oc, val, exn, ev2 = res[0]
            if oc == 'raise':
                raise Stuck('self.%s raises %s' % (fv[1], exn))
            st.clear()
            st.update(st2)
            events.extend(ev2)
            return val
        if fv[0] == 'closure':
            fn = fv[2]
            params = [a.arg for a in fn.args.args]
            env = dict(zip(params, args))
            res = []
            for l in deep_leaves(s.cx, fv[1], s.cls, fn):
                res += list(s.run_leaf(l, dict(st), env, choice, depth + 1))
            if len(res) != 1:
                raise Stuck('%d paths of the closure %s apply' % (len(res), fn.name))
            st2, oc, val, exn, ev2 = res[0]
            if oc == 'raise':
                raise Stuck('closure %s raises %s' % (fn.name, exn))
            st.clear()
            st.update(st2)
            events.extend(ev2)
            return val
        if fv[0] == 'bound':
            # the source the method was bound to may have been replaced in the fields since; it is that object all the same
            return s.src_call(fv[1], fv[2], None, st, choice, events)
        return TOP

    def src_call(s, src, name, recv_term, st, choice, events):
        def update(new):
            for k_, v_ in list(st.items()):
                if not k_.startswith('#') and v_ == src:
                    st[k_] = new
                elif not k_.startswith('#') and v_[0] == 'bound' and v_[1] == src:
                    st[k_] = ('bound', new, v_[2])
        if name == 'read':
            events.append(('inner-read', src))
            if src[1] == 'buf':
                update(src[:3] + (False,) + src[4:])
            return ('block', src[:3]) if choice == 'block' else NONE
        if name == 'rewind':
            events.append(('inner-rewind', src))
            if src[1] == 'buf':
                update(src[:3] + (True,) + src[4:])
            return NONE
        if name == 'open':
            events.append(('inner-open', src))
            if src[1] == 'buf':
                update(src[:4] + (True,))
            return NONE
        if name == 'close':
            if src[1] == 'buf':
                update(src[:4] + (False,))
            return NONE
        return TOP

    # ------------------------------------------------------------ exploration
    def initial(s):
        st = {'#Rn': 0, '#frozen': 0, '#rewinds': 0, '#fresh': 0}
        res = []
        m, lv = s.leaves('__init__')
        params = [a.arg for a in m[2].args.args][1:]
        env = {params[0]: ORIG} if params else {}
        for l in lv:
            res += list(s.run_leaf(l, dict(st), env, 'block', 0))
        res = [r for r in res if r[1] == 'return']
        if len(res) != 1:
            raise Stuck('%d constructor paths' % len(res))
        return res[0][0]

    @staticmethod
    def key(st):
        return tuple(sorted(st.items()))

    def explore(s, max_states=400):
        try:
            st0 = s.initial()
        except (Stuck, Undecided) as exc:
            s.undecided.append('constructor: %s' % exc)
            return
        seen = {s.key(st0)}
        work = [(st0, ())]
        while work:
            st, trace = work.pop(0)
            s.states_seen += 1
            if s.states_seen > max_states:
                s.undecided.append('more than %d abstract states' % max_states)
                return
            for op, choice in (('data', None), ('read', 'block'), ('read', 'none'), ('rewind', None)):
                tr2 = trace + ((op if choice is None else '%s->%s' % (op, 'block' if choice == 'block' else 'None')),)
                try:
                    nxt = s.step(st, op, choice, tr2)
                except (Stuck, Undecided) as exc:
                    s.undecided.append('%s: %s' % (' ; '.join(tr2), exc))
                    continue
                for st2 in nxt:
                    k = s.key(st2)
                    if k not in seen and len(tr2) < 7:
                        seen.add(k)
                        work.append((st2, tr2))

    def step(s, st, op, choice, trace):
        T = ' ; '.join(trace)
        out = []
        if op == 'data':
            g = None
            for m_, c_ in s.cx.model.mro(s.mod, s.cls):
                for n in c_.body:
                    if isinstance(n, ast.FunctionDef) and n.name == 'data' and any(isinstance(d, ast.Name) and d.id == 'property' for d in n.decorator_list):
                        g = g or (m_, c_, n)
            if g is None:
                raise Stuck('no data property')
            res = []
            for l in deep_leaves(s.cx, g[0], s.cls, g[2]):
                res += list(s.run_leaf(l, dict(st), {}, 'block', 0))
            if not res:
                raise Stuck('no path of data applies')
            for st2, oc, val, exn, _ in res:
                if st['#rewinds'] == 0:
                    if oc != 'raise':
                        s.violations.append(('data before the first rewind raises an error instead of returning partial data', T, 'data returns %s' % (val,)))
                else:
                    if oc == 'raise':
                        s.violations.append(('after a rewind, data is exactly what was read before the first rewind', T, 'data raises %s' % exn))
                    elif val == TOP:
                        raise Stuck('value of data not tracked')
                    elif val != ('bytes', 'R'):
                        s.violations.append(('after a rewind, data is exactly what was read before the first rewind', T, 'data is %s' % (('bytes that are not the blocks handed out before the first rewind' if val[0] == 'bytes' else str(val)))))
            return []
        if op == 'read':
            pre = dict(st)
            recording = st['#rewinds'] == 0
            if recording:
                for k_, v_ in list(pre.items()):
                    if not k_.startswith('#') and v_[0] == 'seq' and v_[1] == 'R':
                        pre[k_] = ('seq', 'Rold', v_[2])
            res = s.run_method('read', [TOP], pre, choice)
            if not res:
                raise Stuck('no path of read applies')
            for st2, oc, val, exn, events in res:
                if oc == 'raise':
                    raise Stuck('read raises %s' % exn)
                inner = [e for e in events if e[0] == 'inner-read']
                if len(inner) != 1:
                    s.violations.append(('read() reads the wrapped source exactly once', T, '%d inner reads' % len(inner)))
                    continue
                src = inner[0][1]
                want = ('block', src[:3]) if choice == 'block' else NONE
                if val == TOP:
                    raise Stuck('result of read not tracked')
                if val != want:
                    s.violations.append(('read() hands out the wrapped source\'s block unchanged', T, 'returns %s' % (val,)))
                if recording:
                    if src != ORIG:
                        s.violations.append(('before the first rewind, blocks come from the original source', T, 'reads %s' % (src,)))
                    if choice == 'block':
                        st2['#Rn'] = 1
                    lists = [(k_, v_) for k_, v_ in st2.items() if not k_.startswith('#') and v_[0] == 'seq']
                    for k_, v_ in lists:
                        if v_[1] == 'Rold':
                            st2[k_] = ('seq', 'R', v_[2]) if choice != 'block' else ('seq', 'X', v_[2])
                    if not any(v_[0] == 'seq' and v_[1] == 'R' for k_, v_ in st2.items() if not k_.startswith('#')):
                        s.violations.append(('every block handed out while recording is recorded exactly once, end of stream is not', T,
                                             'after the read no list of the recorder holds exactly the blocks handed out (appends on the path: %d)' % sum(1 for e in events if e[0] == 'append')))
                        continue
                else:
                    if src[1] != 'buf' or src[2] != 'R':
                        s.violations.append(('after a rewind, reads replay the recorded data', T, 'reads %s' % (src,)))
                    elif st['#fresh'] and not (src[3] and src[4]):
                        s.violations.append(('after a rewind the replay source is open and at its start', T, 'the in-memory source is %s and %s' % ('at its start' if src[3] else 'NOT at its start', 'open' if src[4] else 'NOT open')))
                    st2['#fresh'] = 0
                out.append(st2)
            return out
        if op == 'rewind':
            res = s.run_method('rewind', [], dict(st), 'block')
            if not res:
                raise Stuck('no path of rewind applies')
            for st2, oc, val, exn, events in res:
                if oc == 'raise':
                    s.violations.append(('a recording reader can be rewound', T, 'rewind raises %s' % exn))
                    continue
                if st['#rewinds'] == 0:
                    st2['#frozen'] = 1
                    # lists tagged R keep the tag: R is frozen from here on
                st2['#rewinds'] = min(2, st['#rewinds'] + 1)
                st2['#fresh'] = 1
                out.append(st2)
            return out
        return out
