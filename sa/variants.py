"""Seeded edits (must FIRE) and twins (must stay SILENT) for the self-test (DESIGN 8, Appendix C).
Each edit = (relative file, exact old text occurring once, new text)."""

CORE = 'auditok/core.py'
UTIL = 'auditok/util.py'
IO = 'auditok/io.py'
WORKERS = 'auditok/workers.py'
CMD = 'auditok/cmdline.py'
CMDU = 'auditok/cmdline_util.py'
SIG = 'auditok/signal.py'

VARIANTS = []


def fires(id, props, edits, what='', names=None):
    VARIANTS.append(dict(id=id, kind='fires', props=props if isinstance(props, list) else [props], edits=edits, what=what, names=names))


def silent(id, props, edits, what=''):
    VARIANTS.append(dict(id=id, kind='silent', props=props if isinstance(props, list) else [props], edits=edits, what=what))


TOK = ['C01', 'C02', 'C03', 'C04']

# ------------------------------------------------------------------ tokenizer: fires
fires('m01-start-no-plus1', ['C01'], [(CORE, "                self._start_frame = self._current_frame + 1\n", "                self._start_frame = self._current_frame\n")],
      'continuation starts at the cut frame itself')
fires('m02-end-off-by-one', ['C01'], [(CORE, "            end_frame = self._start_frame + len(self._data) - 1\n", "            end_frame = self._start_frame + len(self._data)\n")])
fires('m03-counter-after-none', ['C01'], [(CORE, """            frame = data_source.read()
            self._current_frame += 1
            if frame is None:
""", """            frame = data_source.read()
            if frame is None:
"""), (CORE, """            token = self._process(frame)
            if token is not None:
                yield token
""", """            token = self._process(frame)
            self._current_frame += 1
            if token is not None:
                yield token
""")], 'counter incremented after processing: every index shifted by one')
fires('m04-reinit-zero', ['C01'], [(CORE, "        self._current_frame = -1\n", "        self._current_frame = 0\n")])
fires('m05-D1-reintroduced', ['C02'], [(CORE, """                    self._data = []
                    self._silence_length = 0
                    self._contiguous_token = False
""", """                    self._data = []
                    self._silence_length = 0
""")], 'stale continuation flag (finding D1)')
fires('m06-D2-reintroduced', ['C02'], [(CORE, """                elif len(self._data) >= self.max_length:
                    # max_length is reached before init_min, back to silence
                    self._data = []
                    self._state = self.SILENCE
""", "")], 'no length test in the initial phase (finding D2)')
fires('m07-ps-cut-gt', ['C02'], [(CORE, """                    self._silence_length += 1
                    if len(self._data) >= self.max_length:
                        return self._process_end_of_detection(True)
""", """                    self._silence_length += 1
                    if len(self._data) > self.max_length:
                        return self._process_end_of_detection(True)
""")])
fires('m08-ctor-no-min-gt-max', ['C02'], [(CORE, "        if min_length <= 0 or min_length > max_length:\n", "        if min_length <= 0:\n")])
fires('m09-ctor-silence-gt', ['C02'], [(CORE, "        if max_continuous_silence >= max_length:\n            err_msg = \"'max_continuous_silence' must", "        if max_continuous_silence > max_length:\n            err_msg = \"'max_continuous_silence' must")])
fires('m10-tolerance-gt', ['C03'], [(CORE, "                if self._silence_length >= self.max_continuous_silence:\n", "                if self._silence_length > self.max_continuous_silence:\n")])
fires('m11-reset-silence-at-cut', ['C03'], [(CORE, """                    if len(self._data) >= self.max_length:
                        return self._process_end_of_detection(True)
                        # don't reset _silence_length because we still
                        # need to know the total number of silent frames

    def _post_process""", """                    if len(self._data) >= self.max_length:
                        self._silence_length = 0
                        return self._process_end_of_detection(True)

    def _post_process""")], 'silence run forgotten at a cut: run may exceed the tolerance across the cut')
fires('m12-flush-all-silent', ['C03'], [(CORE, "            if len(self._data) > 0 and len(self._data) > self._silence_length:\n", "            if len(self._data) > 0:\n")])
fires('m13-drop-when-truncated', ['C03', 'C04'], [(CORE, """        if (
            not truncated
            and self._drop_trailing_silence
            and self._silence_length > 0
        ):""", """        if (
            self._drop_trailing_silence
            and self._silence_length > 0
        ):""")])
fires('m14-flush-only-noise', ['C04'], [(CORE, "        if self._state == self.NOISE or self._state == self.POSSIBLE_SILENCE:\n", "        if self._state == self.NOISE:\n")])
fires('m15-ps-overflow-le', ['C04'], [(CORE, "                    if self._silence_length < len(self._data):\n", "                    if self._silence_length <= len(self._data):\n")],
      'all-silent remainder delivered')
fires('m16-open-one-late', ['C04'], [(CORE, """                self._start_frame = self._current_frame
                self._data.append(frame)

                if self._init_count >= self.init_min:""", """                self._start_frame = self._current_frame + 1

                if self._init_count >= self.init_min:""")], 'first valid frame of an event not kept')
fires('m17-no-silence-state-after-close', ['C04', 'C02', 'C03'], [(CORE, """            elif self.max_continuous_silence <= 0:
                # max token reached at this frame will _deliver if
                # _contiguous_token and not _strict_min_length
                self._state = self.SILENCE
                return self._process_end_of_detection()""", """            elif self.max_continuous_silence <= 0:
                return self._process_end_of_detection()""")])
fires('m18-strict-ignored', ['C02'], [(CORE, "            and not self._strict_min_length\n", "")])
fires('m19-append-twice', ['C01'], [(CORE, """            if frame_is_valid:
                self._data.append(frame)
                if len(self._data) >= self.max_length:
                    return self._process_end_of_detection(True)

            elif self.max_continuous_silence <= 0:""", """            if frame_is_valid:
                self._data.append(frame)
                self._data.append(frame)
                if len(self._data) >= self.max_length:
                    return self._process_end_of_detection(True)

            elif self.max_continuous_silence <= 0:""")])
fires('m20-drop-slice-plus1', ['C03', 'C01', 'C04'], [(CORE, "            self._data = self._data[0 : -self._silence_length]\n", "            self._data = self._data[0 : -self._silence_length + 1]\n")])
fires('m21-buffer-not-detached', ['C01', 'C02'], [(CORE, """            data = self._data
            self._data = []
            token = (data, start_frame, end_frame)
""", """            data = self._data
            token = (data, start_frame, end_frame)
""")], 'delivered buffer keeps growing')
fires('m22-noise-cut-gt', ['C02'], [(CORE, """            if frame_is_valid:
                self._data.append(frame)
                if len(self._data) >= self.max_length:
                    return self._process_end_of_detection(True)

            elif self.max_continuous_silence <= 0:""", """            if frame_is_valid:
                self._data.append(frame)
                if len(self._data) > self.max_length:
                    return self._process_end_of_detection(True)

            elif self.max_continuous_silence <= 0:""")])
fires('m23-mode-bits-swapped', ['C02', 'C03', 'C04'], [(CORE, "        self._strict_min_length = (mode & self.STRICT_MIN_LENGTH) != 0\n        self._drop_trailing_silence = (mode & self.DROP_TRAILING_SILENCE) != 0\n",
                                                          "        self._strict_min_length = (mode & self.DROP_TRAILING_SILENCE) != 0\n        self._drop_trailing_silence = (mode & self.STRICT_MIN_LENGTH) != 0\n")])
fires('m24-mode-5-accepted', ['C02'], [(CORE, """            StreamTokenizer.DROP_TRAILING_SILENCE,
            strict_min_and_drop_trailing,
        ]:""", """            StreamTokenizer.DROP_TRAILING_SILENCE,
            strict_min_and_drop_trailing,
            5,
        ]:""")])
fires('m25-ctor-typeerror-for-values', ['C02'], [(CORE, """        if max_length <= 0:
            raise ValueError(""", """        if max_length <= 0:
            raise TypeError(""")])
fires('m26-contiguous-after-nontrunc', ['C02'], [(CORE, """            else:
                self._contiguous_token = False
            return token""", """            else:
                self._contiguous_token = True
            return token""")])

# ------------------------------------------------------------------ tokenizer: twins
silent('t01-ge-as-le', TOK, [(CORE, "                if self._silence_length >= self.max_continuous_silence:\n", "                if self.max_continuous_silence <= self._silence_length:\n")])
silent('t02-eq-as-ge', TOK, [(CORE, "                if len(self._data) == self.max_length:\n", "                if len(self._data) >= self.max_length:\n")])
silent('t03-helper-push', TOK + ['C08', 'C20'], [(CORE, """            if frame_is_valid:
                self._data.append(frame)
                self._silence_length = 0
                self._state = self.NOISE""", """            if frame_is_valid:
                self._push(frame)
                self._silence_length = 0
                self._state = self.NOISE"""), (CORE, """    def _post_process(self):
""", """    def _push(self, frame):
        self._data.append(frame)

    def _post_process(self):
""")])
silent('t04-ctor-chained', TOK, [(CORE, "        if min_length <= 0 or min_length > max_length:\n", "        if not (0 < min_length <= max_length):\n")])
silent('t05-messages', TOK, [(CORE, "\"'max_length' must be > 0 (value={0})\"", "\"max_length should be positive, got {0}\"")])
silent('t06-early-return', TOK + ['C08', 'C20'], [(CORE, """        if self._state == self.SILENCE:

            if frame_is_valid:
                # seems we got a valid frame after a silence
                self._init_count = 1
                self._silence_length = 0
                self._start_frame = self._current_frame
                self._data.append(frame)

                if self._init_count >= self.init_min:
                    self._state = self.NOISE
                    if len(self._data) >= self.max_length:
                        return self._process_end_of_detection(True)
                else:
                    self._state = self.POSSIBLE_NOISE

        elif self._state == self.POSSIBLE_NOISE:""", """        if self._state == self.SILENCE:
            if not frame_is_valid:
                return None
            # seems we got a valid frame after a silence
            self._init_count = 1
            self._silence_length = 0
            self._start_frame = self._current_frame
            self._data.append(frame)
            if self._init_count < self.init_min:
                self._state = self.POSSIBLE_NOISE
                return None
            self._state = self.NOISE
            if len(self._data) >= self.max_length:
                return self._process_end_of_detection(True)
            return None

        if self._state == self.POSSIBLE_NOISE:""")])
silent('t07-rename-locals', TOK + ['C08', 'C20'], [(CORE, """            start_frame = self._start_frame
            end_frame = self._start_frame + len(self._data) - 1
            data = self._data
            self._data = []
            token = (data, start_frame, end_frame)
""", """            first = self._start_frame
            frames = self._data
            last = first + len(frames) - 1
            self._data = []
            token = (frames, first, last)
""")])
silent('t08-post-process-split', TOK, [(CORE, """        if self._state == self.NOISE or self._state == self.POSSIBLE_SILENCE:
            if len(self._data) > 0 and len(self._data) > self._silence_length:
                return self._process_end_of_detection()
""", """        if self._state in [self.NOISE, self.POSSIBLE_SILENCE]:
            if len(self._data) > self._silence_length:
                return self._process_end_of_detection()
        return None
""")])
silent('t09-reset-silence-in-silence', TOK + ['C20'], [(CORE, """                    self._data = []
                    self._silence_length = 0
                    self._contiguous_token = False
""", """                    self._data = []
                    self._contiguous_token = False
""")], 'the reset of the counter when going back to SILENCE is redundant (it is re-initialised when a token opens)')

# ------------------------------------------------------------------ C10 reader framing
fires('m30-D3-reintroduced', ['C10'], [(UTIL, """        if block is None:
            return

        _hop_size_bytes""", """        if block is None:
            yield None

        _hop_size_bytes""")], 'finding D3')
fires('m31-block-size-round', ['C10'], [(UTIL, "        self._block_size = int(block_dur * self.sr)\n", "        self._block_size = round(block_dur * self.sr)\n")])
fires('m32-cache-hop-samples', ['C10'], [(UTIL, """                block = cache + block
                cache = block[_hop_size_bytes:]""", """                block = cache + block
                cache = block[self._hop_size:]""")], 'cache sliced in samples instead of bytes')
fires('m33-limiter-outside-framing', ['C10', 'C19'], [(UTIL, """        if max_read is not None:
            input = _Limiter(input, max_read)
            self._max_read = max_read
        if hop_dur is None or hop_dur == block_dur:
            input = _FixedSizeAudioReader(input, block_dur)
        else:
            input = _OverlapAudioReader(input, block_dur, hop_dur)
""", """        if hop_dur is None or hop_dur == block_dur:
            input = _FixedSizeAudioReader(input, block_dur)
        else:
            input = _OverlapAudioReader(input, block_dur, hop_dur)
        if max_read is not None:
            input = _Limiter(input, max_read)
            self._max_read = max_read
""")])
fires('m34-limiter-no-min', ['C10', 'C09'], [(UTIL, "        size = min(self._max_samples - self._read_samples, size)\n        if size <= 0:", "        if self._max_samples - self._read_samples <= 0:")])
fires('m35-limiter-int', ['C10', 'C09'], [(UTIL, "        self._max_samples = round(max_read * self.sr)\n", "        self._max_samples = int(max_read * self.sr)\n")])
fires('m36-overlap-order', ['C10'], [(UTIL, "                block = cache + block\n", "                block = block + cache\n")])
fires('m37-first-read-hop', ['C10'], [(UTIL, """            yield AudioIOError
        block = self._audio_source.read(self._block_size)""", """            yield AudioIOError
        block = self._audio_source.read(self._hop_size)""")])
silent('t33-recorder-outside-limiter', ['C10', 'C19'], [(UTIL, """        if record:
            input = _Recorder(input)
        if max_read is not None:
            input = _Limiter(input, max_read)
            self._max_read = max_read
""", """        if max_read is not None:
            input = _Limiter(input, max_read)
            self._max_read = max_read
        if record:
            input = _Recorder(input)
""")], 'recorder(limiter(source)) records only what passes the limiter: still exactly the first round(max_read*rate) samples')
fires('m39-too-small-guard-lt', ['C10', 'C06'], [(UTIL, "        if self._block_size == 0:\n", "        if self._block_size < 0:\n")])
fires('m40-limiter-undercount', ['C10'], [(UTIL, "        self._read_samples += len(block) // self._bytes_per_sample\n", "        self._read_samples += len(block) // (self._bytes_per_sample * 2)\n")])
silent('t30-limiter-count-size', ['C10', 'C09', 'C19'], [(UTIL, "        self._read_samples += len(block) // self._bytes_per_sample\n", "        self._read_samples += size\n")], 'over-counting after a short final block is harmless')
silent('t31-hop-gt', ['C10'], [(UTIL, "        if hop_dur >= block_dur:\n", "        if hop_dur > block_dur:\n")], 'hop_dur == block_dur is routed to the fixed reader by AudioReader')
silent('t32-block-size-not', ['C10', 'C06'], [(UTIL, "        if self._block_size == 0:\n", "        if not self._block_size:\n")])
