"""Seeded edits (must FIRE) and twins (must stay SILENT) for the self-test (DESIGN 8, Appendix C).
Each edit = (relative file, exact old text occurring once, new text)."""

CORE = 'auditok/core.py'
UTIL = 'auditok/util.py'
IO = 'auditok/io.py'
WORKERS = 'auditok/workers.py'
CMD = 'auditok/cmdline.py'
CMDU = 'auditok/cmdline_util.py'
SIG = 'auditok/signal.py'

VARIANTS = []


def fires(id, props, edits, what='', names=None):
    VARIANTS.append(dict(id=id, kind='fires', props=props if isinstance(props, list) else [props], edits=edits, what=what, names=names))


def silent(id, props, edits, what=''):
    VARIANTS.append(dict(id=id, kind='silent', props=props if isinstance(props, list) else [props], edits=edits, what=what))


TOK = ['C01', 'C02', 'C03', 'C04']

# ------------------------------------------------------------------ tokenizer: fires
fires('m01-start-no-plus1', ['C01'], [(CORE, "                self._start_frame = self._current_frame + 1\n", "                self._start_frame = self._current_frame\n")],
      'continuation starts at the cut frame itself')
fires('m02-end-off-by-one', ['C01'], [(CORE, "            end_frame = self._start_frame + len(self._data) - 1\n", "            end_frame = self._start_frame + len(self._data)\n")])
fires('m03-counter-after-none', ['C01'], [(CORE, """            frame = data_source.read()
            self._current_frame += 1
            if frame is None:
""", """            frame = data_source.read()
            if frame is None:
"""), (CORE, """            token = self._process(frame)
            if token is not None:
                yield token
""", """            token = self._process(frame)
            self._current_frame += 1
            if token is not None:
                yield token
""")], 'counter incremented after processing: every index shifted by one')
fires('m04-reinit-zero', ['C01'], [(CORE, "        self._current_frame = -1\n", "        self._current_frame = 0\n")])
fires('m05-D1-reintroduced', ['C02'], [(CORE, """                    self._data = []
                    self._silence_length = 0
                    self._contiguous_token = False
""", """                    self._data = []
                    self._silence_length = 0
""")], 'stale continuation flag (finding D1)')
fires('m06-D2-reintroduced', ['C02'], [(CORE, """                elif len(self._data) >= self.max_length:
                    # max_length is reached before init_min, back to silence
                    self._data = []
                    self._state = self.SILENCE
""", "")], 'no length test in the initial phase (finding D2)')
fires('m07-ps-cut-gt', ['C02'], [(CORE, """                    self._silence_length += 1
                    if len(self._data) >= self.max_length:
                        return self._process_end_of_detection(True)
""", """                    self._silence_length += 1
                    if len(self._data) > self.max_length:
                        return self._process_end_of_detection(True)
""")])
fires('m08-ctor-no-min-gt-max', ['C02'], [(CORE, "        if min_length <= 0 or min_length > max_length:\n", "        if min_length <= 0:\n")])
fires('m09-ctor-silence-gt', ['C02'], [(CORE, "        if max_continuous_silence >= max_length:\n            err_msg = \"'max_continuous_silence' must", "        if max_continuous_silence > max_length:\n            err_msg = \"'max_continuous_silence' must")])
fires('m10-tolerance-gt', ['C03'], [(CORE, "                if self._silence_length >= self.max_continuous_silence:\n", "                if self._silence_length > self.max_continuous_silence:\n")])
fires('m11-reset-silence-at-cut', ['C03'], [(CORE, """                    if len(self._data) >= self.max_length:
                        return self._process_end_of_detection(True)
                        # don't reset _silence_length because we still
                        # need to know the total number of silent frames

    def _post_process""", """                    if len(self._data) >= self.max_length:
                        self._silence_length = 0
                        return self._process_end_of_detection(True)

    def _post_process""")], 'silence run forgotten at a cut: run may exceed the tolerance across the cut')
fires('m12-flush-all-silent', ['C03'], [(CORE, "            if len(self._data) > 0 and len(self._data) > self._silence_length:\n", "            if len(self._data) > 0:\n")])
fires('m13-drop-when-truncated', ['C03', 'C04'], [(CORE, """        if (
            not truncated
            and self._drop_trailing_silence
            and self._silence_length > 0
        ):""", """        if (
            self._drop_trailing_silence
            and self._silence_length > 0
        ):""")])
fires('m14-flush-only-noise', ['C04'], [(CORE, "        if self._state == self.NOISE or self._state == self.POSSIBLE_SILENCE:\n", "        if self._state == self.NOISE:\n")])
fires('m15-ps-overflow-le', ['C04'], [(CORE, "                    if self._silence_length < len(self._data):\n", "                    if self._silence_length <= len(self._data):\n")],
      'all-silent remainder delivered')
fires('m16-open-one-late', ['C04'], [(CORE, """                self._start_frame = self._current_frame
                self._data.append(frame)

                if self._init_count >= self.init_min:""", """                self._start_frame = self._current_frame + 1

                if self._init_count >= self.init_min:""")], 'first valid frame of an event not kept')
fires('m17-no-silence-state-after-close', ['C04', 'C02', 'C03'], [(CORE, """            elif self.max_continuous_silence <= 0:
                # max token reached at this frame will _deliver if
                # _contiguous_token and not _strict_min_length
                self._state = self.SILENCE
                return self._process_end_of_detection()""", """            elif self.max_continuous_silence <= 0:
                return self._process_end_of_detection()""")])
fires('m18-strict-ignored', ['C02'], [(CORE, "            and not self._strict_min_length\n", "")])
fires('m19-append-twice', ['C01'], [(CORE, """            if frame_is_valid:
                self._data.append(frame)
                if len(self._data) >= self.max_length:
                    return self._process_end_of_detection(True)

            elif self.max_continuous_silence <= 0:""", """            if frame_is_valid:
                self._data.append(frame)
                self._data.append(frame)
                if len(self._data) >= self.max_length:
                    return self._process_end_of_detection(True)

            elif self.max_continuous_silence <= 0:""")])
fires('m20-drop-slice-plus1', ['C03', 'C01', 'C04'], [(CORE, "            self._data = self._data[0 : -self._silence_length]\n", "            self._data = self._data[0 : -self._silence_length + 1]\n")])
fires('m21-buffer-not-detached', ['C01', 'C02'], [(CORE, """            data = self._data
            self._data = []
            token = (data, start_frame, end_frame)
""", """            data = self._data
            token = (data, start_frame, end_frame)
""")], 'delivered buffer keeps growing')
fires('m22-noise-cut-gt', ['C02'], [(CORE, """            if frame_is_valid:
                self._data.append(frame)
                if len(self._data) >= self.max_length:
                    return self._process_end_of_detection(True)

            elif self.max_continuous_silence <= 0:""", """            if frame_is_valid:
                self._data.append(frame)
                if len(self._data) > self.max_length:
                    return self._process_end_of_detection(True)

            elif self.max_continuous_silence <= 0:""")])
fires('m23-mode-bits-swapped', ['C02', 'C03', 'C04'], [(CORE, "        self._strict_min_length = (mode & self.STRICT_MIN_LENGTH) != 0\n        self._drop_trailing_silence = (mode & self.DROP_TRAILING_SILENCE) != 0\n",
                                                          "        self._strict_min_length = (mode & self.DROP_TRAILING_SILENCE) != 0\n        self._drop_trailing_silence = (mode & self.STRICT_MIN_LENGTH) != 0\n")])
fires('m24-mode-5-accepted', ['C02'], [(CORE, """            StreamTokenizer.DROP_TRAILING_SILENCE,
            strict_min_and_drop_trailing,
        ]:""", """            StreamTokenizer.DROP_TRAILING_SILENCE,
            strict_min_and_drop_trailing,
            5,
        ]:""")])
fires('m25-ctor-typeerror-for-values', ['C02'], [(CORE, """        if max_length <= 0:
            raise ValueError(""", """        if max_length <= 0:
            raise TypeError(""")])
fires('m26-contiguous-after-nontrunc', ['C02'], [(CORE, """            else:
                self._contiguous_token = False
            return token""", """            else:
                self._contiguous_token = True
            return token""")])

# ------------------------------------------------------------------ tokenizer: twins
silent('t01-ge-as-le', TOK, [(CORE, "                if self._silence_length >= self.max_continuous_silence:\n", "                if self.max_continuous_silence <= self._silence_length:\n")])
silent('t02-eq-as-ge', TOK, [(CORE, "                if len(self._data) == self.max_length:\n", "                if len(self._data) >= self.max_length:\n")])
silent('t03-helper-push', TOK + ['C08', 'C20'], [(CORE, """            if frame_is_valid:
                self._data.append(frame)
                self._silence_length = 0
                self._state = self.NOISE""", """            if frame_is_valid:
                self._push(frame)
                self._silence_length = 0
                self._state = self.NOISE"""), (CORE, """    def _post_process(self):
""", """    def _push(self, frame):
        self._data.append(frame)

    def _post_process(self):
""")])
silent('t04-ctor-chained', TOK, [(CORE, "        if min_length <= 0 or min_length > max_length:\n", "        if not (0 < min_length <= max_length):\n")])
silent('t05-messages', TOK, [(CORE, "\"'max_length' must be > 0 (value={0})\"", "\"max_length should be positive, got {0}\"")])
silent('t06-early-return', TOK + ['C08', 'C20'], [(CORE, """        if self._state == self.SILENCE:

            if frame_is_valid:
                # seems we got a valid frame after a silence
                self._init_count = 1
                self._silence_length = 0
                self._start_frame = self._current_frame
                self._data.append(frame)

                if self._init_count >= self.init_min:
                    self._state = self.NOISE
                    if len(self._data) >= self.max_length:
                        return self._process_end_of_detection(True)
                else:
                    self._state = self.POSSIBLE_NOISE

        elif self._state == self.POSSIBLE_NOISE:""", """        if self._state == self.SILENCE:
            if not frame_is_valid:
                return None
            # seems we got a valid frame after a silence
            self._init_count = 1
            self._silence_length = 0
            self._start_frame = self._current_frame
            self._data.append(frame)
            if self._init_count < self.init_min:
                self._state = self.POSSIBLE_NOISE
                return None
            self._state = self.NOISE
            if len(self._data) >= self.max_length:
                return self._process_end_of_detection(True)
            return None

        if self._state == self.POSSIBLE_NOISE:""")])
silent('t07-rename-locals', TOK + ['C08', 'C20'], [(CORE, """            start_frame = self._start_frame
            end_frame = self._start_frame + len(self._data) - 1
            data = self._data
            self._data = []
            token = (data, start_frame, end_frame)
""", """            first = self._start_frame
            frames = self._data
            last = first + len(frames) - 1
            self._data = []
            token = (frames, first, last)
""")])
silent('t08-post-process-split', TOK, [(CORE, """        if self._state == self.NOISE or self._state == self.POSSIBLE_SILENCE:
            if len(self._data) > 0 and len(self._data) > self._silence_length:
                return self._process_end_of_detection()
""", """        if self._state in [self.NOISE, self.POSSIBLE_SILENCE]:
            if len(self._data) > self._silence_length:
                return self._process_end_of_detection()
        return None
""")])
silent('t09-reset-silence-in-silence', TOK + ['C20'], [(CORE, """                    self._data = []
                    self._silence_length = 0
                    self._contiguous_token = False
""", """                    self._data = []
                    self._contiguous_token = False
""")], 'the reset of the counter when going back to SILENCE is redundant (it is re-initialised when a token opens)')

# ------------------------------------------------------------------ C10 reader framing
fires('m30-D3-reintroduced', ['C10'], [(UTIL, """        if block is None:
            return

        _hop_size_bytes""", """        if block is None:
            yield None

        _hop_size_bytes""")], 'finding D3')
fires('m31-block-size-round', ['C10'], [(UTIL, "        self._block_size = int(block_dur * self.sr)\n", "        self._block_size = round(block_dur * self.sr)\n")])
fires('m32-cache-hop-samples', ['C10'], [(UTIL, """                block = cache + block
                cache = block[_hop_size_bytes:]""", """                block = cache + block
                cache = block[self._hop_size:]""")], 'cache sliced in samples instead of bytes')
fires('m33-limiter-outside-framing', ['C10', 'C19'], [(UTIL, """        if max_read is not None:
            input = _Limiter(input, max_read)
            self._max_read = max_read
        if hop_dur is None or hop_dur == block_dur:
            input = _FixedSizeAudioReader(input, block_dur)
        else:
            input = _OverlapAudioReader(input, block_dur, hop_dur)
""", """        if hop_dur is None or hop_dur == block_dur:
            input = _FixedSizeAudioReader(input, block_dur)
        else:
            input = _OverlapAudioReader(input, block_dur, hop_dur)
        if max_read is not None:
            input = _Limiter(input, max_read)
            self._max_read = max_read
""")])
fires('m34-limiter-no-min', ['C10', 'C09'], [(UTIL, "        size = min(self._max_samples - self._read_samples, size)\n        if size <= 0:", "        if self._max_samples - self._read_samples <= 0:")])
fires('m35-limiter-int', ['C10', 'C09'], [(UTIL, "        self._max_samples = round(max_read * self.sr)\n", "        self._max_samples = int(max_read * self.sr)\n")])
fires('m36-overlap-order', ['C10'], [(UTIL, "                block = cache + block\n", "                block = block + cache\n")])
fires('m37-first-read-hop', ['C10'], [(UTIL, """            yield AudioIOError
        block = self._audio_source.read(self._block_size)""", """            yield AudioIOError
        block = self._audio_source.read(self._hop_size)""")])
silent('t33-recorder-outside-limiter', ['C10', 'C19'], [(UTIL, """        if record:
            input = _Recorder(input)
        if max_read is not None:
            input = _Limiter(input, max_read)
            self._max_read = max_read
""", """        if max_read is not None:
            input = _Limiter(input, max_read)
            self._max_read = max_read
        if record:
            input = _Recorder(input)
""")], 'recorder(limiter(source)) records only what passes the limiter: still exactly the first round(max_read*rate) samples')
fires('m39-too-small-guard-lt', ['C10', 'C06'], [(UTIL, "        if self._block_size == 0:\n", "        if self._block_size < 0:\n")])
fires('m40-limiter-undercount', ['C10'], [(UTIL, "        self._read_samples += len(block) // self._bytes_per_sample\n", "        self._read_samples += len(block) // (self._bytes_per_sample * 2)\n")])
silent('t30-limiter-count-size', ['C10', 'C09', 'C19'], [(UTIL, "        self._read_samples += len(block) // self._bytes_per_sample\n", "        self._read_samples += size\n")], 'over-counting after a short final block is harmless')
silent('t31-hop-gt', ['C10'], [(UTIL, "        if hop_dur >= block_dur:\n", "        if hop_dur > block_dur:\n")], 'hop_dur == block_dur is routed to the fixed reader by AudioReader')
silent('t32-block-size-not', ['C10', 'C06'], [(UTIL, "        if self._block_size == 0:\n", "        if not self._block_size:\n")])

# ------------------------------------------------------------------ C05 / C06 / C08: split() wiring
fires('m50-region-start-from-end', ['C05'], [(CORE, "            token[0],\n            token[1],\n", "            token[0],\n            token[2],\n")])
fires('m51-start-times-requested-window', ['C05'], [(CORE, "            token[1],\n            source.block_dur,\n", "            token[1],\n            analysis_window,\n")],
      'requested window instead of the effective one (differs when window*rate is not an integer)')
fires('m52-sw-ch-swapped', ['C05'], [(CORE, "            source.sr,\n            source.sw,\n            source.ch,\n        )\n        for token in token_gen", "            source.sr,\n            source.ch,\n            source.sw,\n        )\n        for token in token_gen")])
fires('m53-frames-reversed', ['C05'], [(CORE, "    data = b\"\".join(data_frames)\n", "    data = b\"\".join(reversed(data_frames))\n")])
fires('m54-duration-no-channels', ['C05', 'C16'], [(CORE, "        duration = len(self.data) / (\n            self.sampling_rate * self.sample_width * self.channels\n        )", "        duration = len(self.data) / (\n            self.sampling_rate * self.sample_width\n        )")])
fires('m55-validator-roles', ['C05'], [(CORE, "            energy_threshold, source.sw, source.ch, use_channel=use_channel\n", "            energy_threshold, source.ch, source.sw, use_channel=use_channel\n")])
fires('m56-mode-swapped', ['C05'], [(CORE, "    mode = StreamTokenizer.DROP_TRAILING_SILENCE if drop_trailing_silence else 0\n    if strict_min_dur:\n        mode |= StreamTokenizer.STRICT_MIN_LENGTH",
                                     "    mode = StreamTokenizer.STRICT_MIN_LENGTH if drop_trailing_silence else 0\n    if strict_min_dur:\n        mode |= StreamTokenizer.DROP_TRAILING_SILENCE")])
fires('m57-region-split-swaps-durations', ['C05'], [(CORE, "            self,\n            min_dur=min_dur,\n            max_dur=max_dur,\n            max_silence=max_silence,\n            drop_trailing_silence=drop_trailing_silence,\n            strict_min_dur=strict_min_dur,\n            **kwargs,\n        )\n\n    def plot(",
                                                     "            self,\n            min_dur=min_dur,\n            max_dur=max_dur,\n            max_silence=max_silence,\n            drop_trailing_silence=strict_min_dur,\n            strict_min_dur=drop_trailing_silence,\n            **kwargs,\n        )\n\n    def plot(")])
fires('m58-end-from-start-only', ['C05'], [(CORE, "object.__setattr__(self, \"end\", self.start + self.duration)", "object.__setattr__(self, \"end\", self.start + self.duration * self.channels)")])
fires('m60-D5-reintroduced', ['C06'], [(CORE, "    min_length = _duration_to_nb_windows(\n        min_dur, analysis_window, math.ceil, -_EPSILON\n    )\n", "    min_length = _duration_to_nb_windows(min_dur, analysis_window, math.ceil)\n")], 'finding D5')
fires('m61-max-round', ['C06'], [(CORE, "    max_length = _duration_to_nb_windows(\n        max_dur, analysis_window, math.floor, _EPSILON\n    )", "    max_length = _duration_to_nb_windows(\n        max_dur, analysis_window, round, _EPSILON\n    )")])
fires('m62-guard-min-dur-lt', ['C06'], [(CORE, "    if min_dur <= 0:\n", "    if min_dur < 0:\n")])
fires('m63-eps-sign-flipped', ['C06'], [(CORE, "        max_silence, analysis_window, math.floor, _EPSILON\n", "        max_silence, analysis_window, math.floor, -_EPSILON\n")])
fires('m64-silence-guard-gt', ['C06'], [(CORE, "    if max_continuous_silence >= max_length:\n        err_msg = \"'max_silence' \"", "    if max_continuous_silence > max_length:\n        err_msg = \"'max_silence' \"")])
fires('m65-window-requested-for-reader', ['C06', 'C05'], [(CORE, "        source = input\n        analysis_window = source.block_dur\n", "        source = input\n        analysis_window = kwargs.get(\"analysis_window\", source.block_dur)\n")])
fires('m66-helper-no-eps', ['C06'], [(CORE, "    return int(round_fn(duration / analysis_window + epsilon))\n", "    return int(round_fn(duration / analysis_window))\n")])
fires('m67-extra-guard', ['C06'], [(CORE, "    if max_silence < 0:\n        raise ValueError(f\"'max_silence' ({max_silence}) must be >= 0\")\n", "    if max_silence < 0:\n        raise ValueError(f\"'max_silence' ({max_silence}) must be >= 0\")\n    if max_silence > max_dur:\n        raise ValueError(\"max_silence too long\")\n")],
      'rejects a combination the property says is accepted (max_silence > max_dur can still be < max_dur in windows? no: it is caught later anyway) -- extra guard with a different exception path')
fires('m70-collect-then-yield', ['C08'], [(CORE, """        self._reinitialize()
        while True:
            frame = data_source.read()
            self._current_frame += 1
            if frame is None:
                token = self._post_process()
                if token is not None:
                    yield token
                break
            token = self._process(frame)
            if token is not None:
                yield token
""", """        self._reinitialize()
        found = []
        while True:
            frame = data_source.read()
            self._current_frame += 1
            if frame is None:
                token = self._post_process()
                if token is not None:
                    found.append(token)
                break
            token = self._process(frame)
            if token is not None:
                found.append(token)
        for token in found:
            yield token
""")], 'whole stream buffered before the first token is handed over')
fires('m71-split-generator-false', ['C08', 'C05'], [(CORE, "    token_gen = tokenizer.tokenize(source, generator=True)\n", "    token_gen = tokenizer.tokenize(source, generator=False)\n")])
fires('m72-split-list', ['C08', 'C05'], [(CORE, "    region_gen = (\n        _make_audio_region(", "    region_gen = list(\n        _make_audio_region("), (CORE, "        for token in token_gen\n    )\n    return region_gen", "        for token in token_gen\n    )\n    return iter(region_gen)")])
fires('m73-read-after-eos', ['C08'], [(CORE, """                token = self._post_process()
                if token is not None:
                    yield token
                break
""", """                token = self._post_process()
                if token is not None:
                    yield token
                    break
                if data_source.read() is None:
                    break
""")], 'end of stream requested twice when nothing is flushed')
fires('m74-callback-filter', ['C08'], [(CORE, """            for token in token_gen:
                callback(*token)
            return""", """            for token in token_gen:
                if len(token[0]) > 1:
                    callback(*token)
            return""")])
fires('m75-list-mode-second-generator', ['C08'], [(CORE, "        return list(token_gen)\n", "        return list(self._iter_tokens(data_source))\n")])
silent('t50-map-regions', ['C05', 'C06', 'C08'], [(CORE, """    region_gen = (
        _make_audio_region(
            token[0],
            token[1],
            source.block_dur,
            source.sr,
            source.sw,
            source.ch,
        )
        for token in token_gen
    )
    return region_gen""", """    return map(
        lambda token: _make_audio_region(
            token[0], token[1], source.block_dur, source.sr, source.sw, source.ch
        ),
        token_gen,
    )""")])
silent('t51-inline-region', ['C05', 'C08'], [(CORE, """        _make_audio_region(
            token[0],
            token[1],
            source.block_dur,
            source.sr,
            source.sw,
            source.ch,
        )
        for token in token_gen""", """        AudioRegion(
            b"".join(token[0]),
            source.sampling_rate,
            source.sample_width,
            source.channels,
            token[1] * source.block_dur,
        )
        for token in token_gen""")])
silent('t52-guard-spelling', ['C06'], [(CORE, "    if min_dur <= 0:\n", "    if not min_dur > 0:\n")])
silent('t53-unpack-token', ['C05', 'C08'], [(CORE, """        _make_audio_region(
            token[0],
            token[1],
            source.block_dur,
            source.sr,
            source.sw,
            source.ch,
        )
        for token in token_gen""", """        _make_audio_region(
            frames,
            first,
            source.block_dur,
            source.sr,
            source.sw,
            source.ch,
        )
        for frames, first, _last in token_gen""")])
silent('t54-eps-literal', ['C06'], [(CORE, "        min_dur, analysis_window, math.ceil, -_EPSILON\n", "        min_dur, analysis_window, math.ceil, -1e-9\n")])

# ------------------------------------------------------------------ C20 independence of earlier use
fires('m80-reinit-no-contiguous', ['C20'], [(CORE, "    def _reinitialize(self):\n        self._contiguous_token = False\n", "    def _reinitialize(self):\n")])
fires('m81-reinit-no-data', ['C20'], [(CORE, "        self._contiguous_token = False\n        self._data = []\n        self._tokens = []\n", "        self._contiguous_token = False\n        self._tokens = []\n")])
fires('m82-reinit-no-state', ['C20'], [(CORE, "        self._state = self.SILENCE\n        self._current_frame = -1\n", "        self._current_frame = -1\n")])
fires('m83-reinit-no-counter', ['C20', 'C01'], [(CORE, "        self._state = self.SILENCE\n        self._current_frame = -1\n", "        self._state = self.SILENCE\n")])
fires('m84-validator-cache', ['C20'], [(UTIL, """        log_energy = signal.calculate_energy(
            self._selector(data), self._energy_agg_fn
        )
        return log_energy >= self._energy_threshold""", """        if getattr(self, "_last", None) is not None and self._last[0] == len(data):
            return self._last[1]
        log_energy = signal.calculate_energy(
            self._selector(data), self._energy_agg_fn
        )
        self._last = (len(data), log_energy >= self._energy_threshold)
        return self._last[1]""")])
fires('m85-silence-read-in-silence', ['C20'], [(CORE, """        if self._state == self.SILENCE:

            if frame_is_valid:""", """        if self._state == self.SILENCE:

            if frame_is_valid and self._silence_length < 1000000:""")], 'a leftover counter decides a branch')
fires('m86-close-no-rewind', ['C20', 'C11'], [(IO, "    def close(self):\n        self._is_open = False\n        self.rewind()\n", "    def close(self):\n        self._is_open = False\n")])
fires('m87-module-cache', ['C20'], [(CORE, "def _duration_to_nb_windows(\n    duration, analysis_window, round_fn=round, epsilon=0\n):", "_SEEN = {}\n\n\ndef _duration_to_nb_windows(\n    duration, analysis_window, round_fn=round, epsilon=0\n):"),
                                    (CORE, "    if duration == 0:\n        return 0\n    return int(round_fn", "    if duration == 0:\n        return 0\n    _SEEN[duration] = analysis_window\n    return int(round_fn")])
fires('m88-mutable-default', ['C20'], [(CORE, "    def _check_iter_others(self, others):\n", "    def _check_iter_others(self, others, seen=[]):\n")])

# ------------------------------------------------------------------ C11 sources
fires('m90-file-read-empty', ['C11'], [(IO, "        data = self._read_from_stream(size)\n        if not data:\n            return None\n        return data", "        data = self._read_from_stream(size)\n        if data is None:\n            return None\n        return data")],
      'file sources return b"" at end of data')
fires('m91-position-guard-ge', ['C11'], [(IO, "        if position < 0 or position > len(self.data):\n", "        if position < 0 or position >= len(self.data):\n")])
fires('m92-cursor-by-request', ['C11'], [(IO, "        if data:\n            self._current_position_bytes += len(data)\n            return data\n        return None", "        if data:\n            self._current_position_bytes = offset\n            return data\n        return None")],
      'cursor jumps to the requested end even when fewer bytes were available / offset None')
fires('m93-raw-read-samples', ['C11'], [(IO, "            bytes_to_read = size * self._sample_size\n        data = self._audio_stream.read(bytes_to_read)", "            bytes_to_read = size * self._sample_width\n        data = self._audio_stream.read(bytes_to_read)")])
fires('m94-negative-position-no-len', ['C11'], [(IO, "        if position < 0:\n            position += len(self.data)\n", "        if position < 0:\n            position += len(self.data) // self._sample_size_all_channels\n")])
fires('m95-buffer-open-check-late', ['C11'], [(IO, """        if not self._is_open:
            raise AudioIOError("Stream is not open")
        if size is None or size < 0:
            offset = None""", """        if size is None or size < 0:
            offset = None""")])
fires('m96-position-s-round', ['C11'], [(IO, "        self.position = int(self.sampling_rate * position_s)\n", "        self.position = int(self.sampling_rate + position_s)\n")])
fires('m97-stdin-empty', ['C11'], [(IO, "        data = self._stream.read(bytes_to_read)\n        if data:\n            return data\n        return None", "        data = self._stream.read(bytes_to_read)\n        return data"),
                                    (IO, "        data = self._read_from_stream(size)\n        if not data:\n            return None\n        return data", "        data = self._read_from_stream(size)\n        if data is None:\n            return None\n        return data")])
fires('m98-check-audio-data-weak', ['C11', 'C17'], [(IO, "    if nb_samples * sample_size_bytes != len(data):\n", "    if nb_samples * sample_size_bytes > len(data):\n")])
fires('m99-buffer-wrong-error', ['C11'], [(IO, "        if not self._is_open:\n            raise AudioIOError(\"Stream is not open\")", "        if not self._is_open:\n            raise ValueError(\"Stream is not open\")")])
fires('m100-wave-neg-size', ['C11'], [(IO, "        if size is None or size < 0:\n            size = -1\n        return self._audio_stream.readframes(size)", "        if size is None:\n            size = -1\n        return self._audio_stream.readframes(abs(size))")])
fires('m101-position-getter-bytes', ['C11'], [(IO, "        return self._current_position_bytes // self._sample_size_all_channels\n", "        return self._current_position_bytes // self._sample_width\n")])
silent('t90-file-read-len', ['C11'], [(IO, "        data = self._read_from_stream(size)\n        if not data:\n            return None\n        return data", "        data = self._read_from_stream(size)\n        if data:\n            return data\n        return None")])
silent('t91-buffer-is-open-call', ['C11'], [(IO, "        if not self._is_open:\n            raise AudioIOError(\"Stream is not open\")\n        if size is None or size < 0:", "        if not self.is_open():\n            raise AudioIOError(\"Stream is not open\")\n        if size is None or size < 0:")])

# ------------------------------------------------------------------ C09 containers and aliases
fires('m110-alias-short-wins', ['C09'], [(CORE, "        analysis_window = kwargs.get(\n            \"analysis_window\", kwargs.get(\"aw\", DEFAULT_ANALYSIS_WINDOW)\n        )", "        analysis_window = kwargs.get(\n            \"aw\", kwargs.get(\"analysis_window\", DEFAULT_ANALYSIS_WINDOW)\n        )")])
fires('m111-region-input-width-from-channels', ['C09', 'C05'], [(CORE, "            params[\"sample_width\"] = input.sw\n", "            params[\"sample_width\"] = input.ch\n")])
fires('m112-mr-alias-dropped', ['C09'], [(CORE, "        params[\"max_read\"] = params.get(\"max_read\", params.get(\"mr\"))\n", "        params[\"max_read\"] = params.get(\"max_read\")\n")])
fires('m113-eth-pair-wrong', ['C09'], [(CORE, "        energy_threshold = kwargs.get(\n            \"energy_threshold\", kwargs.get(\"eth\", DEFAULT_ENERGY_THRESHOLD)\n        )", "        energy_threshold = kwargs.get(\n            \"energy_threshold\", kwargs.get(\"uc\", DEFAULT_ENERGY_THRESHOLD)\n        )")])
fires('m114-param-pairs-order', ['C09'], [(IO, "        (\"sample_width\", \"sw\"),\n        (\"channels\", \"ch\"),\n    ):", "        (\"channels\", \"ch\"),\n        (\"sample_width\", \"sw\"),\n    ):")])
fires('m115-wave-lazy-eager-swapped', ['C09'], [(IO, "    if large_file:\n        return WaveAudioSource(filename)\n", "    if not large_file:\n        return WaveAudioSource(filename)\n")])
fires('m116-raw-loader-ignores-large-file', ['C09'], [(IO, "        return _load_raw(filename, srate, swidth, channels, large_file)\n", "        return _load_raw(filename, srate, swidth, channels)\n")])
fires('m117-bytes-to-stdin', ['C09'], [(IO, "    if isinstance(input, bytes):\n        return BufferAudioSource(input, *_get_audio_parameters(kwargs))", "    if isinstance(input, bytes):\n        return BufferAudioSource(input[:], *_get_audio_parameters(kwargs)[::-1])")])
fires('m118-uc-alias-read-direct', ['C09'], [(CORE, "        use_channel = kwargs.get(\"use_channel\", kwargs.get(\"uc\"))\n", "        use_channel = kwargs.get(\"uc\", kwargs.get(\"use_channel\"))\n")])
fires('m119-fmt-not-normalised', ['C09'], [(CORE, "        params[\"audio_format\"] = params.get(\"audio_format\", params.get(\"fmt\"))\n", "        params[\"audio_format\"] = params.get(\"fmt\", params.get(\"audio_format\"))\n")])
silent('t110-alias-locals', ['C09', 'C06'], [(CORE, "        use_channel = kwargs.get(\"use_channel\", kwargs.get(\"uc\"))\n        validator = AudioEnergyValidator(\n            energy_threshold, source.sw, source.ch, use_channel=use_channel\n        )",
                                              "        uc = kwargs.get(\"use_channel\", kwargs.get(\"uc\"))\n        validator = AudioEnergyValidator(\n            energy_threshold, source.sw, source.ch, use_channel=uc\n        )")])

# ------------------------------------------------------------------ C16 slicing
fires('m120-offset-times-width-only', ['C16'], [(CORE, "            offset = index.stop * bytes_per_sample\n", "            offset = index.stop * self.sample_width\n")])
fires('m121-seconds-start-round', ['C16'], [(CORE, "        start_sample = int(start_s * sr)\n", "        start_sample = round(start_s * sr)\n")])
fires('m122-onset-from-stop', ['C16'], [(CORE, "        onset = start_sample * bytes_per_sample\n", "        onset = (stop_sample or 0) * bytes_per_sample\n")])
fires('m123-negative-start-unclamped', ['C16'], [(CORE, "            start_sample = max(start_sample + len_samples, 0)\n        onset", "            start_sample = start_sample + len_samples\n        onset")],
      'start below -len wraps around a second time')
fires('m124-step-allowed', ['C16'], [(CORE, "    if not isinstance(index, slice) or index.step is not None:\n", "    if not isinstance(index, slice):\n")])
fires('m125-millis-div-100', ['C16'], [(CORE, "        start_sec = start_ms / 1000\n", "        start_sec = start_ms / 100\n")])
fires('m126-len-no-channels', ['C16'], [(CORE, "        return len(self.data) // (self.sample_width * self.channels)\n", "        return len(self.data) // self.sample_width\n")])
fires('m127-seconds-stop-int', ['C16'], [(CORE, "        stop_sample = None if stop_s is None else round(stop_s * sr)\n", "        stop_sample = None if stop_s is None else int(stop_s * sr)\n")])
fires('m128-stop-zero-means-end', ['C16'], [(CORE, "        if stop_sample is not None:\n            if stop_sample < 0:", "        if stop_sample:\n            if stop_sample < 0:")], 'region[a:0] returns everything from a')
fires('m129-stop-normalised-unclamped', ['C16'], [(CORE, "                stop_sample = max(stop_sample + len_samples, 0)\n            offset = index.stop * bytes_per_sample", "                stop_sample = stop_sample + len_samples\n            offset = stop_sample * bytes_per_sample")])
fires('m130-valueerror-on-bad-type', ['C16'], [(CORE, "        if index is not None and not isinstance(index, types):\n            raise TypeError(err_msg)", "        if index is not None and not isinstance(index, types):\n            raise ValueError(err_msg)")])
silent('t120-offset-uses-normalised-stop', ['C16'], [(CORE, "            offset = index.stop * bytes_per_sample\n", "            offset = stop_sample * bytes_per_sample\n")], 'normalised (clamped) stop is equivalent to the raw one')
silent('t121-no-start-normalisation', ['C16'], [(CORE, "        if start_sample < 0:\n            start_sample = max(start_sample + len_samples, 0)\n        onset", "        onset")], 'bytes slicing already has Python semantics for negative whole-sample offsets')

# ------------------------------------------------------------------ C17 region algebra
fires('m140-check-no-channels', ['C17'], [(CORE, """        if other.ch != self.ch:
            raise AudioParameterError(
                "Can only concatenate AudioRegions of the same "
                "number of channels ({} != {})".format(self.ch, other.ch)
            )
""", "")])
fires('m141-add-no-check', ['C17'], [(CORE, "        self._check_other_parameters(other)\n        data = self.data + other.data\n", "        data = self.data + other.data\n")])
fires('m142-eq-no-width', ['C17'], [(CORE, "            and (self.sw == other.sw)\n", "")])
fires('m143-not-frozen', ['C17'], [(CORE, "@dataclass(frozen=True)\nclass AudioRegion(object):", "@dataclass(frozen=False)\nclass AudioRegion(object):")])
fires('m144-add-reversed', ['C17'], [(CORE, "        data = self.data + other.data\n", "        data = other.data + self.data\n")])
fires('m145-join-skips-check', ['C17'], [(CORE, "            other.data for other in self._check_iter_others(others)\n", "            other.data for other in others\n")])
fires('m146-silence-int', ['C17', 'C13'], [(CORE, "    size = round(duration * sampling_rate) * sample_width * channels\n", "    size = int(duration * sampling_rate) * sample_width * channels\n")])
fires('m147-div-gap', ['C17'], [(CORE, "            sub_regions.append(self[onset:offset])\n            onset = offset\n", "            sub_regions.append(self[onset:offset])\n            onset = offset + 1\n")])
fires('m148-check-compares-sw-with-ch', ['C17'], [(CORE, "        if other.sw != self.sw:\n", "        if other.sw != self.ch:\n")])
silent('t141-check-after-concat', ['C17'], [(CORE, "        self._check_other_parameters(other)\n        data = self.data + other.data\n        return AudioRegion(data, self.sr, self.sw, self.ch)", "        data = self.data + other.data\n        self._check_other_parameters(other)\n        return AudioRegion(data, self.sr, self.sw, self.ch)")], 'still raises before anything is returned')
fires('m150-mul-mutates-cache', ['C17'], [(CORE, "        data = self.data * n\n        return AudioRegion(data, self.sr, self.sw, self.ch)", "        data = self.data * n\n        object.__setattr__(self, \"_last_mul\", n)\n        return AudioRegion(data, self.sr, self.sw, self.ch)")])
fires('m151-join-filter-empty', ['C17'], [(CORE, "            other.data for other in self._check_iter_others(others)\n", "            other.data for other in self._check_iter_others(others) if len(other)\n")], 'empty regions no longer contribute their separator')
silent('t142-check-iter-yields-before-check', ['C17'], [(CORE, "            self._check_other_parameters(other)\n            yield other\n", "            yield other\n            self._check_other_parameters(other)\n")])
silent('t140-eq-order', ['C17'], [(CORE, "            (self.data == other.data)\n            and (self.sr == other.sr)", "            (self.sr == other.sr)\n            and (self.data == other.data)")])

# ------------------------------------------------------------------ C18 save / load
fires('m160-D4-reintroduced', ['C18'], [(CORE, "    data = audio_source.read(max_read)\n    if data is None:\n        data = b\"\"\n    audio_source.close()", "    data = audio_source.read(max_read)\n    audio_source.close()")], 'finding D4')
fires('m161-load-wave-width-from-channels', ['C18', 'C09'], [(IO, "        data, sampling_rate=srate, sample_width=swidth, channels=channels\n", "        data, sampling_rate=srate, sample_width=channels, channels=channels\n")])
fires('m162-exists-test-after-write', ['C18'], [(CORE, """            if not exists_ok and os.path.exists(filename):
                raise FileExistsError(
                    "file '{filename}' exists".format(filename=filename)
                )
        to_file(""", """        to_file("""), (CORE, """            audio_parameters=audio_parameters,
        )
        return filename

    def split(""", """            audio_parameters=audio_parameters,
        )
        if isinstance(filename, str) and not exists_ok and os.path.exists(filename):
            raise FileExistsError(
                "file '{filename}' exists".format(filename=filename)
            )
        return filename

    def split(""")])
fires('m163-skip-int', ['C18'], [(CORE, "        skip_samples = round(skip * audio_source.sampling_rate)\n", "        skip_samples = int(skip * audio_source.sampling_rate)\n")])
fires('m164-save-wave-setters-swapped', ['C18'], [(IO, "        fp.setsampwidth(sample_width)\n        fp.setnchannels(channels)\n", "        fp.setsampwidth(channels)\n        fp.setnchannels(sample_width)\n")])
fires('m165-placeholder-end-from-start', ['C18'], [(CORE, "                start=self.start,\n                end=self.end,\n            )", "                start=self.start,\n                end=self.start,\n            )")])
fires('m166-exists-tested-on-template', ['C18'], [(CORE, """        if isinstance(filename, str):
            filename = filename.format(
                duration=self.duration,
                meta=self.meta,
                start=self.start,
                end=self.end,
            )
            if not exists_ok and os.path.exists(filename):
                raise FileExistsError(
                    "file '{filename}' exists".format(filename=filename)
                )""", """        if isinstance(filename, str):
            if not exists_ok and os.path.exists(filename):
                raise FileExistsError(
                    "file '{filename}' exists".format(filename=filename)
                )
            filename = filename.format(
                duration=self.duration,
                meta=self.meta,
                start=self.start,
                end=self.end,
            )""")], 'existence tested on the un-expanded template name')
fires('m167-max-read-before-skip', ['C18'], [(CORE, """    if skip is not None and skip > 0:
        skip_samples = round(skip * audio_source.sampling_rate)
        audio_source.read(skip_samples)
    if max_read is not None:""", """    if skip is not None and skip > 0:
        skip_samples = round(skip * audio_source.sampling_rate)
        skipped = audio_source.read(skip_samples)
        if max_read is None:
            max_read = -1
        else:
            return skipped, audio_source.sampling_rate, audio_source.sample_width, audio_source.channels
    if max_read is not None:""")])
fires('m168-wave-source-rate-from-width', ['C18', 'C09'], [(IO, "            stream.getframerate(),\n            stream.getsampwidth(),\n            stream.getnchannels(),", "            stream.getframerate(),\n            stream.getnchannels(),\n            stream.getsampwidth(),")])
fires('m169-to-file-raw-truncated', ['C18'], [(IO, "    if audio_format in (None, \"raw\"):\n        _save_raw(data, filename)\n        return", "    if audio_format in (None, \"raw\"):\n        _save_raw(data[:-1], filename)\n        return")])
fires('m170-save-passes-wrong-format', ['C18'], [(CORE, "            self.data,\n            filename,\n            audio_format,\n            sr=self.sr,", "            self.data,\n            filename,\n            None,\n            sr=self.sr,")])
silent('t160-read-offline-empty-else', ['C18'], [(CORE, "    data = audio_source.read(max_read)\n    if data is None:\n        data = b\"\"\n", "    data = audio_source.read(max_read) or b\"\"\n")])

# ------------------------------------------------------------------ C19 recorder
fires('m180-limiter-rewind-no-reset', ['C19'], [(UTIL, "    def rewind(self):\n        super().rewind()\n        self._read_samples = 0\n", "    def rewind(self):\n        super().rewind()\n")])
fires('m181-data-no-guard', ['C19'], [(UTIL, """        if self._data is None:
            err_msg = "Un-rewinded recorder. `rewind` should be called before "
            err_msg += "accessing recorded data"
            raise RuntimeError(err_msg)
        return self._data""", """        if self._data is None:
            return b"".join(self._cache)
        return self._data""")])
fires('m182-getattr-hides-only-data', ['C19'], [(UTIL, "        if name in (\"data\", \"rewind\") and not self.rewindable:\n", "        if name in (\"data\",) and not self.rewindable:\n")])
fires('m183-overlap-rewind-no-regen', ['C19'], [(UTIL, "    def rewind(self):\n        super().rewind()\n        self._blocks = self._iter_blocks_with_overlap()\n", "    def rewind(self):\n        super().rewind()\n")])
fires('m184-cache-none-too', ['C19'], [(UTIL, "        block = self._audio_source.read(size)\n        if block is not None:\n            self._cache.append(block)\n        return block", "        block = self._audio_source.read(size)\n        self._cache.append(block)\n        return block")])
fires('m185-rewind-keeps-old-source', ['C19'], [(UTIL, "            self._read_block = self._audio_source.read\n            self.open()", "            self.open()")], 'after the first rewind reads keep pulling NEW data from the cache-recording reader')
fires('m186-rewind-data-reversed', ['C19'], [(UTIL, "            self._data = b\"\".join(self._cache)\n", "            self._data = b\"\".join(reversed(self._cache))\n")])
fires('m187-limiter-rewind-no-propagation', ['C19'], [(UTIL, "    def rewind(self):\n        super().rewind()\n        self._read_samples = 0\n", "    def rewind(self):\n        self._read_samples = 0\n")])
fires('m188-cache-twice', ['C19'], [(UTIL, "        if block is not None:\n            self._cache.append(block)\n        return block", "        if block is not None:\n            self._cache.append(block)\n            if len(block) < size:\n                self._cache.append(block)\n        return block")])
fires('m189-later-rewind-refreezes', ['C19'], [(UTIL, "        if self._read_from_cache:\n            self._audio_source.rewind()\n", "        if self._read_from_cache:\n            self._audio_source.rewind()\n            self._data = self._data[: len(self._data) // 2 * 2]\n")])
fires('m190-flag-never-set', ['C19'], [(UTIL, "            self.open()\n            self._read_from_cache = True\n", "            self.open()\n")])

# ------------------------------------------------------------------ C12 worker protocol
fires('m200-run-breaks-on-timeout', ['C12'], [(WORKERS, "            if message is not None:\n                self._process_message(message)\n        self._post_process()", "            if message is None:\n                break\n            self._process_message(message)\n        self._post_process()")],
      'a worker exits on its first queue timeout (slow source)')
fires('m201-notify-break', ['C12'], [(WORKERS, "        for observer in self._observers:\n            observer.send(message)\n", "        for observer in self._observers:\n            observer.send(message)\n            break\n")])
fires('m202-ids-from-zero', ['C12', 'C15'], [(WORKERS, "enumerate(self._audio_region_gen, start=1)", "enumerate(self._audio_region_gen, start=0)")])
fires('m203-stop-before-loop', ['C12'], [(WORKERS, "        start_processing_timestamp = datetime.now()\n", "        start_processing_timestamp = datetime.now()\n        self._notify_observers(_STOP_PROCESSING)\n"),
                                         (WORKERS, "            self._notify_observers((_id, audio_region))\n        self._notify_observers(_STOP_PROCESSING)\n", "            self._notify_observers((_id, audio_region))\n")])
fires('m204-bounded-queue', ['C12'], [(WORKERS, "        self._inbox = Queue()\n", "        self._inbox = Queue(maxsize=1)\n")], 'a slow observer blocks the tokenizer; with join ordering this can deadlock')
fires('m205-join-before-send', ['C12', 'C14'], [(WORKERS, "        self.send(_STOP_PROCESSING)\n        self.join()\n", "        self.join()\n        self.send(_STOP_PROCESSING)\n")])
fires('m206-blocking-get', ['C12'], [(WORKERS, "            message = self._inbox.get(timeout=self._timeout)\n", "            message = self._inbox.get()\n")])
fires('m207-notify-only-with-logger', ['C12'], [(WORKERS, "            if self._logger is not None:\n                message = self._log_format.format(detection)\n                self._log(message)\n            self._notify_observers((_id, audio_region))", "            if self._logger is not None:\n                message = self._log_format.format(detection)\n                self._log(message)\n                self._notify_observers((_id, audio_region))")])
fires('m208-start-all-forgets-observers', ['C12'], [(WORKERS, "    def start_all(self):\n        for observer in self._observers:\n            observer.start()\n        self.start()", "    def start_all(self):\n        self.start()")])
fires('m209-detection-fields-swapped', ['C12'], [(WORKERS, "                _id,\n                audio_region.meta.start,\n                audio_region.meta.end,\n                audio_region.duration,", "                _id,\n                audio_region.meta.end,\n                audio_region.meta.start,\n                audio_region.duration,")])
fires('m210-post-process-joins-self', ['C12'], [(WORKERS, "    def _post_process(self):\n        pass\n", "    def _post_process(self):\n        self.join()\n")])
fires('m211-data-processed-twice', ['C12'], [(WORKERS, "            if message is not None:\n                self._process_message(message)\n", "            if message is not None:\n                self._process_message(message)\n                if self._inbox.empty():\n                    self._process_message(message)\n")])
silent('t200-run-continue-form', ['C12', 'C13', 'C14'], [(WORKERS, "            if message is not None:\n                self._process_message(message)\n        self._post_process()", "            if message is None:\n                continue\n            self._process_message(message)\n        self._post_process()")])

# ------------------------------------------------------------------ C13 savers
fires('m220-send-only-when-cache-nonempty', ['C13'], [(WORKERS, "        data = self._reader.read()\n        if data is not None:\n            self.send(data)", "        data = self._reader.read()\n        if data is not None and (self._cache or self._total_cached == 0):\n            self.send(data)")])
fires('m221-post-process-no-drain', ['C13', 'C14'], [(WORKERS, """    def _post_process(self):
        while True:
            try:
                data = self._inbox.get_nowait()
                if data != _STOP_PROCESSING:
                    self._cache.append(data)
                    self._total_cached += len(data)
            except Empty:
                break
        self._write_cached_data()
        self._wfp.close()""", """    def _post_process(self):
        self._write_cached_data()
        self._wfp.close()""")])
fires('m222-silence-after-event', ['C13'], [(WORKERS, "        if not self._first_event:\n            self._wfp.writeframes(self._silence_data)\n        else:\n            self._first_event = False\n        self._wfp.writeframes(data)", "        self._wfp.writeframes(data)\n        self._wfp.writeframes(self._silence_data)")])
fires('m223-wave-width-from-channels', ['C13'], [(WORKERS, "        self._wfp.setsampwidth(self.sw)\n        self._wfp.setnchannels(self.ch)", "        self._wfp.setsampwidth(self.ch)\n        self._wfp.setnchannels(self.sw)")])
fires('m224-flush-keeps-cache', ['C13'], [(WORKERS, "            self._wfp.writeframes(data)\n            self._cache = []\n            self._total_cached = 0", "            self._wfp.writeframes(data)\n            self._total_cached = 0")])
fires('m225-close-before-flush', ['C13', 'C14'], [(WORKERS, "        self._write_cached_data()\n        self._wfp.close()\n\n    def _write_cached_data", "        self._wfp.close()\n        self._write_cached_data()\n\n    def _write_cached_data")])
fires('m226-drain-caches-stop', ['C13'], [(WORKERS, "                data = self._inbox.get_nowait()\n                if data != _STOP_PROCESSING:\n                    self._cache.append(data)", "                data = self._inbox.get_nowait()\n                if data is not None:\n                    self._cache.append(data)")])
fires('m227-joiner-flag-never-cleared', ['C13'], [(WORKERS, "        else:\n            self._first_event = False\n        self._wfp.writeframes(data)", "        self._wfp.writeframes(data)")])
fires('m228-region-saver-end-from-start', ['C13'], [(WORKERS, "            start=audio_region.meta.start,\n            end=audio_region.meta.end,\n            duration=audio_region.duration,\n        )\n        filename = audio_region.save(", "            start=audio_region.meta.start,\n            end=audio_region.meta.start,\n            duration=audio_region.duration,\n        )\n        filename = audio_region.save(")])
fires('m229-joiner-drain-skips-events', ['C13'], [(WORKERS, "                if message != _STOP_PROCESSING:\n                    _, audio_event = message\n                    self._write_audio_event(audio_event.data)", "                if message != _STOP_PROCESSING:\n                    pass")])
fires('m230-saver-returns-copy-trimmed', ['C13'], [(WORKERS, "        else:\n            self.send(_STOP_PROCESSING)\n        return data", "        else:\n            self.send(_STOP_PROCESSING)\n        return data[:-2] if data else data")])
silent('t220-flush-position', ['C13'], [(WORKERS, "        self._cache.append(data)\n        self._total_cached += len(data)\n        if self._total_cached >= self._cache_size:\n            self._write_cached_data()", "        self._cache.append(data)\n        self._total_cached += len(data)\n        if self._total_cached > self._cache_size:\n            self._write_cached_data()")], 'when the cache is flushed affects when bytes are written, not which')

# ------------------------------------------------------------------ C14 stop
fires('m240-read-without-poll', ['C14'], [(WORKERS, "    def read(self):\n        if self._stop_requested():\n            return None\n        else:\n            return self._reader.read()", "    def read(self):\n        return self._reader.read()")])
fires('m241-close-without-stop', ['C14'], [(WORKERS, "    def close(self):\n        self._reader.close()\n        self.stop()\n", "    def close(self):\n        self._reader.close()\n")])
fires('m242-handler-without-stop-all', ['C14'], [(CMD, "        if tokenizer_worker is not None:\n            tokenizer_worker.stop_all()\n", "        if tokenizer_worker is not None:\n            tokenizer_worker.stop()\n")])
fires('m243-poll-blocks', ['C14'], [(WORKERS, "            message = self._inbox.get_nowait()\n            if message == _STOP_PROCESSING:\n                return True", "            message = self._inbox.get(timeout=self._timeout)\n            if message == _STOP_PROCESSING:\n                return True")])
fires('m244-poll-inverted', ['C14'], [(WORKERS, "            if message == _STOP_PROCESSING:\n                return True\n        except Empty:\n            return False", "            if message == _STOP_PROCESSING:\n                return False\n        except Empty:\n            return True")])
fires('m245-stop-all-reader-first', ['C14'], [(WORKERS, "    def stop_all(self):\n        self.stop()\n        for observer in self._observers:\n            observer.stop()\n        self._reader.close()", "    def stop_all(self):\n        self._reader.close()\n        self.stop()\n        for observer in self._observers:\n            observer.stop()")])
fires('m246-stop-all-skips-observers', ['C14'], [(WORKERS, "    def stop_all(self):\n        self.stop()\n        for observer in self._observers:\n            observer.stop()\n        self._reader.close()", "    def stop_all(self):\n        self.stop()\n        self._reader.close()")])
fires('m247-try-excludes-wait-loop', ['C14'], [(CMD, "        tokenizer_worker.start_all()\n\n        while True:\n            time.sleep(1)\n            if len(threading.enumerate()) == 1:\n                raise EndOfProcessing\n\n    except (KeyboardInterrupt, EndOfProcessing):", "        tokenizer_worker.start_all()\n\n    except (KeyboardInterrupt, EndOfProcessing):")])

# ------------------------------------------------------------------ C15 command line
fires('m260-min-dur-from-max-duration', ['C15'], [(CMDU, "        \"min_dur\": args_ns.min_duration,\n", "        \"min_dur\": args_ns.max_duration,\n")])
fires('m261-max-silence-default', ['C15'], [(CMD, "            dest=\"max_silence\",\n            type=float,\n            default=0.3,", "            dest=\"max_silence\",\n            type=float,\n            default=0.2,")])
fires('m262-divisor-6000', ['C15'], [(UTIL, "            mins, millis = divmod(millis, 60000)\n", "            mins, millis = divmod(millis, 6000)\n")])
fires('m263-mins-from-secs', ['C15'], [(UTIL, "            return fmt.format(hrs=hrs, mins=mins, secs=secs, millis=millis)\n", "            return fmt.format(hrs=hrs, mins=secs, secs=secs, millis=millis)\n")])
fires('m264-argument-error-status-0', ['C15'], [(CMD, "        except ArgumentError as exc:\n            print(exc, file=sys.stderr)\n            return 1", "        except ArgumentError as exc:\n            print(exc, file=sys.stderr)\n            return 0")])
fires('m265-rate-type-float', ['C15'], [(CMD, "            dest=\"sampling_rate\",\n            type=int,", "            dest=\"sampling_rate\",\n            type=float,")])
fires('m266-quiet-inverted', ['C15'], [(CMDU, "    if not kwargs[\"quiet\"]:\n", "    if kwargs[\"quiet\"]:\n")])
fires('m267-printf-end-uses-start', ['C15'], [(WORKERS, "            start=self._format_time(audio_region.meta.start),\n            end=self._format_time(audio_region.meta.end),", "            start=self._format_time(audio_region.meta.start),\n            end=self._format_time(audio_region.meta.start),")])
fires('m268-S-two-decimals', ['C15'], [(UTIL, "            return \"{:.3f}\".format(seconds)\n", "            return \"{:.2f}\".format(seconds)\n")])
fires('m269-I-rounds', ['C15'], [(UTIL, "            return \"{0}\".format(int(seconds * 1000))\n", "            return \"{0}\".format(round(seconds * 1000))\n")])
fires('m270-large-file-dropped', ['C15'], [(CMDU, "        \"large_file\": args_ns.large_file,\n", "        \"large_file\": False,\n")])
fires('m271-strict-and-drop-swapped', ['C15'], [(CMDU, "        \"drop_trailing_silence\": args_ns.drop_trailing_silence,\n        \"strict_min_dur\": args_ns.strict_min_duration,", "        \"drop_trailing_silence\": args_ns.strict_min_duration,\n        \"strict_min_dur\": args_ns.drop_trailing_silence,")])
fires('m272-millis-two-digits', ['C15'], [(UTIL, "        fmt = fmt.replace(\"%i\", \"{millis:03d}\")\n", "        fmt = fmt.replace(\"%i\", \"{millis:02d}\")\n")])
fires('m273-unknown-directive-accepted', ['C15'], [(UTIL, """        try:
            i = fmt.index("%")
            raise TimeFormatError(
                "Unknown time format directive '{0}'".format(fmt[i : i + 2])
            )
        except ValueError:
            pass
""", "")])
fires('m274-analysis-window-key', ['C15'], [(CMDU, "        \"block_dur\": args_ns.analysis_window,\n", "        \"analysis_window\": args_ns.analysis_window,\n")], '-a no longer reaches the reader (AudioReader takes block_dur)')
silent('t260-help-text', ['C15'], [(CMD, "            help=\"Minimum duration of a valid audio event in seconds. \"", "            help=\"Shortest duration of a valid audio event in seconds. \"")])

# ------------------------------------------------------------------ tokenizer, second batch
fires('m280-falsy-frame-ends-stream', ['C04', 'C01', 'C08'], [(CORE, "            if frame is None:\n                token = self._post_process()", "            if not frame:\n                token = self._post_process()")],
      'a falsy frame (0, "", b"") is taken for end of stream: "for every frame type"')
fires('m281-validator-inverted-binding', ['C03', 'C04'], [(CORE, "        elif isinstance(validator, DataValidator):\n            self._is_valid = validator.is_valid", "        elif isinstance(validator, DataValidator):\n            self._is_valid = validator.__class__.is_valid")])
fires('m282-token-start-end-swapped', ['C01'], [(CORE, "            token = (data, start_frame, end_frame)\n", "            token = (data, end_frame, start_frame)\n")])
fires('m283-validity-negated-in-noise', ['C04', 'C03'], [(CORE, """        elif self._state == self.NOISE:

            if frame_is_valid:""", """        elif self._state == self.NOISE:

            if not frame_is_valid:""")])
fires('m284-min-length-off-by-one', ['C02', 'C04'], [(CORE, "        if (len(self._data) >= self.min_length) or (", "        if (len(self._data) > self.min_length) or (")])
fires('m285-init-count-not-reset', ['C20', 'C03'], [(CORE, "                self._init_count = 1\n                self._silence_length = 0\n                self._start_frame = self._current_frame", "                self._init_count += 1\n                self._silence_length = 0\n                self._start_frame = self._current_frame")],
      'the initial-phase counter accumulates across candidates and across runs')
silent('t280-frame-none-eq', TOK + ['C08'], [(CORE, "            if frame is None:\n                token = self._post_process()", "            if frame is None or frame is None:\n                token = self._post_process()")])

# ------------------------------------------------------------------ behaviour-preserving refactorings across the package (must stay silent for EVERY check)
ALL = ['C%02d' % i for i in range(1, 21)]
silent('r01-split-mode-or-chain', ALL, [(CORE, "    mode = StreamTokenizer.DROP_TRAILING_SILENCE if drop_trailing_silence else 0\n    if strict_min_dur:\n        mode |= StreamTokenizer.STRICT_MIN_LENGTH\n",
                                        "    mode = StreamTokenizer.NORMAL\n    if drop_trailing_silence:\n        mode |= StreamTokenizer.DROP_TRAILING_SILENCE\n    if strict_min_dur:\n        mode |= StreamTokenizer.STRICT_MIN_LENGTH\n")])
silent('r02-limiter-remaining', ALL, [(UTIL, "        size = min(self._max_samples - self._read_samples, size)\n        if size <= 0:\n            return None\n        block = self._audio_source.read(size)",
                                       "        remaining = self._max_samples - self._read_samples\n        if remaining <= 0:\n            return None\n        block = self._audio_source.read(min(remaining, size))")])
silent('r03-recorder-truthy-cache', ALL, [(UTIL, "        if block is not None:\n            self._cache.append(block)\n        return block", "        if block:\n            self._cache.append(block)\n        return block")])
silent('r04-buffer-read-end', ALL, [(IO, """        if size is None or size < 0:
            offset = None
        else:
            bytes_to_read = self._sample_size_all_channels * size
            offset = self._current_position_bytes + bytes_to_read
        data = self._data[self._current_position_bytes : offset]""", """        start = self._current_position_bytes
        if size is None or size < 0:
            end = None
        else:
            end = start + size * self._sample_size_all_channels
        data = self._data[start:end]""")])
silent('r05-worker-run-continue', ALL, [(WORKERS, "            if message == _STOP_PROCESSING:\n                break\n            if message is not None:\n                self._process_message(message)\n        self._post_process()",
                                         "            if message is None:\n                continue\n            if message == _STOP_PROCESSING:\n                break\n            self._process_message(message)\n        self._post_process()")])
silent('r06-saver-read-ternary', ALL, [(WORKERS, "        data = self._reader.read()\n        if data is not None:\n            self.send(data)\n        else:\n            self.send(_STOP_PROCESSING)\n        return data",
                                        "        data = self._reader.read()\n        self.send(data if data is not None else _STOP_PROCESSING)\n        return data")])
silent('r07-make-kwargs-item-assignments', ALL, [(CMDU, "    split_kwargs = {\n        \"min_dur\": args_ns.min_duration,\n        \"max_dur\": args_ns.max_duration,\n", "    split_kwargs = {\n        \"max_dur\": args_ns.max_duration,\n"),
                                                  (CMDU, "    miscellaneous = {\n", "    split_kwargs[\"min_dur\"] = args_ns.min_duration\n\n    miscellaneous = {\n")])
silent('r08-energy-clip-inside', ALL, [(SIG, "    energy_sqrt = np.sqrt(np.mean(x**2, axis=-1))\n    energy_sqrt = np.clip(energy_sqrt, a_min=EPSILON, a_max=None)\n    energy = 20 * np.log10(energy_sqrt)",
                                        "    mean_square = np.clip(np.mean(x**2, axis=-1), a_min=EPSILON**2, a_max=None)\n    energy = 10 * np.log10(mean_square)")])
silent('r09-file-read-or-none', ALL, [(IO, "        data = self._read_from_stream(size)\n        if not data:\n            return None\n        return data", "        data = self._read_from_stream(size)\n        return data or None")])
silent('r10-is-valid-flipped', ALL, [(UTIL, "        return log_energy >= self._energy_threshold\n", "        return self._energy_threshold <= log_energy\n")])
silent('r11-detection-keywords', ALL, [(WORKERS, "            detection = _Detection(\n                _id,\n                audio_region.meta.start,\n                audio_region.meta.end,\n                audio_region.duration,\n            )",
                                        "            detection = _Detection(\n                id=_id,\n                start=audio_region.meta.start,\n                end=audio_region.meta.end,\n                duration=audio_region.duration,\n            )")])
silent('r12-overlap-locals', ALL, [(UTIL, """        block = self._audio_source.read(self._block_size)
        if block is None:
            return

        _hop_size_bytes = (
            self._hop_size * self._audio_source.sw * self._audio_source.ch
        )
        cache = block[_hop_size_bytes:]
        yield block
""", """        hop_bytes = self._hop_size * self._audio_source.sw * self._audio_source.ch
        first = self._audio_source.read(self._block_size)
        if first is None:
            return
        cache = first[hop_bytes:]
        yield first
        _hop_size_bytes = hop_bytes
""")])
silent('r13-duration-helper-inline', ALL, [(CORE, "    return int(round_fn(duration / analysis_window + epsilon))\n", "    nb_windows = duration / analysis_window\n    return int(round_fn(nb_windows + epsilon))\n")])
silent('r14-make-silence-bytes-n', ALL, [(CORE, "    size = round(duration * sampling_rate) * sample_width * channels\n    data = b\"\\0\" * size\n", "    nb_samples = round(duration * sampling_rate)\n    data = bytes(nb_samples * sample_width * channels)\n")])
silent('r15-getitem-len-self', ALL, [(CORE, "        len_samples = len(self.data) // bytes_per_sample\n", "        len_samples = len(self)\n")])
silent('r16-stop-requested-explicit', ALL, [(WORKERS, "            message = self._inbox.get_nowait()\n            if message == _STOP_PROCESSING:\n                return True\n        except Empty:\n            return False",
                                             "            message = self._inbox.get_nowait()\n        except Empty:\n            return False\n        return message == _STOP_PROCESSING")])
silent('r17-position-setter-locals', ALL, [(IO, "        position *= self._sample_size_all_channels\n        if position < 0:\n            position += len(self.data)\n        if position < 0 or position > len(self.data):\n            raise IndexError(\"Position out of range\")\n        self._current_position_bytes = position",
                                            "        offset = position * self._sample_size_all_channels\n        if offset < 0:\n            offset += len(self.data)\n        if offset < 0 or offset > len(self.data):\n            raise IndexError(\"Position out of range\")\n        self._current_position_bytes = offset")])
silent('r18-tokenizer-worker-read-not', ALL, [(WORKERS, "        if self._stop_requested():\n            return None\n        else:\n            return self._reader.read()", "        if not self._stop_requested():\n            return self._reader.read()\n        return None")])
silent('r19-check-audio-data-mod', ALL, [(IO, "    sample_size_bytes = int(sample_width * channels)\n    nb_samples = len(data) // sample_size_bytes\n    if nb_samples * sample_size_bytes != len(data):", "    sample_size_bytes = int(sample_width * channels)\n    if len(data) % sample_size_bytes != 0:")])
silent('r20-post-init-duration-local', ALL, [(CORE, "        duration = len(self.data) / (\n            self.sampling_rate * self.sample_width * self.channels\n        )", "        bytes_per_second = self.sampling_rate * self.sample_width * self.channels\n        duration = len(self.data) / bytes_per_second")])

silent('r21-split-guards-merged', ALL, [(CORE, "    if min_dur <= 0:\n        raise ValueError(f\"'min_dur' ({min_dur}) must be > 0\")\n    if max_dur <= 0:\n        raise ValueError(f\"'max_dur' ({max_dur}) must be > 0\")\n",
                                         "    if min_dur <= 0 or max_dur <= 0:\n        raise ValueError(f\"'min_dur' ({min_dur}) and 'max_dur' ({max_dur}) must be > 0\")\n")])
silent('r22-selector-normalise-first', ALL, [(UTIL, "        if selected < 0:\n            selected += channels\n        if selected < 0 or selected >= channels:", "        if selected < -channels or selected >= channels:\n            selected = channels\n        if selected < 0:\n            selected += channels\n        if selected >= channels:")])
silent('r23-get-audio-source-elif', ALL, [(IO, "    if input == \"-\":\n        return StdinAudioSource(*_get_audio_parameters(kwargs))\n\n    if isinstance(input, bytes):", "    if input == \"-\":\n        return StdinAudioSource(*_get_audio_parameters(kwargs))\n    elif isinstance(input, bytes):")])
silent('r24-formatter-floor-div', ALL, [(UTIL, "            hrs, millis = divmod(millis, 3600000)\n            mins, millis = divmod(millis, 60000)\n            secs, millis = divmod(millis, 1000)",
                                         "            hrs, millis = millis // 3600000, millis % 3600000\n            mins, millis = millis // 60000, millis % 60000\n            secs, millis = millis // 1000, millis % 1000")])
silent('r25-seconds-view-locals', ALL, [(CORE, "        sr = self._region.sampling_rate\n        start_sample = int(start_s * sr)\n        stop_sample = None if stop_s is None else round(stop_s * sr)\n        return self._region[start_sample:stop_sample]",
                                         "        rate = self._region.sampling_rate\n        first = int(start_s * rate)\n        if stop_s is None:\n            return self._region[first:]\n        return self._region[first : round(stop_s * rate)]")])
silent('r26-add-type-check-last', ALL, [(CORE, "        self._check_other_parameters(other)\n        data = self.data + other.data\n        return AudioRegion(data, self.sr, self.sw, self.ch)", "        self._check_other_parameters(other)\n        return AudioRegion(self.data + other.data, self.sr, self.sw, self.ch)")])
silent('r27-save-exists-helper', ALL, [(CORE, """        if isinstance(filename, Path):
            if not exists_ok and filename.exists():
                raise FileExistsError(
                    "file '{filename}' exists".format(filename=str(filename))
                )
        if isinstance(filename, str):""", """        if isinstance(filename, Path) and not exists_ok and filename.exists():
            raise FileExistsError(
                "file '{filename}' exists".format(filename=str(filename))
            )
        if isinstance(filename, str):""")])
silent('r28-read-offline-else', ALL, [(CORE, "    if max_read is not None:\n        if max_read < 0:\n            max_read = None\n        else:\n            max_read = round(max_read * audio_source.sampling_rate)\n",
                                       "    if max_read is not None and max_read < 0:\n        max_read = None\n    if max_read is not None:\n        max_read = round(max_read * audio_source.sampling_rate)\n")])
silent('r29-recorder-rewind-early-return', ALL, [(UTIL, """        if self._read_from_cache:
            self._audio_source.rewind()
        else:
            self._data = b"".join(self._cache)
            self._cache = None
            self._audio_source = BufferAudioSource(
                self._data, self.sr, self.sw, self.ch
            )
            self._read_block = self._audio_source.read
            self.open()
            self._read_from_cache = True""", """        if self._read_from_cache:
            self._audio_source.rewind()
            return
        self._data = b"".join(self._cache)
        self._cache = None
        self._audio_source = BufferAudioSource(
            self._data, self.sr, self.sw, self.ch
        )
        self._read_block = self._audio_source.read
        self.open()
        self._read_from_cache = True""")])
silent('r30-joiner-write-event-if-else', ALL, [(WORKERS, "        if not self._first_event:\n            self._wfp.writeframes(self._silence_data)\n        else:\n            self._first_event = False\n        self._wfp.writeframes(data)",
                                                "        if self._first_event:\n            self._first_event = False\n        else:\n            self._wfp.writeframes(self._silence_data)\n        self._wfp.writeframes(data)")])
silent('r31-saver-flush-clear', ALL, [(WORKERS, "            self._wfp.writeframes(data)\n            self._cache = []\n            self._total_cached = 0", "            self._wfp.writeframes(data)\n            self._cache.clear()\n            self._total_cached = 0")])
silent('r32-to-array-two-steps', ALL, [(SIG, "    array = np.frombuffer(data, dtype=dtype).astype(np.float64)\n    return array.reshape(channels, -1, order=\"F\")", "    samples = np.frombuffer(data, dtype=dtype)\n    array = samples.astype(np.float64)\n    return array.reshape(channels, -1, order=\"F\")")])
silent('r33-stop-all-reader-before-observers', ALL, [(WORKERS, "        self.stop()\n        for observer in self._observers:\n            observer.stop()\n        self._reader.close()", "        self.stop()\n        self._reader.close()\n        for observer in self._observers:\n            observer.stop()")],
       'the order between observers and reader is free once the tokenizer has stopped')
silent('r34-fixed-reader-block-size-local', ALL, [(UTIL, "        self._block_size = int(block_dur * self.sr)\n        if self._block_size == 0:", "        block_size = int(block_dur * self.sr)\n        self._block_size = block_size\n        if block_size == 0:")])
silent('r35-tokenize-callback-is-not-none', ALL, [(CORE, "        if callback:\n            for token in token_gen:\n                callback(*token)\n            return", "        if callback is not None:\n            for token in token_gen:\n                callback(*token)\n            return None")])
silent('r36-eq-early-returns', ALL, [(CORE, "        return (\n            (self.data == other.data)\n            and (self.sr == other.sr)\n            and (self.sw == other.sw)\n            and (self.ch == other.ch)\n        )",
                                      "        if self.data != other.data:\n            return False\n        return (self.sr == other.sr) and (self.sw == other.sw) and (self.ch == other.ch)")])
silent('r37-print-worker-locals', ALL, [(WORKERS, "        text = self._print_format.format(\n            id=_id,\n            start=self._format_time(audio_region.meta.start),\n            end=self._format_time(audio_region.meta.end),\n            duration=self._format_time(audio_region.duration),\n            timestamp=timestamp,\n        )\n        print(text)",
                                         "        start = self._format_time(audio_region.meta.start)\n        end = self._format_time(audio_region.meta.end)\n        duration = self._format_time(audio_region.duration)\n        print(self._print_format.format(id=_id, start=start, end=end, duration=duration, timestamp=timestamp))")])
silent('r38-from-file-wav-eq', ALL, [(IO, "    if audio_format in [\"wav\", \"wave\"]:\n        return _load_wave(filename, large_file)", "    if audio_format == \"wav\":\n        return _load_wave(filename, large_file)")], '_guess_audio_format already normalises "wave" to "wav"')
silent('r39-truediv-for-break', ALL, [(CORE, "        while onset < len(self):\n            offset = 0\n            if rest > 0:\n                offset = 1\n                rest -= 1\n            offset += onset + samples_per_sub_region",
                                       "        while onset < len(self):\n            extra = 1 if rest > 0 else 0\n            rest -= extra\n            offset = onset + samples_per_sub_region + extra")])
silent('r40-mul-int-check-first', ALL, [(CORE, "        if not isinstance(n, int):\n            err_msg = \"Can't multiply AudioRegion by a non-int of type '{}'\"\n            raise TypeError(err_msg.format(type(n)))\n        data = self.data * n\n        return AudioRegion(data, self.sr, self.sw, self.ch)",
                                         "        if isinstance(n, int):\n            return AudioRegion(self.data * n, self.sr, self.sw, self.ch)\n        err_msg = \"Can't multiply AudioRegion by a non-int of type '{}'\"\n        raise TypeError(err_msg.format(type(n)))")])

# ------------------------------------------------------------------ gaps found by the mutation sweep (tools/mutation_sweep.py): test-surviving
# AST mutants that no check reported at first; each one led to a rule (DESIGN 10.5f) and is kept here so that the rule stays armed
fires('s01-ctor-min-length-or-to-and', ['C02'], [(CORE, "        if min_length <= 0 or min_length > max_length:", "        if min_length <= 0 and min_length > max_length:")])
fires('s02-len-width-floordiv-channels', ['C16'], [(CORE, "        return len(self.data) // (self.sample_width * self.channels)", "        return len(self.data) // (self.sample_width // self.channels)")])
fires('s03-truediv-loop-le', ['C17'], [(CORE, "        while onset < len(self):", "        while onset <= len(self):")])
fires('s04-truediv-rejects-one', ['C17'], [(CORE, "        if not isinstance(n, int) or n <= 0:", "        if not isinstance(n, int) or n <= 1:")])
fires('s05-buffer-open-at-construction', ['C11'], [(IO, "        self._current_position_bytes = 0\n        self._is_open = False", "        self._current_position_bytes = 0\n        self._is_open = True")])
fires('s06-region-split-default-strict', ['C05'], [(CORE, "        self,\n        min_dur=0.2,\n        max_dur=5,\n        max_silence=0.3,\n        drop_trailing_silence=False,\n        strict_min_dur=False,\n        **kwargs,\n    ):\n        \"\"\"\n        Split audio region.",
                                                    "        self,\n        min_dur=0.2,\n        max_dur=5,\n        max_silence=0.3,\n        drop_trailing_silence=False,\n        strict_min_dur=True,\n        **kwargs,\n    ):\n        \"\"\"\n        Split audio region.")])
fires('s07-main-argv-test-inverted', ['C15'], [(CMD, "    if argv is None:\n        argv = sys.argv[1:]", "    if argv is not None:\n        argv = sys.argv[1:]")])
fires('s08-main-argv-includes-program-name', ['C15'], [(CMD, "        argv = sys.argv[1:]", "        argv = sys.argv[0:]")])
fires('s09-main-wait-loop-zero-threads', ['C15'], [(CMD, "            if len(threading.enumerate()) == 1:", "            if len(threading.enumerate()) == 0:")])
fires('s10-main-wait-loop-inverted', ['C15'], [(CMD, "            if len(threading.enumerate()) == 1:", "            if len(threading.enumerate()) != 1:")])
fires('s11-region-saver-args-swapped', ['C15'], [(CMDU, "            kwargs[\"save_detections_as\"],\n            kwargs[\"export_format\"],", "            kwargs[\"export_format\"],\n            kwargs[\"save_detections_as\"],")])
fires('s12-use-channel-option-removed', ['C15'], [(CMD, "            \"-u\",\n            \"--use-channel\",\n            dest=\"use_channel\",", "            \"-U\",\n            \"--use-channels\",\n            dest=\"use_channels\",")])
fires('s13-stdin-close-keeps-open', ['C11'], [(IO, "    def close(self):\n        self._is_open = False\n\n    def _read_from_stream(self, size):\n        bytes_to_read = size * self._sample_size", "    def close(self):\n        self._is_open = True\n\n    def _read_from_stream(self, size):\n        bytes_to_read = size * self._sample_size")])
fires('s14-file-close-keeps-stream', ['C11'], [(IO, "    def close(self):\n        if self._audio_stream is not None:\n            self._audio_stream.close()\n            self._audio_stream = None\n", "    def close(self):\n        if self._audio_stream is not None:\n            self._audio_stream.close()\n")])
fires('s15-recorder-hop-from-block', ['C19', 'C10'], [(UTIL, "            hop_dur=hop_dur,\n            record=True,", "            hop_dur=block_dur,\n            record=True,")])
fires('s16-stdin-read-returns-none-for-data', ['C11'], [(IO, "        data = self._stream.read(bytes_to_read)\n        if data:\n            return data\n        return None", "        data = self._stream.read(bytes_to_read)\n        if not data:\n            return data\n        return None")])
fires('s17-selector-normalises-with-width', ['C07'], [(UTIL, "            selected += channels", "            selected += sample_width")])

# ------------------------------------------------------------------ round 7 seeds: own minimal forms and twins
fires('u01-ctor-message-template-wants-two-arguments', ['C02'], [(CORE, """                "'init_min' must be < 'max_length' (value={0})".format(
                    max_continuous_silence
                )
""", """                "'init_min' must be < 'max_length' (value={0}, max_length={1})".format(
                    init_min
                )
""")], 'str.format raises IndexError before the ValueError exists')
silent('u02-twin-ctor-message-template-two-arguments-given', ['C02'], [(CORE, """                "'init_min' must be < 'max_length' (value={0})".format(
                    max_continuous_silence
                )
""", """                "'init_min' must be < 'max_length' (value={0}, max_length={1})".format(
                    init_min, max_length
                )
""")])
fires('u03-buffer-extended-with-the-frame', ['C01'], [(CORE, """                self._init_count += 1
                self._data.append(frame)
""", """                self._init_count += 1
                self._data.extend(frame)
""")], 'the elements of the frame, not the frame')
silent('u04-twin-buffer-extended-with-one-element-list', ['C01'], [(CORE, """                self._init_count += 1
                self._data.append(frame)
""", """                self._init_count += 1
                self._data.extend([frame])
""")])
fires('u05-command-text-formatted-again', ['C12'], [(WORKERS, """                message = self._debug_format.format(id=_id, command=command)
""", """                message = (self._debug_format + command).format(id=_id, command=command)
""")], 'braces in the expanded command kill the observer')

# ------------------------------------------------------------------ round 8 seeds: own minimal forms and twins
fires('v01-tokenizer-from-lru-cached-helper', ['C20', 'C08'], [(CORE, """    tokenizer = StreamTokenizer(
        validator, min_length, max_length, max_continuous_silence, mode=mode
    )
    source.open()
""", """    tokenizer = _cached_tokenizer(
        validator, min_length, max_length, max_continuous_silence, mode
    )
    source.open()
"""), (CORE, """def _duration_to_nb_windows(
""", """@functools.lru_cache(maxsize=32)
def _cached_tokenizer(validator, min_length, max_length, max_silence, mode):
    return StreamTokenizer(validator, min_length, max_length, max_silence, mode=mode)


def _duration_to_nb_windows(
"""), (CORE, "import math\n", "import functools\nimport math\n")], 'two live split() generators share one automaton')
silent('v02-twin-stateless-validator-from-lru-cached-helper', ['C20', 'C08', 'C09'], [(CORE, """        validator = AudioEnergyValidator(
            energy_threshold, source.sw, source.ch, use_channel=use_channel
        )
""", """        validator = _cached_validator(
            energy_threshold, source.sw, source.ch, use_channel
        )
"""), (CORE, """def _duration_to_nb_windows(
""", """@functools.lru_cache(maxsize=32)
def _cached_validator(energy_threshold, sample_width, channels, use_channel):
    return AudioEnergyValidator(energy_threshold, sample_width, channels, use_channel=use_channel)


def _duration_to_nb_windows(
"""), (CORE, "import math\n", "import functools\nimport math\n")], 'the validator has no state that changes while it is used')
fires('v03-silence-tolerance-copied-at-construction', ['C03'], [(CORE, """        self.max_continuous_silence = max_continuous_silence
        self.init_min = init_min
""", """        self.max_continuous_silence = max_continuous_silence
        self._no_silence = max_continuous_silence <= 0
        self.init_min = init_min
"""), (CORE, "            elif self.max_continuous_silence <= 0:\n", "            elif self._no_silence:\n")], 'a copy of a public bound goes stale when the attribute is assigned')
fires('v04-file-source-end-latch-never-reset', ['C11'], [(IO, """        super().__init__(sampling_rate, sample_width, channels)
        self._audio_stream = None

    def __del__(self):
""", """        super().__init__(sampling_rate, sample_width, channels)
        self._audio_stream = None
        self._drained = False

    def __del__(self):
"""), (IO, """        data = self._read_from_stream(size)
        if not data:
            return None
        return data
""", """        if self._drained:
            return None
        data = self._read_from_stream(size)
        if not data:
            self._drained = True
            return None
        return data
""")], 'a re-opened source yields nothing')
silent('v05-twin-file-source-end-latch-reset-by-close', ['C11'], [(IO, """        super().__init__(sampling_rate, sample_width, channels)
        self._audio_stream = None

    def __del__(self):
""", """        super().__init__(sampling_rate, sample_width, channels)
        self._audio_stream = None
        self._drained = False

    def __del__(self):
"""), (IO, """        data = self._read_from_stream(size)
        if not data:
            return None
        return data
""", """        if self._drained:
            return None
        data = self._read_from_stream(size)
        if not data:
            self._drained = True
            return None
        return data
"""), (IO, """        if self._audio_stream is not None:
            self._audio_stream.close()
            self._audio_stream = None

    @abstractmethod
    def _read_from_stream(self, size):
""", """        if self._audio_stream is not None:
            self._audio_stream.close()
            self._audio_stream = None
        self._drained = False

    @abstractmethod
    def _read_from_stream(self, size):
""")])

# ------------------------------------------------------------------ round 9 seeds: own minimal forms and twins
fires('w01-cursor-assigned-before-range-check', ['C11'], [(IO, """        if position < 0 or position > len(self.data):
            raise IndexError("Position out of range")
        self._current_position_bytes = position
""", """        self._current_position_bytes = position
        if position < 0 or position > len(self.data):
            raise IndexError("Position out of range")
""")], 'a rejected assignment has already moved the cursor')
silent('w02-twin-cursor-restored-before-raising', ['C11'], [(IO, """        if position < 0 or position > len(self.data):
            raise IndexError("Position out of range")
        self._current_position_bytes = position
""", """        previous = self._current_position_bytes
        self._current_position_bytes = position
        if position < 0 or position > len(self.data):
            self._current_position_bytes = previous
            raise IndexError("Position out of range")
""")], 'the cursor is put back before the exception leaves')
fires('w03-limiter-charged-before-the-read', ['C10'], [(UTIL, """        block = self._audio_source.read(size)
        if block is None:
            return None
        self._read_samples += len(block) // self._bytes_per_sample
        return block
""", """        self._read_samples += size
        block = self._audio_source.read(size)
        if block is None:
            return None
        return block
""")], 'a read that raises is charged against max_read')
fires('w04-observers-or-default', ['C12'], [(WORKERS, "        self._observers = observers if observers is not None else []\n", "        self._observers = observers or []\n")],
      'an explicitly empty list is replaced by a private one')
fires('w05-mode-compared-by-identity', ['C02'], [(CORE, """        self._drop_trailing_silence = (mode & self.DROP_TRAILING_SILENCE) != 0
""", """        self._drop_trailing_silence = mode is self.DROP_TRAILING_SILENCE or mode is strict_min_and_drop_trailing
""")], 'numpy integers and IntFlag members are equal to the constants, not identical')
silent('w06-twin-mode-compared-by-equality', ['C02', 'C03', 'C04'], [(CORE, """        self._drop_trailing_silence = (mode & self.DROP_TRAILING_SILENCE) != 0
""", """        self._drop_trailing_silence = mode == self.DROP_TRAILING_SILENCE or mode == strict_min_and_drop_trailing
""")])
