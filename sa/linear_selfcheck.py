"""Sanity check of the trusted arithmetic core (thorough tier of the proof-level checks): the Fourier-Motzkin
decision is compared with brute-force enumeration on small random integer systems.  An "infeasible" answer on a
system that has an integer solution would be unsound (it could discharge a false obligation); a "feasible" answer
without a solution in the box is merely imprecise."""
import itertools
import random

from .linear import feasible, model, holds_at, ONE


def run(n=1500, seed=7):
    rnd = random.Random(seed)
    vs = ['x', 'y', 'z']
    unsound = imprecise = models = 0
    for _ in range(n):
        cons = []
        for _i in range(rnd.randint(1, 5)):
            e = {v: rnd.randint(-2, 2) for v in vs if rnd.random() < 0.7}
            e = {k: v for k, v in e.items() if v}
            c = rnd.randint(-4, 4)
            if c:
                e[ONE] = c
            cons.append((e, rnd.choice(['<=', '<=', '=='])))
        sat = any(all(holds_at(c, dict(zip(vs, p))) for c in cons) for p in itertools.product(range(-10, 11), repeat=3))
        f = feasible(cons)
        if sat and not f:
            unsound += 1
        if f and not sat:
            imprecise += 1
        m = model(cons)
        if m is not None:
            models += 1
            if not all(holds_at(c, m) for c in cons):
                unsound += 1
    return dict(systems=n, unsound=unsound, feasible_without_boxed_solution=imprecise, models_found=models)
