"""Audio-parameter role rule (DESIGN 3.4): wherever a sampling-rate / sample-width / channel value
is handed over -- call argument -> parameter, keyword, dict entry, attribute or local assignment,
tuple unpacking of a repo function's result, star-args -- the role of what is passed equals the
role of what receives it.  Roles come from the alias families of the repository
(sr|sampling_rate|srate|getframerate|frame_rate|rate, sw|sample_width|swidth|getsampwidth,
ch|channels|getnchannels and the wave setters).
"""
import ast

from .symex import ROLE_OF

SETTERS = {'setframerate': 'sampling_rate', 'setsampwidth': 'sample_width', 'setnchannels': 'channels'}
GETTERS = {'getframerate': 'sampling_rate', 'getsampwidth': 'sample_width', 'getnchannels': 'channels'}


class RoleChecker:
    def __init__(s, model):
        s.m = model
        s.pairs = []        # dict(where, func, kind, giver, receiver, role_g, role_r, ok)
        s._ret_roles = {}

    # ------------------------------------------------------------ roles of expressions
    def role_of(s, n, mod, cls, env):
        """role of an expression AST, or None when it carries no recognisable role"""
        if isinstance(n, ast.Name):
            if n.id in env:
                return env[n.id]
            return ROLE_OF.get(n.id)
        if isinstance(n, ast.Attribute):
            return ROLE_OF.get(n.attr)
        if isinstance(n, ast.Call):
            if isinstance(n.func, ast.Attribute) and n.func.attr in GETTERS and not n.args:
                return GETTERS[n.func.attr]
            if isinstance(n.func, ast.Name) and n.func.id in ('int', 'round', 'abs') and len(n.args) == 1:
                return s.role_of(n.args[0], mod, cls, env)
            # d.get("sampling_rate", d.get("sr"))
            if isinstance(n.func, ast.Attribute) and n.func.attr == 'get' and n.args and isinstance(n.args[0], ast.Constant) and isinstance(n.args[0].value, str):
                return ROLE_OF.get(n.args[0].value)
            return None
        if isinstance(n, ast.Subscript) and isinstance(n.slice, ast.Constant) and isinstance(n.slice.value, str):
            return ROLE_OF.get(n.slice.value)
        return None

    def return_roles(s, mod, cls, fn):
        """roles of the components of the tuple a function returns (None if not a role tuple)"""
        key = id(fn)
        if key in s._ret_roles:
            return s._ret_roles[key]
        s._ret_roles[key] = None
        res = None
        env = s.local_roles(mod, cls, fn)
        for n in ast.walk(fn):
            if isinstance(n, ast.Return) and isinstance(n.value, ast.Tuple):
                roles = [s.role_of(e, mod, cls, env) for e in n.value.elts]
                if any(roles):
                    if res is None:
                        res = roles
                    elif res != roles:
                        res = [a if a == b else None for a, b in zip(res, roles)]
        s._ret_roles[key] = res
        return res

    def local_roles(s, mod, cls, fn):
        """locals whose name carries no role but that are assigned a role-bearing value once (e.g. rate = x.sr)"""
        env = {}
        return env

    def resolve(s, call, mod, cls, fn):
        """-> (kind, params list, display) for a call node, or None"""
        f = call.func
        m = s.m
        target = None
        skip_self = False
        if isinstance(f, ast.Name):
            if f.id == 'cls' and cls is not None:
                target = ('class', mod, cls)
            else:
                g = m.resolve_global(mod, f.id)
                lk = m.lookup(g)
                if lk and lk[0] == 'func':
                    target = ('func', g[1], None, lk[1])
                elif lk and lk[0] == 'class':
                    target = ('class', g[1], lk[1])
        elif isinstance(f, ast.Attribute):
            if f.attr in SETTERS and len(call.args) == 1:
                return ('setter', [SETTERS[f.attr]], ast.unparse(f))
            if isinstance(f.value, ast.Name) and f.value.id == 'self' and cls is not None:
                r = m.find_method(mod, cls, f.attr)
                if r and not m.is_property(r[2]):
                    target = ('func', r[0], r[1], r[2])
                    skip_self = True
            elif isinstance(f.value, ast.Call) and isinstance(f.value.func, ast.Name) and f.value.func.id == 'super' and cls is not None:
                r = m.find_method(mod, cls, f.attr, skip_self=True)
                if r:
                    target = ('func', r[0], r[1], r[2])
                    skip_self = True
            elif isinstance(f.value, ast.Name):
                g = m.resolve_global(mod, f.value.id)
                if g[0] == 'mod' and g[1] in m.mods:
                    g2 = m.resolve_global(g[1], f.attr)
                    lk = m.lookup(g2)
                    if lk and lk[0] == 'func':
                        target = ('func', g2[1], None, lk[1])
                    elif lk and lk[0] == 'class':
                        target = ('class', g2[1], lk[1])
                else:
                    lk = m.lookup(g)
                    if lk and lk[0] == 'class':
                        r = m.find_method(g[1], lk[1], f.attr)
                        if r:
                            target = ('func', r[0], r[1], r[2])
                            skip_self = not any(isinstance(d, ast.Name) and d.id in ('staticmethod',) for d in r[2].decorator_list) and False
        if target is None:
            return None
        if target[0] == 'class':
            r = m.find_method(target[1], target[2], '__init__')
            if r:
                fn2 = r[2]
                params = [a.arg for a in fn2.args.posonlyargs + fn2.args.args][1:]
                kwonly = [a.arg for a in fn2.args.kwonlyargs]
                return ('ctor', params, target[2].name, kwonly, fn2)
            fields = [n.target.id for n in target[2].body if isinstance(n, ast.AnnAssign) and isinstance(n.target, ast.Name)]
            return ('ctor', fields, target[2].name, [], None)
        fn2 = target[3]
        params = [a.arg for a in fn2.args.posonlyargs + fn2.args.args]
        if target[2] is not None and params and params[0] in ('self', 'cls'):
            params = params[1:]
        return ('func', params, fn2.name, [a.arg for a in fn2.args.kwonlyargs], fn2, target[1], target[2])

    # ------------------------------------------------------------ the rule
    def record(s, mod, node, func, kind, giver, receiver, rg, rr):
        if rg is None or rr is None:
            return
        s.pairs.append(dict(where='auditok/%s.py:%d' % (mod, node.lineno), func=func, kind=kind, giver=giver, receiver=receiver,
                            role_g=rg, role_r=rr, ok=(rg == rr)))

    def check_function(s, mod, cls, fn, qual):
        env = {}
        for n in ast.walk(fn):
            if isinstance(n, ast.Call):
                s.check_call(n, mod, cls, fn, qual, env)
            elif isinstance(n, ast.Assign):
                for t in n.targets:
                    s.check_assign(t, n.value, mod, cls, fn, qual, env, n)
            elif isinstance(n, ast.Dict):
                for k, v in zip(n.keys, n.values):
                    if isinstance(k, ast.Constant) and isinstance(k.value, str):
                        s.record(mod, v, qual, 'dict entry', ast.unparse(v), repr(k.value), s.role_of(v, mod, cls, env), ROLE_OF.get(k.value))

    def check_assign(s, t, value, mod, cls, fn, qual, env, node):
        if isinstance(t, ast.Name):
            s.record(mod, node, qual, 'local assignment', ast.unparse(value), t.id, s.role_of(value, mod, cls, env), ROLE_OF.get(t.id))
        elif isinstance(t, ast.Attribute):
            s.record(mod, node, qual, 'attribute store', ast.unparse(value), ast.unparse(t), s.role_of(value, mod, cls, env), ROLE_OF.get(t.attr))
        elif isinstance(t, ast.Subscript) and isinstance(t.slice, ast.Constant) and isinstance(t.slice.value, str):
            s.record(mod, node, qual, 'item store', ast.unparse(value), ast.unparse(t), s.role_of(value, mod, cls, env), ROLE_OF.get(t.slice.value))
        elif isinstance(t, (ast.Tuple, ast.List)):
            if isinstance(value, (ast.Tuple, ast.List)) and len(value.elts) == len(t.elts):
                for a, b in zip(t.elts, value.elts):
                    s.check_assign(a, b, mod, cls, fn, qual, env, node)
            elif isinstance(value, ast.Call):
                r = s.resolve(value, mod, cls, fn)
                if r and r[0] == 'func':
                    roles = s.return_roles(r[5], r[6], r[4])
                    if roles and len(roles) == len(t.elts):
                        for a, rg in zip(t.elts, roles):
                            if isinstance(a, ast.Name):
                                s.record(mod, node, qual, 'unpacked result of %s' % r[2], '%s()[%d]' % (r[2], roles.index(rg) if rg in roles else -1), a.id, rg, ROLE_OF.get(a.id))
                            elif isinstance(a, ast.Attribute):
                                s.record(mod, node, qual, 'unpacked result of %s' % r[2], r[2] + '()', ast.unparse(a), rg, ROLE_OF.get(a.attr))

    def check_call(s, call, mod, cls, fn, qual, env):
        r = s.resolve(call, mod, cls, fn)
        if r is None:
            return
        kind, params, disp = r[0], r[1], r[2]
        kwonly = r[3] if len(r) > 3 and isinstance(r[3], list) else []
        pos = 0
        for a in call.args:
            if isinstance(a, ast.Starred):
                # *f(...) : expand the callee's return roles positionally
                if isinstance(a.value, ast.Call):
                    rr = s.resolve(a.value, mod, cls, fn)
                    if rr and rr[0] == 'func':
                        roles = s.return_roles(rr[5], rr[6], rr[4])
                        if roles:
                            for i, rg in enumerate(roles):
                                if pos + i < len(params):
                                    s.record(mod, call, qual, 'star-args %s -> %s' % (rr[2], disp), '%s()[%d]' % (rr[2], i), params[pos + i], rg, ROLE_OF.get(params[pos + i]))
                            pos += len(roles)
                            continue
                break
            if pos < len(params):
                s.record(mod, call, qual, 'argument of %s' % disp, ast.unparse(a), params[pos], s.role_of(a, mod, cls, env), ROLE_OF.get(params[pos]))
            pos += 1
        for k in call.keywords:
            if k.arg is None:
                continue
            if k.arg in params or k.arg in kwonly or kind in ('func', 'ctor'):
                s.record(mod, call, qual, 'keyword of %s' % disp, ast.unparse(k.value), k.arg, s.role_of(k.value, mod, cls, env), ROLE_OF.get(k.arg))
        # completeness: a callee that takes rate, width AND channels must be given all three or none --
        # passing some and leaving another to its default (16000 / 2 / 1) silently changes the format
        role_params = {ROLE_OF[p_]: p_ for p_ in params + list(kwonly) if p_ in ROLE_OF}
        if len(role_params) == 3 and kind in ('func', 'ctor') and not any(k.arg is None for k in call.keywords):
            given = set()
            npos = 0
            starred = False
            for a in call.args:
                if isinstance(a, ast.Starred):
                    starred = True
                    break
                if npos < len(params) and params[npos] in ROLE_OF:
                    given.add(ROLE_OF[params[npos]])
                npos += 1
            for k in call.keywords:
                if k.arg in ROLE_OF:
                    given.add(ROLE_OF[k.arg])
            if not starred and 0 < len(given) < 3:
                missing = sorted(set(role_params) - given)
                s.pairs.append(dict(where='auditok/%s.py:%d' % (mod, call.lineno), func=qual, kind='completeness of %s' % disp, giver='(default)', receiver=', '.join(role_params[m_] for m_ in missing),
                                    role_g='default value', role_r='/'.join(missing), ok=False))
            elif not starred and len(given) == 3:
                s.pairs.append(dict(where='auditok/%s.py:%d' % (mod, call.lineno), func=qual, kind='completeness of %s' % disp, giver='all three', receiver='rate/width/channels', role_g='complete', role_r='complete', ok=True))

    def crossed_forwarding(s, mods=None):
        """argument-selection rule: in a function with parameters P, a call g(k=v) / positional slot k <- v where v is a bare
        parameter name of the caller, k != v, and BOTH names are parameters of caller and callee (hop_dur=block_dur,
        max_length <- min_length ...).  -> list of dict(where, func, callee, param, given)"""
        out = []
        for mod, d in s.m.mods.items():
            if mods and mod not in mods:
                continue
            fns = [(None, fn) for fn in d['funcs'].values()] + [(c, fn) for c in d['classes'].values() for fn in c.body if isinstance(fn, ast.FunctionDef)]
            for cls, fn in fns:
                P = {a.arg for a in fn.args.posonlyargs + fn.args.args + fn.args.kwonlyargs} - {'self', 'cls'}
                if len(P) < 2:
                    continue
                for call in ast.walk(fn):
                    if not isinstance(call, ast.Call):
                        continue
                    r = s.resolve(call, mod, cls, fn)
                    if r is None or r[0] not in ('func', 'ctor'):
                        continue
                    params = list(r[1])
                    kwonly = r[3] if len(r) > 3 and isinstance(r[3], list) else []
                    Q = set(params) | set(kwonly)
                    pairs = []
                    for i, a in enumerate(call.args):
                        if isinstance(a, ast.Starred):
                            break
                        if i < len(params):
                            pairs.append((params[i], a))
                    pairs += [(k.arg, k.value) for k in call.keywords if k.arg is not None]
                    qual = '%s.%s' % (cls.name, fn.name) if cls is not None else fn.name
                    for k, v in pairs:
                        if isinstance(v, ast.Name) and v.id in P and v.id != k and k in P and v.id in Q and k in Q:
                            out.append(dict(where='auditok/%s.py:%d' % (mod, call.lineno), func=qual, callee=r[2], param=k, given=v.id))
                        elif isinstance(v, ast.Name) and v.id == k and k in P and k in Q:
                            out.append(dict(where='auditok/%s.py:%d' % (mod, call.lineno), func=qual, callee=r[2], param=k, given=v.id, ok=True))
        return out

    def run(s, mods=None):
        for mod, d in s.m.mods.items():
            if mods and mod not in mods:
                continue
            for fn in d['funcs'].values():
                s.check_function(mod, None, fn, fn.name)
            for c in d['classes'].values():
                for fn in c.body:
                    if isinstance(fn, ast.FunctionDef):
                        s.check_function(mod, c, fn, '%s.%s' % (c.name, fn.name))
        return s.pairs
