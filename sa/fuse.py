"""Loop fusion: `for T in g(args): BODY` where g is a generator of the form `PRE; while C: ... yield E ...` is the loop
`PRE; while C: ... T = E; BODY ...` written in one piece (the generator's `return` inside its loop leaves the loop: `break`).

Used by the path evaluator and by the tokenizer's abstract interpreter so that a read / message loop moved into a helper generator
is analysed as the loop it is.  Returns None whenever the rewrite would not be exact:
  * BODY must not contain break / continue / return / yield-from (they would act on a different loop),
  * the generator has exactly one `yield <expr>`, inside its single top-level `while` (not inside a nested loop or a `finally`),
  * nothing follows that loop in the generator (so `return` == `break`), no `return <value>`,
  * arguments are simple expressions (names, attributes, constants) bound positionally to plain parameters.
"""
import ast
import copy


def is_generator(fn):
    return any(isinstance(x, (ast.Yield, ast.YieldFrom)) for x in ast.walk(fn))


def fuse(for_node, gen_fn, call, bound_self):
    if for_node.orelse or call.keywords or any(isinstance(a, ast.Starred) for a in call.args):
        return None
    for st in for_node.body:
        for x in ast.walk(st):
            if isinstance(x, (ast.Break, ast.Continue, ast.Return, ast.YieldFrom)):
                return None
    a = gen_fn.args
    if a.vararg or a.kwarg or a.kwonlyargs or a.defaults or a.posonlyargs:
        return None
    params = [x.arg for x in a.args]
    if bound_self:
        if not params:
            return None
        self_name, params = params[0], params[1:]
    if len(params) != len(call.args) or not all(isinstance(x, (ast.Name, ast.Attribute, ast.Constant)) for x in call.args):
        return None
    gbody = [b for b in gen_fn.body if not (isinstance(b, ast.Expr) and isinstance(b.value, ast.Constant))]
    wl = [b for b in gbody if isinstance(b, ast.While)]
    if len(wl) != 1 or gbody[-1] is not wl[0] or wl[0].orelse:
        return None
    w = wl[0]
    ys = [x for x in ast.walk(gen_fn) if isinstance(x, (ast.Yield, ast.YieldFrom))]
    if len(ys) != 1 or not isinstance(ys[0], ast.Yield) or ys[0].value is None:
        return None

    # the yield must be an expression statement reachable from the while body through if / try bodies only
    def find(stmts):
        for i, b in enumerate(stmts):
            if isinstance(b, ast.Expr) and b.value is ys[0]:
                return stmts, i
            if isinstance(b, ast.If):
                r = find(b.body) or find(b.orelse)
                if r:
                    return r
            elif isinstance(b, ast.Try):
                r = find(b.body) or find(b.orelse)
                for h in b.handlers:
                    r = r or find(h.body)
                if r:
                    return r
        return None
    if find(w.body) is None:
        return None
    for x in ast.walk(w):
        if x is not w and isinstance(x, (ast.While, ast.For)):
            return None
    sub = dict(zip(params, call.args))
    glocals = {x.id for x in ast.walk(gen_fn) if isinstance(x, ast.Name) and isinstance(x.ctx, ast.Store)} - set(params)
    ys[0]._fuse_mark = True
    w2 = copy.deepcopy(w)
    pre = copy.deepcopy(gbody[:-1])
    del ys[0]._fuse_mark

    class R(ast.NodeTransformer):
        def visit_Name(self, n):
            if n.id in sub and isinstance(n.ctx, ast.Load):
                return ast.copy_location(copy.deepcopy(sub[n.id]), n)
            if n.id in glocals:
                return ast.copy_location(ast.Name(id='_fused_' + n.id, ctx=n.ctx), n)
            return n

        def visit_Return(self, n):
            if n.value is not None and not (isinstance(n.value, ast.Constant) and n.value.value is None):
                raise ValueError('return with a value')
            return ast.copy_location(ast.Break(), n)

        def visit_Expr(self, n):
            if isinstance(n.value, ast.Yield) and getattr(n.value, '_fuse_mark', False):
                val = self.visit(n.value.value)
                tgt = copy.deepcopy(for_node.target)
                for t in ast.walk(tgt):
                    if isinstance(t, (ast.Name, ast.Tuple, ast.List, ast.Attribute, ast.Subscript, ast.Starred)):
                        t.ctx = ast.Store()
                return [ast.copy_location(ast.Assign(targets=[tgt], value=val), n)] + list(for_node.body)
            return self.generic_visit(n)
    try:
        pre = [R().visit(b) for b in pre]
        w2 = R().visit(w2)
    except ValueError:
        return None
    out = pre + [w2]
    for b in out:
        ast.fix_missing_locations(b)
    return out
