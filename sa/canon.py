"""Parse-time canonical forms: spellings of one idiom that every rule would otherwise have to know separately."""
import ast


def _safe_default(n):
    """an expression whose evaluation has no effect and cannot fail: it may be evaluated eagerly (as the default of dict.get)"""
    if isinstance(n, (ast.Constant, ast.Name)):
        return True
    if isinstance(n, ast.Attribute):
        return isinstance(n.value, ast.Name)
    if isinstance(n, ast.Call) and isinstance(n.func, ast.Attribute) and n.func.attr == 'get' and isinstance(n.func.value, ast.Name) and not n.keywords and 1 <= len(n.args) <= 2:
        return all(_safe_default(a) for a in n.args)
    return False


class DictLookupIdiom(ast.NodeTransformer):
    """`D[k] if k in D else X` and `if k in D: return D[k]` / `return X` (k a string literal, X effect-free) ARE `D.get(k, X)`: the
    three spellings are given one form at parse time, so that no rule has to know the alias idiom in more than one shape"""

    @staticmethod
    def _match(test):
        neg = False
        if isinstance(test, ast.UnaryOp) and isinstance(test.op, ast.Not):
            test, neg = test.operand, True
        if not (isinstance(test, ast.Compare) and len(test.ops) == 1 and isinstance(test.ops[0], (ast.In, ast.NotIn))):
            return None
        if isinstance(test.ops[0], ast.NotIn):
            neg = not neg
        k, d = test.left, test.comparators[0]
        if not (isinstance(k, (ast.Constant, ast.Name)) and isinstance(d, ast.Name)):
            return None
        if isinstance(k, ast.Constant) and not isinstance(k.value, str):
            return None
        return k, d, neg

    @staticmethod
    def _is_lookup(n, k, d):
        return isinstance(n, ast.Subscript) and isinstance(n.value, ast.Name) and n.value.id == d.id and ast.dump(n.slice) == ast.dump(k)

    @staticmethod
    def _get(k, d, default, at):
        return ast.copy_location(ast.Call(func=ast.copy_location(ast.Attribute(value=ast.copy_location(ast.Name(id=d.id, ctx=ast.Load()), at), attr='get', ctx=ast.Load()), at),
                                          args=[k, default], keywords=[]), at)

    def visit_IfExp(s, node):
        s.generic_visit(node)
        m = s._match(node.test)
        if m:
            k, d, neg = m
            hit, miss = (node.orelse, node.body) if neg else (node.body, node.orelse)
            if s._is_lookup(hit, k, d) and _safe_default(miss):
                return s._get(k, d, miss, node)
        return node

    def _block(s, body):
        out = []
        i = 0
        while i < len(body):
            st = body[i]
            nxt = body[i + 1] if i + 1 < len(body) else None
            if isinstance(st, ast.If):
                m = s._match(st.test)
                if m and len(st.body) == 1:
                    k, d, neg = m
                    # if k in D: return D[k]   (else:) return X
                    other = st.orelse[0] if len(st.orelse) == 1 else (nxt if not st.orelse else None)
                    if isinstance(st.body[0], ast.Return) and isinstance(other, ast.Return) and st.body[0].value is not None and other.value is not None:
                        hit, miss = (other.value, st.body[0].value) if neg else (st.body[0].value, other.value)
                        if s._is_lookup(hit, k, d) and _safe_default(miss):
                            out.append(ast.copy_location(ast.Return(value=s._get(k, d, miss, st)), st))
                            i += 1 if st.orelse else 2
                            continue
                    # if k in D: v = D[k]  else: v = X
                    if len(st.orelse) == 1 and isinstance(st.body[0], ast.Assign) and isinstance(st.orelse[0], ast.Assign) and len(st.body[0].targets) == 1 and len(st.orelse[0].targets) == 1 \
                            and isinstance(st.body[0].targets[0], ast.Name) and ast.dump(st.body[0].targets[0]) == ast.dump(st.orelse[0].targets[0]):
                        hit, miss = (st.orelse[0].value, st.body[0].value) if neg else (st.body[0].value, st.orelse[0].value)
                        if s._is_lookup(hit, k, d) and _safe_default(miss):
                            out.append(ast.copy_location(ast.Assign(targets=[st.body[0].targets[0]], value=s._get(k, d, miss, st)), st))
                            i += 1
                            continue
            out.append(st)
            i += 1
        return out

    def generic_visit(s, node):
        super().generic_visit(node)
        for f in ('body', 'orelse', 'finalbody'):
            b = getattr(node, f, None)
            if isinstance(b, list) and b and isinstance(b[0], ast.stmt):
                setattr(node, f, s._block(b))
        return node


def canonicalise(tree):
    return ast.fix_missing_locations(DictLookupIdiom().visit(tree))
