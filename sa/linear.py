"""Integer linear arithmetic for the analyser (DESIGN 3.3.2).

An *expression* is a dict  var -> int  with the constant stored under key 1.
A *constraint* is (expr, op) with op in {'<=', '=='} meaning expr <= 0 / expr == 0.
All variables range over the integers.  Feasibility is decided by Gaussian
elimination on the equalities followed by Fourier-Motzkin elimination on the
inequalities, with gcd normalisation and integer tightening of every derived
row.  No external solver is used.

The decision procedure is sound for *infeasibility* (a system reported
infeasible has no integer solution) because every derived row is a consequence
of the input over the integers.  "Feasible" answers are feasibility of the
tightened rational relaxation; for the systems built by the analyser
(coefficients in {-1, 0, 1} before elimination) that is exact in practice, and
an imprecise "feasible" can only make the analyser report an alarm or drop a
candidate invariant, never hide one:  entails() == not feasible(negation).
"""
from math import gcd

ONE = 1          # key of the constant term


def C(c):
    return {ONE: int(c)} if c else {}


def V(x):
    return {x: 1}


def add(a, b, kb=1):
    r = dict(a)
    for k, v in b.items():
        nv = r.get(k, 0) + kb * v
        if nv:
            r[k] = nv
        else:
            r.pop(k, None)
    return r


def scale(a, k):
    return {x: v * k for x, v in a.items()} if k else {}


def subst(e, env):
    r = {}
    for k, v in e.items():
        if k == ONE:
            r = add(r, {ONE: v})
        else:
            r = add(r, env.get(k, {k: 1}), v)
    return r


def is_const(e):
    return all(k == ONE for k in e)


def cval(e):
    return e.get(ONE, 0)


def variables(e):
    return [k for k in e if k != ONE]


def le(a, b):
    return (add(a, b, -1), '<=')


def lt(a, b):
    return (add(add(a, b, -1), C(1)), '<=')


def ge(a, b):
    return le(b, a)


def gt(a, b):
    return lt(b, a)


def eq(a, b):
    return (add(a, b, -1), '==')


def neg(c):
    """negation of an inequality (integers): not(e <= 0)  <=>  -e + 1 <= 0"""
    e, op = c
    assert op == '<='
    return (add(C(1), e, -1), '<=')


def show_expr(e):
    parts = []
    for k in sorted((k for k in e if k != ONE), key=str):
        v = e[k]
        if v == 1:
            parts.append('+ %s' % k)
        elif v == -1:
            parts.append('- %s' % k)
        elif v > 0:
            parts.append('+ %d*%s' % (v, k))
        else:
            parts.append('- %d*%s' % (-v, k))
    c = e.get(ONE, 0)
    if c or not parts:
        parts.append(('+ %d' % c) if c >= 0 else ('- %d' % -c))
    s = ' '.join(parts)
    return s[2:] if s.startswith('+ ') else s


def show(c):
    e, op = c
    pos = {k: v for k, v in e.items() if v > 0}
    negs = {k: -v for k, v in e.items() if v < 0}
    return '%s %s %s' % (show_expr(pos), op, show_expr(negs))


# ---------------------------------------------------------------- core
STATS = {'feasible': 0}


def _norm_le(q):
    """normalise  q <= 0 ; returns (key, const) or True/False for trivial rows"""
    vs = [k for k in q if k != ONE]
    c = q.get(ONE, 0)
    if not vs:
        return c <= 0
    g = 0
    for k in vs:
        g = gcd(g, abs(q[k]))
    vs.sort(key=str)
    if g > 1:
        # sum(a_i x_i) + c <= 0 ; divide by g and tighten the constant (integers)
        c = -((-c) // g)
        key = tuple((k, q[k] // g) for k in vs)
    else:
        key = tuple((k, q[k]) for k in vs)
    return key, c


def _gauss(eqs, les):
    """eliminate with the equalities; returns (False|None, reduced inequalities, substitutions)"""
    eqs = [dict(e) for e in eqs]
    les = [dict(e) for e in les]
    subs = []
    while eqs:
        e = eqs.pop()
        vs = [k for k in e if k != ONE]
        if not vs:
            if e.get(ONE, 0) != 0:
                return False, None, None
            continue
        g = 0
        for k in vs:
            g = gcd(g, abs(e[k]))
        if e.get(ONE, 0) % g != 0:
            return False, None, None          # no integer solution
        if g > 1:
            e = {k: v // g for k, v in e.items()}
        # prefer a unit coefficient so that the substitution stays integral
        x = None
        for k in vs:
            if abs(e[k]) == 1:
                x = k
                break
        if x is None:
            x = vs[0]
        cx = e[x]
        s = 1 if cx > 0 else -1
        acx = abs(cx)
        subs.append((x, e))

        def elim(q):
            qx = q.get(x, 0)
            if not qx:
                return q
            # |cx| * q  -  sign(cx) * qx * e      (x disappears; direction kept)
            r = {}
            for k, v in q.items():
                if k != x:
                    r[k] = v * acx
            for k, v in e.items():
                if k != x:
                    nv = r.get(k, 0) - s * qx * v
                    if nv:
                        r[k] = nv
                    else:
                        r.pop(k, None)
            return {k: v for k, v in r.items() if v}
        eqs = [elim(q) for q in eqs]
        les = [elim(q) for q in les]
    return True, les, subs


def feasible(cons):
    STATS['feasible'] += 1
    ok, les, _ = _gauss([e for e, op in cons if op == '=='], [e for e, op in cons if op == '<='])
    if not ok:
        return False
    cur = {}
    for q in les:
        n = _norm_le(q)
        if n is True:
            continue
        if n is False:
            return False
        k, c = n
        if k not in cur or cur[k] < c:
            cur[k] = c
    while cur:
        # choose the variable with the cheapest elimination
        pos_n = {}
        neg_n = {}
        for k in cur:
            for v, a in k:
                if a > 0:
                    pos_n[v] = pos_n.get(v, 0) + 1
                else:
                    neg_n[v] = neg_n.get(v, 0) + 1
        best = None
        bestc = None
        for v in set(pos_n) | set(neg_n):
            p, n = pos_n.get(v, 0), neg_n.get(v, 0)
            cst = p * n - p - n
            if bestc is None or cst < bestc or (cst == bestc and str(v) < str(best)):
                best, bestc = v, cst
        x = best
        pos, negs, rest = [], [], {}
        for k, c in cur.items():
            cx = 0
            for v, a in k:
                if v == x:
                    cx = a
                    break
            if cx > 0:
                pos.append((k, c, cx))
            elif cx < 0:
                negs.append((k, c, -cx))
            else:
                rest[k] = c
        for kp, cp, ap in pos:
            for kn, cn, an in negs:
                q = {}
                for v, a in kp:
                    if v != x:
                        q[v] = a * an
                for v, a in kn:
                    if v != x:
                        nv = q.get(v, 0) + a * ap
                        if nv:
                            q[v] = nv
                        else:
                            q.pop(v, None)
                q[ONE] = cp * an + cn * ap
                n = _norm_le(q)
                if n is True:
                    continue
                if n is False:
                    return False
                k, c = n
                if k not in rest or rest[k] < c:
                    rest[k] = c
        cur = rest
    return True


def entails(cons, c):
    e, op = c
    if op == '==':
        return (not feasible(cons + [neg((e, '<='))])) and (not feasible(cons + [neg((scale(e, -1), '<='))]))
    return not feasible(cons + [neg(c)])


def holds_at(c, point):
    """evaluate a constraint at an integer point (dict var -> int); missing variables count as 0"""
    e, op = c
    v = 0
    for k, a in e.items():
        v += a if k == ONE else a * point.get(k, 0)
    return v <= 0 if op == '<=' else v == 0


def model(cons, prefer='lo', bound=50):
    """try to produce an integer point satisfying cons (used only to *refute* candidate atoms
    cheaply; a wrong or missing point costs time, never soundness, because every kept atom is
    confirmed by entails())."""
    ok, les, subs = _gauss([e for e, op in cons if op == '=='], [e for e, op in cons if op == '<='])
    if not ok:
        return None
    rows = []
    for q in les:
        n = _norm_le(q)
        if n is True:
            continue
        if n is False:
            return None
        rows.append(n)
    order = []
    stack = []
    cur = {}
    for k, c in rows:
        if k not in cur or cur[k] < c:
            cur[k] = c
    while cur:
        vs = sorted({v for k in cur for v, _ in k}, key=str)
        if not vs:
            break
        x = vs[0]
        pos, negs, rest = [], [], {}
        for k, c in cur.items():
            cx = dict(k).get(x, 0)
            if cx > 0:
                pos.append((k, c, cx))
            elif cx < 0:
                negs.append((k, c, -cx))
            else:
                rest[k] = c
        stack.append((x, pos, negs))
        for kp, cp, ap in pos:
            for kn, cn, an in negs:
                q = {}
                for v, a in kp:
                    if v != x:
                        q[v] = a * an
                for v, a in kn:
                    if v != x:
                        nv = q.get(v, 0) + a * ap
                        if nv:
                            q[v] = nv
                        else:
                            q.pop(v, None)
                q[ONE] = cp * an + cn * ap
                n = _norm_le(q)
                if n is True:
                    continue
                if n is False:
                    return None
                k, c = n
                if k not in rest or rest[k] < c:
                    rest[k] = c
        cur = rest
    pt = {}
    for x, pos, negs in reversed(stack):
        hi = None
        lo = None
        for k, c, a in pos:      # a*x + rest + c <= 0  ->  x <= floor((-c - rest)/a)
            r = c
            for v, b in k:
                if v != x:
                    r += b * pt.get(v, 0)
            ub = (-r) // a
            hi = ub if hi is None else min(hi, ub)
        for k, c, a in negs:     # -a*x + rest + c <= 0 ->  x >= ceil((rest + c)/a)
            r = c
            for v, b in k:
                if v != x:
                    r += b * pt.get(v, 0)
            lb = -((-r) // a)
            lo = lb if lo is None else max(lo, lb)
        if lo is not None and hi is not None and lo > hi:
            return None
        if prefer == 'lo':
            val = lo if lo is not None else (hi if hi is not None else 0)
            if lo is None and hi is not None:
                val = min(hi, -bound if False else hi)
        elif prefer == 'hi':
            val = hi if hi is not None else (lo + 3 if lo is not None else 3)
        else:
            if lo is not None and hi is not None:
                val = (lo + hi) // 2
            elif lo is not None:
                val = lo + 1
            elif hi is not None:
                val = hi - 1
            else:
                val = 1
        pt[x] = val
    for x, e in reversed(subs):
        cx = e[x]
        r = e.get(ONE, 0)
        for k, v in e.items():
            if k != x and k != ONE:
                r += v * pt.get(k, 0)
        if r % cx != 0:
            return None
        pt[x] = -r // cx
    for c in cons:
        if not holds_at(c, pt):
            return None
    return pt
