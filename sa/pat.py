"""Pattern matching on provenance terms (semantic comparison, DESIGN 1.4): AC-matching of products and
sums, audio-parameter roles instead of attribute spellings, constants by value."""
import ast
from .symex import ROLE_OF, flatten_product, flatten_sum, term_name, walk


class Pat:
    def __init__(s, fn, desc):
        s.fn = fn
        s.desc = desc

    def __call__(s, t):
        try:
            return bool(s.fn(t))
        except (IndexError, TypeError, KeyError):
            return False

    def __repr__(s):
        return s.desc

    def __or__(s, o):
        return Pat(lambda t: s(t) or o(t), '(%s | %s)' % (s.desc, o.desc))


ANY = Pat(lambda t: True, '_')


MODEL = None       # set by facts.Ctx: lets constant patterns see through module-level constants (X = 1000 ... int(s * X))


def _fold(node, mod, depth=0):
    """numeric value of a module-level constant expression built from number literals, + - * / // % ** and other such constants"""
    if depth > 5:
        raise ValueError
    if isinstance(node, ast.Constant) and isinstance(node.value, (int, float)) and not isinstance(node.value, bool):
        return node.value
    if isinstance(node, ast.UnaryOp) and isinstance(node.op, (ast.USub, ast.UAdd)):
        v = _fold(node.operand, mod, depth + 1)
        return -v if isinstance(node.op, ast.USub) else v
    if isinstance(node, ast.BinOp):
        a, b = _fold(node.left, mod, depth + 1), _fold(node.right, mod, depth + 1)
        ops = {ast.Add: lambda: a + b, ast.Sub: lambda: a - b, ast.Mult: lambda: a * b, ast.Div: lambda: a / b, ast.FloorDiv: lambda: a // b, ast.Mod: lambda: a % b, ast.Pow: lambda: a ** b}
        if type(node.op) in ops:
            try:
                return ops[type(node.op)]()
            except (ZeroDivisionError, OverflowError):
                raise ValueError
    if isinstance(node, ast.Name) and MODEL is not None and mod in MODEL.mods and node.id in MODEL.mods[mod]['consts'] and not MODEL.reassigned(mod, node.id):
        return _fold(MODEL.mods[mod]['consts'][node.id], mod, depth + 1)
    raise ValueError


def _resolve_const(t):
    """a module-level name bound once to a number (a literal or arithmetic over literals and other such names) is that number"""
    if t[0] == 'g' and MODEL is not None:
        lk = MODEL.lookup(t)
        if lk and lk[0] == 'const' and not MODEL.reassigned(t[1], t[2]):
            if isinstance(lk[1], ast.Constant) and isinstance(lk[1].value, bytes):
                return ('c', lk[1].value)            # a named bytes literal (the zero byte silence is made of)
            try:
                return ('c', _fold(lk[1], t[1]))
            except ValueError:
                return t
    return t


def const(v):
    def f(t):
        t = _resolve_const(t)
        return t[0] == 'c' and t[1] == v and type(t[1]) == type(v)
    return Pat(f, repr(v))


def num(pred, desc='number'):
    def f(t):
        t = _resolve_const(t)
        return t[0] == 'c' and isinstance(t[1], (int, float)) and not isinstance(t[1], bool) and pred(t[1])
    return Pat(f, desc)


NONE = Pat(lambda t: t == ('c', None), 'None')


def param(name):
    return Pat(lambda t: t == ('p', name), name)


def field(name=None):
    """self.<name> (any field if name is None)"""
    return Pat(lambda t: t[0] == 'attr' and t[1] == ('self',) and (name is None or t[2] == name), 'self.%s' % (name or '*'))


def role(r, base=None):
    """a value carrying audio-parameter role r: attribute/param/call of getter spelled with any alias of r"""
    def f(t):
        if t[0] == 'attr':
            return ROLE_OF.get(t[2]) == r and (base is None or base(t[1]))
        if t[0] == 'p':
            return ROLE_OF.get(t[1]) == r
        if t[0] == 'call' and t[1][0] == 'attr' and not t[2]:
            return ROLE_OF.get(t[1][2]) == r
        return False
    return Pat(f, '<%s>' % r)


def attr(base, name):
    return Pat(lambda t: t[0] == 'attr' and t[2] == name and base(t[1]), '%r.%s' % (base, name))


def glob(name):
    """repo global by bare name (any module) or external/builtin by dotted name"""
    def f(t):
        if t[0] == 'g':
            return t[2] == name or '%s.%s' % (t[1], t[2]) == name
        if t[0] in ('b',):
            return t[1] == name
        if t[0] == 'ext':
            return t[1] == name or t[1].endswith('.' + name)
        return False
    return Pat(f, name)


def call(f, *args, **kw):
    """call with exactly these positional patterns (keywords given must be present; others ignored unless exact=True)"""
    fp = glob(f) if isinstance(f, str) else f
    exact = kw.pop('_exact', False)

    def m(t):
        if t[0] != 'call' or not fp(t[1]):
            return False
        if len(t[2]) != len(args):
            return False
        if not all(p(a) for p, a in zip(args, t[2])):
            return False
        kws = dict(t[3])
        for k, p in kw.items():
            if k not in kws or not p(kws[k]):
                return False
        if exact and set(kws) != set(kw):
            return False
        return True
    return Pat(m, '%r(%s)' % (fp, ', '.join([repr(a) for a in args] + ['%s=%r' % kv for kv in kw.items()])))


def method(base, name, *args, **kw):
    return call(attr(base, name), *args, **kw)


def _ac(flatten, pats, t):
    fs = flatten(t)
    if len(fs) != len(pats):
        return False
    # small: try all assignments
    import itertools
    for perm in itertools.permutations(range(len(fs))):
        if all(pats[i](fs[j]) for i, j in enumerate(perm)):
            return True
    return False


def _flat(pats, attr):
    out = []
    for p in pats:
        sub = getattr(p, attr, None)
        if sub:
            out += list(sub)
        else:
            out.append(p)
    return out


def prod(*pats):
    pats = _flat(pats, 'factors')
    p = Pat(lambda t: _ac(flatten_product, pats, t), ' * '.join(map(repr, pats)))
    p.factors = pats
    return p


def summ(*pats):
    pats = _flat(pats, 'terms')
    p = Pat(lambda t: _ac(flatten_sum, pats, t), ' + '.join(map(repr, pats)))
    p.terms = pats
    return p


def binop(op, a, b):
    return Pat(lambda t: t[0] == 'bin' and t[1] == op and a(t[2]) and b(t[3]), '(%r %s %r)' % (a, op, b))


def sub(base, idx):
    return Pat(lambda t: t[0] == 'sub' and base(t[1]) and idx(t[2]), '%r[%r]' % (base, idx))


def slice_(lo, hi):
    return Pat(lambda t: t[0] == 'slice' and (lo(t[1]) if t[1] is not None else lo(('c', None))) and (hi(t[2]) if t[2] is not None else hi(('c', None))) and t[3] is None,
               '%r:%r' % (lo, hi))


def same(t0):
    return Pat(lambda t: t == t0, 'same')


def contains(p):
    return Pat(lambda t: any(p(x) for x in walk(t)), 'contains(%r)' % p)


def first_of(d, long_name, short_name, default=None):
    """d.get(long, d.get(short[, default]))  -- the 'long name wins' alias idiom"""
    inner_args = [const(short_name)] + ([default] if default is not None else [])
    inner = method(d, 'get', *inner_args)
    if default is None:
        inner = inner | method(d, 'get', const(short_name), const(None))        # d.get(short, None) is d.get(short)
    return method(d, 'get', const(long_name), inner)
