"""Path-wise semantic obligations: `on every path, under the path condition, this expression denotes the specified function`.

The path evaluator (sa/symex.py) gives, per path of a function with every repository helper inlined and every conditional
expression turned into a branch, the path condition and the terms of the returned value / effects.  An obligation
"path condition => term == spec" is decided by evaluating condition and term (sa/termeval.py: terms extracted from the source,
never auditok code) on a grid of small concrete values of the function's inputs:

  * the grid point selects the paths whose condition holds there,
  * on those paths the term's value must equal the value the specification gives,
  * a condition or term that cannot be evaluated makes the rule INCONCLUSIVE (never a violation).

This replaces shape patterns (which broke on behaviour-preserving rewrites: ternary vs if/else, divmod vs // and %, helper
extraction, raw vs clamped negative bounds ...) by a comparison of what the expressions compute.
"""
import random

from .facts import split_ites
from .symex import Sym, TooManyPaths, show
from .termeval import Evaluator, NotEvaluable, EvalRaises, _canon_leaf


class Undecided(Exception):
    pass


class DecidedRaise(Undecided):
    """evaluating the term at this (valid) point raises: rules that care report it as a violation; for the others it is undecided"""


def deep_leaves(cx, mod, cls, fn, limit=64, inline_super=False):
    """leaves of fn with every resolvable repository helper inlined (not only those unknown to the rules) and ites split;
    inline_super: super().m(...) calls are followed too (rules that track the state of an object through its methods)"""
    key = ('deep', id(fn), getattr(cls, 'name', None), inline_super)
    if key not in cx._leaves:
        sx = Sym(cx.model, assume={'_WITH_PYDUB': False, '_WITH_TQDM': False}, known=frozenset())
        sx.inline_super = inline_super
        try:
            lv = sx.run(mod, fn, cls=cls)
        except TooManyPaths as exc:
            raise Undecided('%s: %s' % (fn.name, exc))
        cx._leaves[key] = split_ites(lv, limit=limit)
    return cx._leaves[key]


def evaluator(assign, seed=7, mode='int', fields=None):
    ev = Evaluator(random.Random(seed), mode, {_canon_leaf(k): v for k, v in assign.items()})
    ev.fields = fields
    return ev


def holds(leaf, ev):
    """does the path condition hold at the evaluator's point?  A condition that evaluates to the wrong truth value rules the path
    out whatever the others are (conditions that came from conditional expressions are listed after the tests that use their
    value); otherwise a condition that cannot be evaluated, or depends on something the point does not fix, raises Undecided"""
    pending = None
    for ct, tr, _ in leaf.conds:
        before = len(ev.leaves)
        try:
            v = ev.ev(ct)
        except EvalRaises as exc:
            if pending is None:
                # evaluating the test itself raises at this point (float(10**400) ...): the code raises here, whatever path it was on
                raise DecidedRaise('%s raises %s' % (show(ct)[:80], exc))
            continue
        except NotEvaluable as exc:
            pending = pending or 'condition %s not evaluable (%s)' % (show(ct)[:80], exc)
            continue
        if len(ev.leaves) != before:
            pending = pending or 'condition %s depends on %s, which the grid does not fix' % (show(ct)[:80], [show(k)[:50] for k in list(ev.leaves)[before:]][:2])
            continue
        if bool(v) != tr:
            return False
    if pending:
        raise Undecided(pending)
    return True


def value(term, ev, fields=None):
    """value of the term at the evaluator's point; `fields` (self field -> defining term, facts.self_field_exprs) lets a derived
    field the grid does not fix (self.duration ...) be evaluated through its definition"""
    from .facts import subst_term
    for _ in range(4):
        before = dict(ev.leaves)
        try:
            v = ev.ev(term)
        except EvalRaises as exc:
            raise DecidedRaise('%s raises %s' % (show(term)[:80], exc))
        except NotEvaluable as exc:
            raise Undecided('term %s not evaluable (%s)' % (show(term)[:80], exc))
        new = [k for k in ev.leaves if k not in before]
        if not new:
            return v
        expandable = [k for k in new if fields and k[0] == 'attr' and k[1] == ('self',) and k[2] in fields]
        if len(expandable) != len(new):
            raise Undecided('term %s depends on %s, which the grid does not fix' % (show(term)[:80], [show(k)[:50] for k in new if k not in expandable][:2]))
        for k in new:
            del ev.leaves[k]
            term = subst_term(term, k, fields[k[2]])
    raise Undecided('term %s: field definitions nest too deeply' % show(term)[:80])
