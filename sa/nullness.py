"""E5 -- nullness of read() results (DESIGN 3.5).

A value is *Maybe-None* when it is the result of `.read(...)` on something that is an audio
source / reader / proxy (everything except raw OS, wave, stdin or PyAudio streams), or of a repo
function whose summary says it may return such a value (whole, or at a tuple index).
A *sink* dereferences the value: subscript, len(), +, *, attribute access, b"".join element, or an
argument of a repo callee whose summary dereferences that parameter (dataclass fields flow into
__post_init__).  The state of a value at a sink is decided by the path conditions taken before it
(`is None`, `is not None`, truthiness, isinstance).  Maybe/None at a sink = finding.
"""
import ast

from .symex import Sym, walk, show, term_name, bind_call, TooManyPaths

READ_NAMES = {'read', 'readframes'}
RAW_CTORS = {'open', 'wave.open'}


class Nullness:
    def __init__(s, model):
        s.m = model
        s.sx = Sym(model, tag_calls=READ_NAMES)
        s._deref = {}
        s._ret = {}
        s._leaves = {}
        s.read_sites = []          # (mod, qualname, lineno, receiver text, class 'raw'|'optional')
        s._site_seen = set()

    # ---------------------------------------------------------------- receivers
    def _field_stores(s, mod, cls, field):
        """all value ASTs stored into self.<field> anywhere in the class hierarchy of cls"""
        classes = {id(c): (m, c) for m, c in s.m.mro(mod, cls)}
        for m, c in s.m.subclasses(mod, cls):
            classes[id(c)] = (m, c)
        for m0, c0 in list(classes.values()):
            for m, c in s.m.subclasses(m0, c0):
                classes[id(c)] = (m, c)
        vals = []
        for m, c in classes.values():
            for n in ast.walk(c):
                if isinstance(n, ast.Assign):
                    for t in n.targets:
                        if isinstance(t, ast.Attribute) and isinstance(t.value, ast.Name) and t.value.id == 'self' and t.attr == field:
                            vals.append((m, n.value))
        return vals

    def _is_raw_value(s, mod, v):
        if isinstance(v, ast.Constant) and v.value is None:
            return True
        if isinstance(v, ast.Call):
            f = ast.unparse(v.func)
            if f in RAW_CTORS:
                return True
            # pyaudio stream:  self._pyaudio_object.open(...)  where the object comes from an external module
            if isinstance(v.func, ast.Attribute) and v.func.attr == 'open' and 'pyaudio' in f.lower():
                return True
            return False
        if isinstance(v, ast.Attribute):
            root = v
            while isinstance(root, ast.Attribute):
                root = root.value
            if isinstance(root, ast.Name):
                g = s.m.resolve_global(mod, root.id)
                if g[0] == 'ext' and g[1].split('.')[0] == 'sys':
                    return True
        return False

    def receiver_class(s, mod, cls, recv, leaf_env=None):
        """'raw' (never None) or 'optional'"""
        if recv[0] == 'attr' and recv[1] == ('self',) and cls is not None:
            vals = s._field_stores(mod, cls, recv[2])
            if vals and all(s._is_raw_value(m, v) for m, v in vals):
                return 'raw'
            return 'optional'
        if recv[0] == 'enter':
            inner = recv[1]
            if inner[0] == 'call' and term_name(inner[1]) in RAW_CTORS:
                return 'raw'
            if inner[0] == 'call' and inner[1][0] == 'g':
                # a context-manager helper of the package (@contextmanager generator) that yields such a stream object
                lk = s.m.lookup(inner[1])
                if lk and lk[0] == 'func' and s._yields_raw_stream(getattr(lk[1], '_home', inner[1][1]), lk[1]):
                    return 'raw'
        if recv[0] == 'call' and term_name(recv[1]) in RAW_CTORS:
            return 'raw'
        if recv[0] == 'ext':
            return 'raw'
        if recv[0] == 'attr' and recv[1][0] == 'ext':
            return 'raw'
        return 'optional'

    def _yields_raw_stream(s, mod, fn):
        """a @contextmanager generator whose every yield hands out an object made by one of the stream constructors"""
        if not any((isinstance(d, ast.Name) and d.id == 'contextmanager') or (isinstance(d, ast.Attribute) and d.attr == 'contextmanager') for d in fn.decorator_list):
            return False
        bound = {}
        for n in ast.walk(fn):
            if isinstance(n, ast.With):
                for it in n.items:
                    if isinstance(it.optional_vars, ast.Name):
                        bound.setdefault(it.optional_vars.id, []).append(it.context_expr)
            elif isinstance(n, ast.Assign) and len(n.targets) == 1 and isinstance(n.targets[0], ast.Name):
                bound.setdefault(n.targets[0].id, []).append(n.value)
        ys = [n for n in ast.walk(fn) if isinstance(n, ast.Yield)]
        if not ys:
            return False

        def raw(e):
            if isinstance(e, ast.Call):
                t = s.sx.term(e.func, {}, mod)
                return term_name(t) in RAW_CTORS
            return False
        for y in ys:
            v = y.value
            if isinstance(v, ast.Name) and v.id in bound and all(raw(e) for e in bound[v.id]):
                continue
            if raw(v):
                continue
            return False
        return True

    # ---------------------------------------------------------------- function table
    def functions(s):
        for mod, d in s.m.mods.items():
            for fn in d['funcs'].values():
                yield mod, None, fn, fn.name
            for c in d['classes'].values():
                for fn in c.body:
                    if isinstance(fn, ast.FunctionDef):
                        yield mod, c, fn, '%s.%s' % (c.name, fn.name)

    def leaves(s, mod, cls, fn):
        key = id(fn)
        if key not in s._leaves:
            try:
                s._leaves[key] = s.sx.run(mod, fn, cls=cls)
            except TooManyPaths:
                s._leaves[key] = None
        return s._leaves[key]

    # ---------------------------------------------------------------- value classification
    def is_maybe(s, t, mod, cls, depth=0):
        """is term t a Maybe-None value by itself (before refinement)?"""
        if t is None or not isinstance(t, tuple):
            return False
        if t[0] == 'call' and len(t) == 5 and t[1][0] == 'attr' and t[1][2] in READ_NAMES:
            return s.receiver_class(mod, cls, t[1][1]) == 'optional'
        if t[0] == 'call' and depth < 4:
            tgt = s.resolve_callee(t[1], mod, cls)
            if tgt and tgt[0] == 'func':
                return 'whole' in s.returns_maybe(tgt[1], tgt[2], tgt[3], depth + 1)
        if t[0] == 'sub' and t[1][0] == 'call' and t[2][0] == 'c' and isinstance(t[2][1], int) and depth < 4:
            tgt = s.resolve_callee(t[1][1], mod, cls)
            if tgt and tgt[0] == 'func':
                return t[2][1] in s.returns_maybe(tgt[1], tgt[2], tgt[3], depth + 1)
        if t[0] == 'call' and t[1] == ('b', 'next'):
            return True     # next(generator) of a block generator may deliver None
        return False

    def resolve_callee(s, f, mod, cls):
        """-> ('func', mod, cls|None, fn) | ('class', mod, clsnode) | None"""
        if f[0] == 'g':
            lk = s.m.lookup(f)
            if lk and lk[0] == 'func':
                return ('func', f[1], None, lk[1])
            if lk and lk[0] == 'class':
                return ('class', f[1], lk[1])
        if f[0] == 'attr' and f[1] == ('self',) and cls is not None:
            r = s.m.find_method(mod, cls, f[2])
            if r and not s.m.is_property(r[2]):
                return ('func', r[0], r[1], r[2])
        if f[0] == 'p' and f[1] == 'cls' and cls is not None:
            return ('class', mod, cls)
        if f[0] == 'attr' and f[1][0] == 'g':
            lk = s.m.lookup(f[1])
            if lk and lk[0] == 'class':
                r = s.m.find_method(f[1][1], lk[1], f[2])
                if r:
                    return ('func', r[0], r[1], r[2])
        return None

    def state(s, t, conds):
        """'NN' | 'None' | 'Maybe' for term t under the path conditions"""
        st = 'Maybe'
        for ct, truth, _ in conds:
            if ct == t:
                st = 'NN' if truth else st
            elif ct[0] == 'cmp' and ct[2] == t and ct[3] == ('c', None):
                if ct[1] in ('is', '=='):
                    st = 'None' if truth else 'NN'
                elif ct[1] in ('is not', '!='):
                    st = 'NN' if truth else 'None'
            elif ct[0] == 'call' and ct[1] == ('b', 'isinstance') and ct[2] and ct[2][0] == t:
                st = 'NN' if truth else st
        return st

    # ---------------------------------------------------------------- sinks
    def sinks_in(s, term, target_pred, mod, cls, depth):
        """yield (kind, maybe_term) for every dereference of a term satisfying target_pred inside `term`"""
        for x in walk(term):
            k = x[0]
            if k == 'sub' and target_pred(x[1]):
                yield ('subscript', x[1])
            elif k == 'attr' and target_pred(x[1]) :
                yield ('attribute .%s' % x[2], x[1])
            elif k == 'bin' and x[1] in ('+', '*', '%', '-', '/', '//'):
                for o in (x[2], x[3]):
                    if target_pred(o):
                        yield ('operand of %s' % x[1], o)
            elif k == 'call':
                f = x[1]
                if f == ('b', 'len') and x[2] and target_pred(x[2][0]):
                    yield ('len()', x[2][0])
                elif f[0] == 'attr' and f[2] == 'join' and x[2]:
                    a = x[2][0]
                    if a[0] in ('list', 'tuple'):
                        for e in a[1]:
                            if target_pred(e):
                                yield ('element of join()', e)
                else:
                    tgt = s.resolve_callee(f, mod, cls) if depth < 4 else None
                    if tgt:
                        for pname, arg in s.bound_args(x, tgt).items():
                            if isinstance(arg, tuple) and target_pred(arg) and s.derefs_param(tgt, pname, depth + 1):
                                yield ('argument %r of %s (dereferenced there)' % (pname, term_name(f)), arg)

    def bound_args(s, call, tgt):
        if tgt[0] == 'func':
            fn = tgt[3]
            skip = tgt[2] is not None and not any(isinstance(d, ast.Name) and d.id == 'staticmethod' for d in fn.decorator_list)
            return {k: v for k, v in bind_call(call, fn, skip_self=skip).items() if not k.startswith('*')}
        # class: __init__ or dataclass fields
        mod, c = tgt[1], tgt[2]
        r = s.m.find_method(mod, c, '__init__')
        if r:
            return {k: v for k, v in bind_call(call, r[2], skip_self=True).items() if not k.startswith('*')}
        fields = [n.target.id for n in c.body if isinstance(n, ast.AnnAssign) and isinstance(n.target, ast.Name)]
        out = {}
        for i, v in enumerate(call[2]):
            if i < len(fields) and v[0] != 'star':
                out[fields[i]] = v
        for k, v in call[3]:
            if k in fields:
                out[k] = v
        return out

    def derefs_param(s, tgt, pname, depth=0):
        key = (id(tgt[-1]), pname)
        if key in s._deref:
            return s._deref[key]
        s._deref[key] = False          # cycle guard
        res = False
        if tgt[0] == 'class':
            mod, c = tgt[1], tgt[2]
            r = s.m.find_method(mod, c, '__init__')
            if r:
                res = s._derefs_in(r[0], r[1], r[2], ('p', pname), depth)
            else:
                r = s.m.find_method(mod, c, '__post_init__')
                if r:
                    res = s._derefs_in(r[0], r[1], r[2], ('attr', ('self',), pname), depth)
        else:
            res = s._derefs_in(tgt[1], tgt[2], tgt[3], ('p', pname), depth)
        s._deref[key] = res
        return res

    def _derefs_in(s, mod, cls, fn, target, depth):
        lv = s.leaves(mod, cls, fn)
        if lv is None:
            return False
        pred = lambda t: t == target
        for l in lv:
            for e in l.effects:
                if e[0] not in ('eval', 'call'):
                    continue
                for kind, mt in s.sinks_in(e[1], pred, mod, cls, depth):
                    if s.state(mt, l.conds[:e[4]]) != 'NN':
                        return True
        return False

    def returns_maybe(s, mod, cls, fn, depth=0):
        key = id(fn)
        if key in s._ret:
            return s._ret[key]
        s._ret[key] = set()
        out = set()
        lv = s.leaves(mod, cls, fn)
        for l in lv or []:
            vals = []
            if l.outcome == 'return':
                vals.append((l.value, len(l.conds)))
            for e in l.effects:
                if e[0] == 'yield':
                    pass        # generators: the consumer uses next(); handled by is_maybe(next(...))
            for v, nc in vals:
                if v is None:
                    continue
                if s.is_maybe(v, mod, cls, depth) and s.state(v, l.conds[:nc]) != 'NN':
                    out.add('whole')
                if v[0] == 'tuple':
                    for i, x in enumerate(v[1]):
                        if s.is_maybe(x, mod, cls, depth) and s.state(x, l.conds[:nc]) != 'NN':
                            out.add(i)
        s._ret[key] = out
        return out

    # ---------------------------------------------------------------- whole-package check
    def check(s, only_mods=None):
        """-> list of findings dict(mod, func, where, kind, value, state)"""
        findings = []
        for mod, cls, fn, qual in s.functions():
            if only_mods and mod not in only_mods:
                continue
            lv = s.leaves(mod, cls, fn)
            if lv is None:
                findings.append(dict(mod=mod, func=qual, where='auditok/%s.py:%d' % (mod, fn.lineno), kind='too many paths', value='', state='unknown', inconclusive=True))
                continue
            # census of read sites
            for n in ast.walk(fn):
                if isinstance(n, ast.Call) and isinstance(n.func, ast.Attribute) and n.func.attr in READ_NAMES and (mod, n.lineno, n.col_offset) not in s._site_seen:
                    s._site_seen.add((mod, n.lineno, n.col_offset))
                    recv = None
                    for l in lv:
                        for e in l.effects:
                            if e[0] == 'call' and e[3] is n:
                                recv = e[1][1][1]
                                break
                        if recv is not None:
                            break
                    rc = s.receiver_class(mod, cls, recv) if recv is not None else 'optional'
                    s.read_sites.append(dict(mod=mod, func=qual, line=n.lineno, receiver=ast.unparse(n.func.value), cls=rc))
            pred = lambda t, _m=mod, _c=cls: s.is_maybe(t, _m, _c)
            seen = set()
            for l in lv:
                for e in l.effects:
                    if e[0] not in ('eval', 'call'):
                        continue
                    for kind, mt in s.sinks_in(e[1], pred, mod, cls, 0):
                        st = s.state(mt, l.conds[:e[4]])
                        if st == 'NN':
                            continue
                        node = e[3]
                        key = (qual, getattr(node, 'lineno', 0), kind)
                        if key in seen:
                            continue
                        seen.add(key)
                        findings.append(dict(mod=mod, func=qual, where='auditok/%s.py:%d' % (mod, getattr(node, 'lineno', fn.lineno)), kind=kind,
                                             value=show(mt)[:120], state=st,
                                             path=[(show(c[0])[:70], c[1]) for c in l.conds[:e[4]]][-4:]))
        return findings
