"""Shared plumbing: repository loading, reports, evidence files, known findings, exit codes.

Exit policy (DESIGN 1.3):  0 pass | 1 VIOLATION (fully understood construct contradicts a rule)
| 2 ANALYSIS-ERROR / INCONCLUSIVE (analyser could not understand the code; census below floor).
"""
import ast
import glob
import hashlib
import json
import os
import sys
import time

VERIF = os.path.dirname(os.path.dirname(os.path.abspath(__file__)))
DEFAULT_REPO = '/repo'


class AnalysisError(Exception):
    pass


class Repo:
    """parsed view of <repo>/auditok/*.py (every module the package build ships)"""

    def __init__(s, root):
        s.root = root
        s.pkg = os.path.join(root, 'auditok')
        if not os.path.isdir(s.pkg):
            raise AnalysisError('package directory %s not found' % s.pkg)
        s.sources = {}
        s.trees = {}
        for path in sorted(glob.glob(os.path.join(s.pkg, '*.py'))):
            name = os.path.basename(path)[:-3]
            with open(path) as fp:
                src = fp.read()
            s.sources[name] = src
            try:
                s.trees[name] = ast.parse(src, filename=path)
            except SyntaxError as exc:
                raise AnalysisError('cannot parse %s: %s' % (path, exc))
        from .canon import canonicalise
        for name in list(s.trees):
            s.trees[name] = canonicalise(s.trees[name])
        for t in s.trees.values():
            for node in ast.walk(t):
                if isinstance(node, (ast.FunctionDef, ast.AsyncFunctionDef, ast.Lambda)) and node.args.posonlyargs:
                    # `def f(a, b, /, c)`: for the analysis the positional-only marker changes nothing but which CALLS are legal;
                    # the parameters are kept in one positional list so that no rule has to know about the marker
                    node.args.args = list(node.args.posonlyargs) + list(node.args.args)
                    node.args.posonlyargs = []
                for ch in ast.iter_child_nodes(node):
                    ch._parent = node

    def rel(s, mod):
        return 'auditok/%s.py' % mod

    def digest(s, mods=None):
        h = hashlib.sha256()
        for m in sorted(mods or s.sources):
            h.update(m.encode())
            h.update(s.sources[m].encode())
        return h.hexdigest()

    def func(s, mod, qual):
        """find a function/method by dotted qualname inside a module; None if absent"""
        node = s.trees.get(mod)
        if node is None:
            return None
        for part in qual.split('.'):
            nxt = None
            for ch in node.body:
                if isinstance(ch, (ast.FunctionDef, ast.ClassDef, ast.AsyncFunctionDef)) and ch.name == part:
                    nxt = ch
            if nxt is None:
                return None
            node = nxt
        return node

    def need(s, mod, qual):
        f = s.func(mod, qual)
        if f is None:
            raise AnalysisError('public entry point %s.%s not found (anchor vanished)' % (mod, qual))
        return f

    def loc(s, mod, node):
        return '%s:%s' % (s.rel(mod), getattr(node, 'lineno', '?'))


def analyser_digest():
    h = hashlib.sha256()
    for path in sorted(glob.glob(os.path.join(VERIF, 'sa', '**', '*.py'), recursive=True)):
        with open(path, 'rb') as fp:
            h.update(path.encode())
            h.update(fp.read())
    return h.hexdigest()


def load_known():
    path = os.path.join(VERIF, 'known_findings.json')
    if not os.path.exists(path):
        return []
    with open(path) as fp:
        return json.load(fp).get('findings', [])


class Report:
    def __init__(s, prop, tier, repo_root, level='other'):
        s.prop = prop
        s.tier = tier
        s.repo_root = repo_root
        s.level = level
        s.t0 = time.time()
        s.obligations = []     # dict(rule, ok, where, ...)
        s.violations = []      # dict(rule, construct, where, message, detail)
        s.inconclusive = []    # str
        s.info = []
        s.census = {}          # name -> (count, floor)
        s.samples = []
        s.explanation = ''
        s.assumptions = []
        s.trusted_base = []
        s.analysed = {}
        s.extra = {}

    # -- recording
    def ob(s, rule, ok, where, construct=None, message=None, detail=None, sample=None, loop_rule=False):
        """one obligation; a failed one becomes a violation keyed by rule + construct"""
        if not ok and not loop_rule and message and s._mentions_uninlined_helper(message):
            s.unknown('%s [%s at %s]: the value involves a call of a private helper the path evaluator could not inline (several paths inside an expression, a generator ...), so the rule did not see what it computes -- %s'
                      % (rule, construct or '', where, message[:160]))
            return None
        if not ok and not loop_rule and message and s._shows_conditional_value(message):
            s.unknown('%s [%s at %s]: the value examined is a conditional expression the rule did not take apart into its two cases -- %s' % (rule, construct or '', where, message[:160]))
            return None
        if not ok and not loop_rule and message and any(m in message for m in ('<loopvar ', '<unk ', '<localfunc ')):
            # the value that failed the rule contains a placeholder of the evaluator (a variable rewritten in a loop that was
            # abstracted, an unmodelled construct): the rule did not see the real value, so this is not a decision
            # (rules ABOUT loop-carried variables pass loop_rule=True: there the placeholder is the subject)
            s.unknown('%s [%s at %s]: the value is only known up to an abstraction of the path evaluator -- %s' % (rule, construct or '', where, message[:160]))
            return None
        s.obligations.append(dict(rule=rule, ok=bool(ok), where=where))
        if not ok:
            s.violations.append(dict(rule=rule, construct=construct or where, where=where,
                                     message=message or rule, detail=detail))
        elif sample is not None and len(s.samples) < 12:
            s.samples.append(sample)
        return ok

    def _mentions_uninlined_helper(s, message):
        """does the text of a failed obligation show a call `x._name(` of a private function / method of the repository that the
        rules do not know by name?  (helpers the rules know are part of their vocabulary; unknown ones are normally inlined, and
        when they still appear the evaluator could not look inside)"""
        cx = getattr(s, 'cx', None)
        if cx is None:
            return False
        import re
        from .known_names import KNOWN
        known_last = {k.split('.')[-1] for k in KNOWN}
        for m in re.finditer(r'(?:\bself|\b[a-z_]+)\.(_[A-Za-z]\w*)\(', message):
            name = m.group(1)
            if name.startswith('__') or name in known_last:
                continue
            for d in cx.model.mods.values():
                if name in d['funcs'] or any(isinstance(n, __import__('ast').FunctionDef) and n.name == name for c in d['classes'].values() for n in c.body):
                    return True
        return False

    @staticmethod
    def _shows_conditional_value(message):
        """the evidence text shows a term printed as `(a if c else b)`: rules match one case at a time, so a failed match on the
        whole conditional says nothing about either case"""
        import re
        m = re.search(r' if [^,;]{1,120}? else ', message)
        return m is not None and '(' in message[:m.start()]

    def violation(s, rule, construct, where, message, detail=None):
        s.obligations.append(dict(rule=rule, ok=False, where=where))
        s.violations.append(dict(rule=rule, construct=construct, where=where, message=message, detail=detail))

    def unknown(s, msg):
        s.inconclusive.append(msg)

    def floor(s, name, count, floor):
        s.census[name] = (count, floor)
        if count < floor:
            s.unknown('census %s = %d below the hand-confirmed floor %d (rule would pass vacuously)' % (name, count, floor))

    # -- finishing
    def finish(s):
        known = [k for k in load_known() if k.get('property') == s.prop]
        fresh = []
        known_hits = []
        seen = set()
        for v in s.violations:
            key = '%s@%s' % (v['rule'], v['construct'])
            if key in seen:
                continue
            seen.add(key)
            v['key'] = key
            hit = next((k for k in known if k.get('status') == 'known' and k.get('key') == key), None)
            if hit:
                known_hits.append((hit, v))
            else:
                fresh.append(v)
        for hit, v in known_hits:
            print('KNOWN-FINDING: property=%s %s' % (s.prop, hit.get('what', v['message'])))
        for m in s.info:
            print('INFO: %s' % m)
        code = 0
        replay_dir = os.path.join(VERIF, 'evidence', 'replay')
        if os.path.realpath(s.repo_root) != os.path.realpath(DEFAULT_REPO) or os.environ.get('VERIF_NO_EVIDENCE'):
            replay_dir = os.environ.get('VERIF_REPLAY_DIR', '/var/tmp/verif-replay')
        if fresh:
            os.makedirs(replay_dir, exist_ok=True)
            for i, v in enumerate(fresh):
                rp = os.path.join(replay_dir, '%s-%d.json' % (s.prop, i))
                with open(rp, 'w') as fp:
                    json.dump(dict(property=s.prop, repo=s.repo_root, **v), fp, indent=1, default=str)
                print('%s: [%s] %s' % (v['where'], v['rule'], v['message']))
                if v.get('detail'):
                    print('    ' + str(v['detail'])[:1500])
                print('VIOLATION property=%s replay=%s' % (s.prop, rp))
            code = 1
        if s.inconclusive and code == 0:
            for m in s.inconclusive:
                print('INCONCLUSIVE: %s' % m)
            code = 2
        elif s.inconclusive:
            for m in s.inconclusive:
                print('INCONCLUSIVE (in addition): %s' % m)
        s.write_evidence(len(fresh), known_hits)
        nob = len(s.obligations)
        nok = sum(1 for o in s.obligations if o['ok'])
        print('%s %s: %d obligations, %d discharged, %d violation(s), %d known finding(s), %.2fs'
              % (s.prop, s.tier, nob, nok, len(fresh), len(known_hits), time.time() - s.t0))
        return code

    def write_evidence(s, nviol, known_hits):
        nob = len(s.obligations)
        nok = sum(1 for o in s.obligations if o['ok'])
        rules = {}
        for o in s.obligations:
            r = rules.setdefault(o['rule'], [0, 0])
            r[0] += 1
            r[1] += 1 if o['ok'] else 0
        cov = dict(
            explanation=s.explanation,
            obligations=nob,
            discharged=nok,
            evaluations=max(nob, 1),
            distinct_nontrivial=max(len({(o['rule'], o['where']) for o in s.obligations}), 0),
            rule='one evaluation = one rule instance (obligation) at one construct of the current source; distinct = distinct (rule, site) pairs',
            rules={k: dict(instances=v[0], discharged=v[1]) for k, v in sorted(rules.items())},
            census={k: dict(count=v[0], floor=v[1]) for k, v in s.census.items()},
            analysed=s.analysed,
            samples=s.samples[:12] or [o for o in s.obligations[:5]],
            checker_cmd='./check %s --tier %s' % (s.prop, s.tier),
            trusted_base=s.trusted_base,
            inconclusive=s.inconclusive,
            known_findings_reported=[h.get('key') for h, _ in known_hits],
            exhaustive=False,
        )
        cov.update(s.extra)
        ev = dict(property_id=s.prop, tier=s.tier, seed=int(os.environ.get('VERIF_SEED', '0') or 0), level=s.level, coverage=cov,
                  assumptions=s.assumptions, wall_s=round(time.time() - s.t0, 3), violations=nviol)
        os.makedirs(os.path.join(VERIF, 'evidence'), exist_ok=True)
        # evidence is only written for the registered repository (self-tests on scratch copies must not overwrite it)
        if (os.path.realpath(s.repo_root) == os.path.realpath(DEFAULT_REPO) and not os.environ.get('VERIF_NO_EVIDENCE')) or os.environ.get('VERIF_WRITE_EVIDENCE'):
            with open(os.path.join(VERIF, 'evidence', '%s.json' % s.prop), 'w') as fp:
                json.dump(ev, fp, indent=1, default=str)
